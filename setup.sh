#!/bin/sh
# Offline setup: nothing to build. Verifies that the tools the checks need are present.
set -e
cd "$(dirname "$0")"
python3-vt -c "import z3; assert z3.get_version_string().startswith('5.')" 
command -v z3-new >/dev/null
command -v cvc5 >/dev/null
/venv/bin/python -c "import breezy"
mkdir -p evidence replays
echo setup ok
