"""Shared helpers for native replay drivers (run under /venv/bin/python with PYTHONPATH=/repo)."""
import json, re, sys


def request():
    return json.loads(sys.stdin.read() or "{}")


_SEEN_KNOWN = []      # witness classes of listed known findings that this run met (reported back so the check prints KNOWN-FINDING)


def verdict(reproduced, detail, **kw):
    print(json.dumps(dict(reproduced=bool(reproduced), detail=detail, known_seen=list(_SEEN_KNOWN), **kw), default=str))
    sys.exit(0)


def model_ints(model, prefix):
    """Integers found in the model value of the first constant whose name starts with prefix (z3 text form)."""
    if not model:
        return None
    for k, v in model.items():
        if k.startswith(prefix):
            return [int(x) for x in re.findall(r"-?\d+", str(v))]
    return None


_REQ = None


def is_known(witness_class):
    """True when the committed known-findings file lists this witness class (the driver then keeps searching)."""
    global _REQ
    hit = witness_class in ((_REQ or {}).get("known") or [])
    if hit and witness_class not in _SEEN_KNOWN:
        _SEEN_KNOWN.append(witness_class)
    return hit


def request():  # noqa: F811  (keeps the request for is_known)
    global _REQ
    _REQ = json.loads(sys.stdin.read() or "{}")
    return _REQ


def _crash(tp, val, tb):
    """A crashing driver must not look like 'nothing found': say so explicitly (the check treats it as not reproduced and prints it)."""
    import traceback
    print(json.dumps(dict(reproduced=False, detail="REPLAY DRIVER CRASHED: %s: %s" % (tp.__name__, val), crashed=True,
                          traceback="".join(traceback.format_exception(tp, val, tb))[-1500:])))
    sys.__excepthook__(tp, val, tb)


sys.excepthook = _crash
