"""Replay / native scenarios for C08 on real stacked 2a branches: histories are split at every point between a fallback branch and a
branch stacked on it; revisions reach the stacked branch by commit, by push and by fetch. Afterwards, with the stacked repository's own
stores only (fallbacks detached), every revision it holds has its own inventory, the inventories of all its parents, and every file text
that differs from those parents; and with the fallback attached the tip tree can be read and diffed against its parents."""
import os, shutil, tempfile
from _common import request, verdict, is_known
import breezy.bzr  # noqa
from breezy import controldir, errors, revision as _mod_revision
from breezy.branch import Branch

req = request()
base = tempfile.mkdtemp(prefix="c08_")
fmt = controldir.format_registry.make_controldir("2a")
N = 5


def build_source():
    d = os.path.join(base, "src"); os.mkdir(d)
    cd = fmt.initialize(d); cd.create_repository(); cd.create_branch(); wt = cd.create_workingtree()
    revs = []
    for i in range(N):
        open(os.path.join(d, "f%d" % (i % 2)), "w").write("text %d\n" % i)
        if i < 2:
            wt.add(["f%d" % i])
        if i == 3:
            os.mkdir(os.path.join(d, "dir")); open(os.path.join(d, "dir", "g"), "w").write("g\n"); wt.add(["dir", "dir/g"])
        revs.append(wt.commit("c%d" % i, rev_id=b"r%d" % i, committer="t <t@e.x>"))
    return wt, revs


def check_stacked(stacked_branch, how, split):
    repo = stacked_branch.repository
    fallbacks = list(repo._fallback_repositories)
    with repo.lock_read():
        # 1. with the fallback: the tip can be read and diffed
        tip = stacked_branch.last_revision()
        t = repo.revision_tree(tip)
        for p, e in t.iter_entries_by_dir():
            if e.kind == "file":
                t.get_file_text(p)
        for par in repo.get_revision(tip).parent_ids:
            list(t.iter_changes(repo.revision_tree(par)))
    # 2. the stacked repository alone (reopened without fallbacks)
    alone = controldir.ControlDir.open(stacked_branch.controldir.root_transport.base).find_repository()
    # a freshly opened repository object has no fallbacks until a branch attaches them
    if alone._fallback_repositories:
        verdict(True, "driver problem: repository opened alone has fallbacks")
    with alone.lock_read():
        local = set(alone.all_revision_ids())
        for r in sorted(local):
            rev = alone.get_revision(r)
            need = [r] + [p_ for p_ in rev.parent_ids]
            present = alone.inventories.get_parent_map([(k,) for k in need])
            for k in need:
                if (k,) not in present:
                    # a ghost parent is allowed to be absent: is it absent from the fallback too?
                    if k != r and all(not fb.has_revision(k) for fb in fallbacks):
                        continue
                    verdict(True, "a revision in the stacked repository lacks %s inventory locally" % ("its own" if k == r else "a parent's"),
                            input=dict(how=how, split_after=split), observed="revision %r, inventory %r missing" % (r, k))
            # texts that differ from the parents
            tree = alone.revision_tree(r)
            ptrees = [alone.revision_tree(p_) for p_ in rev.parent_ids] or [alone.revision_tree(_mod_revision.NULL_REVISION)]
            for path, e in tree.iter_entries_by_dir():
                if e.kind != "file":
                    continue
                same = any(pt.is_versioned(path) and pt.kind(path) == "file" and pt.get_file_revision(path) == e.revision for pt in ptrees)
                if same:
                    continue
                if not alone.texts.get_parent_map([(e.file_id, e.revision)]):
                    verdict(True, "a file text that differs from the parents is not in the stacked repository itself",
                            input=dict(how=how, split_after=split), observed="revision %r path %r text %r" % (r, path, e.revision))
    return len(local)


tried = checked = 0
try:
    src, revs = build_source()
    for split in range(1, N):
        for how in ("commit", "push", "fetch+set_last", "pull"):
            tried += 1
            name = "%s_%d" % (how.replace("+", "_"), split)
            fb_dir = os.path.join(base, "fb_" + name)
            fb = src.branch.controldir.sprout(fb_dir, revision_id=revs[split - 1]).open_branch()
            st_dir = os.path.join(base, "st_" + name); os.mkdir(st_dir)
            st = controldir.ControlDir.create_branch_convenience(st_dir, format=fmt, force_new_repo=True)
            st.set_stacked_on_url(fb.base)
            st = Branch.open(st_dir)
            if how == "commit":
                st.pull(fb)
                wt = st.controldir.open_workingtree()
                wt.update()
                for i in range(split, N):
                    open(os.path.join(st_dir, "f%d" % (i % 2)), "w").write("stacked %d\n" % i)
                    wt.commit("s%d" % i, rev_id=b"s%d" % i, committer="t <t@e.x>")
                st = Branch.open(st_dir)
            elif how == "push":
                src.branch.push(st)
            elif how == "pull":
                st.pull(src.branch)
            else:
                with st.lock_write():
                    st.repository.fetch(src.branch.repository, revision_id=revs[-1])
                    st.set_last_revision_info(N, revs[-1])
            st = Branch.open(st_dir)
            checked += check_stacked(st, how, split)
    # an uncooperative sender: it answers the sink's request for the missing parent inventories with nothing. The push must then be
    # refused (nothing changed) - or, if it is accepted, the stacked repository alone must still satisfy the stacking contract
    from breezy.bzr import groupcompress_repo as _gc
    for split in range(1, N):
        for adds_file in (False, True):
            tried += 1
            name = "unco_%d_%s" % (split, adds_file)
            work_dir = os.path.join(base, "w_" + name)
            work = src.branch.controldir.sprout(work_dir, revision_id=revs[split]).open_workingtree()
            if adds_file:
                open(os.path.join(work_dir, "newfile"), "w").write("n\n"); work.add(["newfile"])
                work.commit("adds a file", rev_id=b"x-%d" % split, committer="t <t@e.x>")
            fb_dir = os.path.join(base, "fb_" + name)
            fb = src.branch.controldir.sprout(fb_dir, revision_id=revs[split - 1]).open_branch()
            st_dir = os.path.join(base, "st_" + name); os.mkdir(st_dir)
            st = controldir.ControlDir.create_branch_convenience(st_dir, format=fmt, force_new_repo=True)
            st.set_stacked_on_url(fb.base)
            st = Branch.open(st_dir)
            before_tip = st.last_revision()
            real = _gc.GroupCHKStreamSource.get_stream_for_missing_keys
            _gc.GroupCHKStreamSource.get_stream_for_missing_keys = lambda self, missing_keys: iter(())
            refused = False
            try:
                try:
                    work.branch.push(st)
                except Exception:  # noqa  (BzrCheckError: refused)
                    refused = True
            finally:
                _gc.GroupCHKStreamSource.get_stream_for_missing_keys = real
            st = Branch.open(st_dir)
            if refused:
                if st.last_revision() != before_tip:
                    verdict(True, "a refused push into a stacked branch moved its tip", input=dict(split_after=split, adds_file=adds_file))
                continue
            checked += check_stacked(st, "push from a sender that sends no missing parent inventories", split)
    verdict(False, "no failing split among %d (%d revisions held by stacked repositories checked without their fallback)" % (tried, checked))
finally:
    shutil.rmtree(base, ignore_errors=True)
