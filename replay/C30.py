"""Replay for C29 and C30: the real LengthPrefixedBodyDecoder fed every segmentation of encoded messages.
Checks: the bytes handed out by read_pending_data concatenate to the body; unused_data is exactly what followed the message;
finished_reading is set exactly when 'done\\n' has been delivered; next_read_size never reaches past the end of the message."""
import itertools, sys
from _common import request, verdict
from breezy.bzr.smart import protocol

req = request()
which = "C30" if "C30" in (req.get("obligation") or "") or "next_read_size" in (req.get("obligation") or "") else "C29"


def segmentations(n, max_cuts):
    for k in range(0, max_cuts + 1):
        for cuts in itertools.combinations(range(1, n), k):
            yield (0,) + cuts + (n,)


bodies = [b"", b"a", b"\n", b"done\n", b"ab\ndone\nx", b"12\n", b"x" * 11, b"done"]
extras = [b"", b"E", b"done\n", b"\n5\n"]
tried = 0
for body in bodies:
    for extra in extras:
        end = len(b"%d\n" % len(body)) + len(body) + 5
        wire = b"%d\n%s" % (len(body), body) + b"done\n" + extra
        for seg in segmentations(len(wire), 3 if len(wire) > 14 else 4):
            tried += 1
            d = protocol.LengthPrefixedBodyDecoder()
            got, fed = b"", 0
            for a, b in zip(seg, seg[1:]):
                if not d.finished_reading:
                    nrs = d.next_read_size()
                    if nrs < 1 or fed + nrs > end:
                        verdict(True, "next_read_size asks for bytes beyond the end of the message (or for nothing while incomplete)",
                                input=dict(wire=repr(wire), fed=fed), observed=str(nrs), expected="1..%d" % (end - fed))
                d.accept_bytes(wire[a:b]); fed = b
                got += d.read_pending_data()
                if d.finished_reading != (fed >= end):
                    verdict(True, "finished_reading does not coincide with the delivery of the whole message", input=dict(wire=repr(wire), segmentation=str(seg), fed=fed))
            if got != body or not d.finished_reading or d.unused_data != extra:
                verdict(True, "decoding a segmented message did not give back the body and the trailing bytes",
                        input=dict(wire=repr(wire), segmentation=str(seg)), observed=repr((got, d.unused_data, d.finished_reading)), expected=repr((body, extra, True)))

# ---- protocol v3 framing: the real ProtocolThreeDecoder with a recording message handler that may fail at a chosen part; a second
#      message follows on the same connection. Whatever the segmentation and wherever the handler fails: every part of the first message
#      is offered to the handler unchanged and in order, the end of the message is recognised (next_read_size 0), nothing is asked for
#      beyond the current part, and exactly the following bytes are left in unused_data.
import struct
from fastbencode import bencode
if protocol.MESSAGE_VERSION_THREE != b"bzr message 3 (bzr 1.6)\n":
    verdict(True, "MESSAGE_VERSION_THREE differs from the constant assumed by the specification", observed=repr(protocol.MESSAGE_VERSION_THREE))


class Recorder:
    def __init__(self, fail_at):
        self.events, self.fail_at, self.errors = [], fail_at, []

    def _ev(self, *e):
        self.events.append(e)
        if len(self.events) - 1 == self.fail_at:
            raise RuntimeError("handler failure injected at event %d" % self.fail_at)

    def headers_received(self, h): self._ev("headers", h)
    def byte_part_received(self, b): self._ev("byte", b)
    def bytes_part_received(self, b): self._ev("bytes", b)
    def structure_part_received(self, s_): self._ev("structure", s_)
    def end_received(self): self._ev("end")
    def protocol_error(self, e): self.errors.append(e)


def lp(b):
    return struct.pack("!L", len(b)) + b


def v3_message(parts):
    out, expect = lp(bencode({b"k": b"v"})), [("headers", {b"k": b"v"})]
    for kind, val in parts:
        if kind == "byte":
            out += b"o" + val
        elif kind == "bytes":
            out += b"b" + lp(val)
        else:
            out += b"s" + lp(bencode(val))
        expect.append((kind, val))
    return out + b"e", expect + [("end",)]


messages = [[("structure", (b"verb", b"arg"))],
            [("structure", (b"readv", b"f")), ("bytes", b"0,10")],
            [("byte", b"S"), ("structure", (b"ok",)), ("bytes", b"body e with b and o"), ("bytes", b"")],
            [("structure", (b"x",)), ("byte", b"E"), ("structure", (b"err", b"e"))]]
nexts = [b"", lp(bencode({})) + b"s" + lp(bencode((b"hello",))) + b"e", b"ebzr"]
for parts, marker in [(p_, m_) for p_ in messages for m_ in (False, True)]:
    wire1, expect = v3_message(parts)
    if marker:
        # the client side: the response starts with the version marker, and short reads may end anywhere inside it
        wire1 = protocol.MESSAGE_VERSION_THREE + wire1
    for nxt in nexts:
        wire = wire1 + nxt
        for fail_at in [None] + list(range(len(expect))):
            segs = list(segmentations(len(wire), 1)) + [tuple(range(len(wire) + 1))]
            for seg in segs:
                tried += 1
                h = Recorder(fail_at)
                d = protocol.ProtocolThreeDecoder(h, expect_version_marker=marker)
                fed = 0
                for a, b in zip(seg, seg[1:]):
                    nrs = d.next_read_size()
                    if fed < len(wire1) and (nrs < 1 or fed + nrs > len(wire1)):
                        verdict(True, "v3: next_read_size asks for nothing while the message is incomplete, or for bytes beyond its end",
                                input=dict(wire=repr(wire), fed=fed, handler_fails_at=fail_at), observed=str(nrs), expected="1..%d" % (len(wire1) - fed))
                    d.accept_bytes(wire[a:b]); fed = b
                if d.decoding_failed:
                    verdict(True, "v3: a handler failure made the decoder give up on a well-formed message",
                            input=dict(wire=repr(wire), segmentation=str(seg)[:80], handler_fails_at=fail_at))
                if d.next_read_size() != 0 or d.unused_data != nxt:
                    verdict(True, "v3: the end of the message was not recognised / the bytes of the next message were not left in unused_data",
                            input=dict(wire=repr(wire), segmentation=str(seg)[:80], handler_fails_at=fail_at),
                            observed=repr((d.next_read_size(), d.unused_data)), expected=repr((0, nxt)))
                if [tuple(e) for e in h.events] != expect:
                    verdict(True, "v3: the parts offered to the message handler are not the parts of the message, unchanged and in order",
                            input=dict(wire=repr(wire), segmentation=str(seg)[:80], handler_fails_at=fail_at), observed=repr(h.events), expected=repr(expect))
                if (fail_at is not None) != bool(h.errors):
                    verdict(True, "v3: a handler failure was not reported through protocol_error (or one was reported without a failure)",
                            input=dict(wire=repr(wire), handler_fails_at=fail_at), observed=repr(h.errors))
verdict(False, "no failing segmentation among %d" % tried)
