"""Replay for C15 on a real ShelfManager: file-name/pattern agreement, unique numbering over create/delete sequences,
a failing shelf write never touches the tree and never leaks the file handle."""
import itertools, os, shutil, tempfile
from _common import request, verdict
import breezy.bzr  # noqa
from breezy import controldir, shelf
from breezy.transport import get_transport

req = request()
base = tempfile.mkdtemp(prefix="c15_")
try:
    os.mkdir(os.path.join(base, "m"))
    mgr = shelf.ShelfManager(None, get_transport(os.path.join(base, "m")))
    # the assumed agreement of 'shelf-%d' and the pattern
    for n in list(range(1, 20001)) + [10 ** 9, 10 ** 18]:
        if mgr.get_shelf_ids([mgr.get_shelf_filename(n)]) != [n]:
            verdict(True, "get_shelf_ids does not read back the id of get_shelf_filename(%d)" % n)
    if mgr.get_shelf_ids(["shelf-0", "shelf", "x-shelf-3", "shelf--1", "README"]) != []:
        verdict(True, "non-shelf names were read as shelf ids", observed=str(mgr.get_shelf_ids(["shelf-0", "shelf", "x-shelf-3", "shelf--1", "README"])))
    # unique numbering: all sequences of create (c) / delete-oldest (o) / delete-newest (n) of length <= 6
    tried = 0
    for k in range(1, 7):
        for seq in itertools.product("con", repeat=k):
            d = os.path.join(base, "s%d" % tried); os.mkdir(d); tried += 1
            m = shelf.ShelfManager(None, get_transport(d))
            live = []
            for op in seq:
                if op == "c":
                    before = m.active_shelves()
                    n, f = m.new_shelf(); f.close()
                    if n in before or n in live:
                        verdict(True, "new_shelf handed out an id that is in use", input="".join(seq), observed=str((n, before)))
                    live.append(n)
                elif live:
                    victim = min(live) if op == "o" else max(live)
                    m.delete_shelf(victim); live.remove(victim)
                if sorted(live) != m.active_shelves():
                    verdict(True, "active_shelves disagrees with the shelves created and not deleted", input="".join(seq),
                            observed=str(m.active_shelves()), expected=str(sorted(live)))
    # more than nine live shelves: numeric, not textual, order decides the next id
    d = os.path.join(base, "many"); os.mkdir(d)
    m = shelf.ShelfManager(None, get_transport(d))
    handed = []
    for i in range(23):
        nid, f = m.new_shelf(); f.write(b"shelf %d" % i); f.close()
        if nid in handed:
            verdict(True, "new_shelf handed out the id of a live shelf once more than nine shelves exist", observed=str(nid), input="%d shelves live" % len(handed))
        handed.append(nid)
        if m.active_shelves() != sorted(handed) or m.last_shelf() != max(handed):
            verdict(True, "active_shelves/last_shelf are not in numeric order with %d shelves" % len(handed), observed=str((m.active_shelves(), m.last_shelf())))
    tried += 23
    # shelve_changes: a failing write leaves the tree alone and the handle closed
    d = os.path.join(base, "t"); os.mkdir(d)
    m = shelf.ShelfManager(None, get_transport(d))
    log, files = [], []

    class Creator:
        def __init__(self, fail):
            self.fail = fail
        def write_shelf(self, f, message=None):
            files.append(f); log.append("write")
            if self.fail:
                raise RuntimeError("injected")
            f.write(b"x")
        def transform(self):
            log.append(("transform", [f.closed for f in files]))
    try:
        m.shelve_changes(Creator(True))
        verdict(True, "a failing shelf write was swallowed")
    except RuntimeError:
        pass
    if any(x != "write" for x in log):
        verdict(True, "the tree was transformed although writing the shelf failed", observed=str(log))
    if not files[-1].closed:
        verdict(True, "the shelf file was left open after a failed write")
    n = m.shelve_changes(Creator(False))
    if log[-1] != ("transform", [True, True]):
        verdict(True, "the tree was transformed before the shelf file was written and closed", observed=str(log))
    if n not in m.active_shelves():
        verdict(True, "the shelf returned by shelve_changes is not listed", observed=str((n, m.active_shelves())))
    verdict(False, "no failing input among %d sequences" % tried)
finally:
    shutil.rmtree(base, ignore_errors=True)
