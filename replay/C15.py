"""Replay for C15 on a real ShelfManager: file-name/pattern agreement, unique numbering over create/delete sequences,
a failing shelf write never touches the tree and never leaks the file handle."""
import itertools, os, shutil, tempfile
from _common import request, verdict, is_known
import breezy.bzr  # noqa
from breezy import controldir, shelf
from breezy.transport import get_transport

req = request()
base = tempfile.mkdtemp(prefix="c15_")
try:
    os.mkdir(os.path.join(base, "m"))
    mgr = shelf.ShelfManager(None, get_transport(os.path.join(base, "m")))
    # the assumed agreement of 'shelf-%d' and the pattern
    for n in list(range(1, 20001)) + [10 ** 9, 10 ** 18]:
        if mgr.get_shelf_ids([mgr.get_shelf_filename(n)]) != [n]:
            verdict(True, "get_shelf_ids does not read back the id of get_shelf_filename(%d)" % n)
    if mgr.get_shelf_ids(["shelf-0", "shelf", "x-shelf-3", "shelf--1", "README"]) != []:
        verdict(True, "non-shelf names were read as shelf ids", observed=str(mgr.get_shelf_ids(["shelf-0", "shelf", "x-shelf-3", "shelf--1", "README"])))
    # unique numbering: all sequences of create (c) / delete-oldest (o) / delete-newest (n) of length <= 6
    tried = 0
    for k in range(1, 7):
        for seq in itertools.product("con", repeat=k):
            d = os.path.join(base, "s%d" % tried); os.mkdir(d); tried += 1
            m = shelf.ShelfManager(None, get_transport(d))
            live = []
            for op in seq:
                if op == "c":
                    before = m.active_shelves()
                    n, f = m.new_shelf(); f.close()
                    if n in before or n in live:
                        verdict(True, "new_shelf handed out an id that is in use", input="".join(seq), observed=str((n, before)))
                    live.append(n)
                elif live:
                    victim = min(live) if op == "o" else max(live)
                    m.delete_shelf(victim); live.remove(victim)
                if sorted(live) != m.active_shelves():
                    verdict(True, "active_shelves disagrees with the shelves created and not deleted", input="".join(seq),
                            observed=str(m.active_shelves()), expected=str(sorted(live)))
    # more than nine live shelves: numeric, not textual, order decides the next id
    d = os.path.join(base, "many"); os.mkdir(d)
    m = shelf.ShelfManager(None, get_transport(d))
    handed = []
    for i in range(23):
        nid, f = m.new_shelf(); f.write(b"shelf %d" % i); f.close()
        if nid in handed:
            verdict(True, "new_shelf handed out the id of a live shelf once more than nine shelves exist", observed=str(nid), input="%d shelves live" % len(handed))
        handed.append(nid)
        if m.active_shelves() != sorted(handed) or m.last_shelf() != max(handed):
            verdict(True, "active_shelves/last_shelf are not in numeric order with %d shelves" % len(handed), observed=str((m.active_shelves(), m.last_shelf())))
    tried += 23
    # shelve_changes: a failing write leaves the tree alone and the handle closed
    d = os.path.join(base, "t"); os.mkdir(d)
    m = shelf.ShelfManager(None, get_transport(d))
    log, files = [], []

    class Creator:
        def __init__(self, fail):
            self.fail = fail
        def write_shelf(self, f, message=None):
            files.append(f); log.append("write")
            if self.fail:
                raise RuntimeError("injected")
            f.write(b"x")
        def transform(self):
            log.append(("transform", [f.closed for f in files]))
    try:
        m.shelve_changes(Creator(True))
        verdict(True, "a failing shelf write was swallowed")
    except RuntimeError:
        pass
    if any(x != "write" for x in log):
        verdict(True, "the tree was transformed although writing the shelf failed", observed=str(log))
    if not files[-1].closed:
        verdict(True, "the shelf file was left open after a failed write")
    n = m.shelve_changes(Creator(False))
    if log[-1] != ("transform", [True, True]):
        verdict(True, "the tree was transformed before the shelf file was written and closed", observed=str(log))
    if n not in m.active_shelves():
        verdict(True, "the shelf returned by shelve_changes is not listed", observed=str((n, m.active_shelves())))
    # shelve a SUBSET of the tree's changes, then unshelve onto the unchanged result: exactly the shelved changes leave the tree, all
    # others stay, and unshelving restores content and versioning
    import itertools as _it, stat as _stat
    from breezy import shelf as _shelf

    def snap(d_, wt_):
        wt2 = wt_.controldir.open_workingtree()
        out = {}
        with wt2.lock_read():
            for p_, e_ in wt2.iter_entries_by_dir():
                if not p_:
                    continue
                ab = os.path.join(d_, p_)
                if e_.kind == "file" and os.path.isfile(ab):
                    out[p_] = ("file", open(ab, "rb").read(), bool(os.stat(ab).st_mode & _stat.S_IXUSR))
                else:
                    out[p_] = (e_.kind,)
        return out

    def make():
        d_ = os.path.join(base, "sh%d" % (tried + 1)); os.mkdir(d_)
        cd_ = controldir.format_registry.make_controldir("2a").initialize(d_); cd_.create_repository(); cd_.create_branch()
        wt_ = cd_.create_workingtree()
        for n_ in ("mod", "ren", "del", "exe"):
            open(os.path.join(d_, n_), "w").write(n_ + " one\n")
        wt_.add(["mod", "ren", "del", "exe"], ids=[b"mod-id", b"ren-id", b"del-id", b"exe-id"]); wt_.commit("1", committer="t <t@e.x>")
        committed = snap(d_, wt_)
        # five independent changes
        open(os.path.join(d_, "mod"), "w").write("mod two\n")
        wt_.rename_one("ren", "ren2")
        wt_.remove(["del"], keep_files=False)
        os.chmod(os.path.join(d_, "exe"), 0o755)
        open(os.path.join(d_, "new"), "w").write("new\n"); wt_.add(["new"], ids=[b"new-id"])
        return d_, wt_, committed

    kinds = ["modify text", "rename", "delete file", "modify target", "add file"]     # as ShelfCreator.iter_shelvable names them
    fids = {b"mod-id": "mod", b"ren-id": "ren", b"del-id": "del", b"exe-id": "exe", b"new-id": "new"}
    for r_ in (1, 2, 5):
        for chosen in _it.combinations(sorted(fids), r_):
            tried += 1
            d_, wt_, committed = make()
            changed = snap(d_, wt_)
            with wt_.lock_tree_write():
                creator = _shelf.ShelfCreator(wt_, wt_.basis_tree())
                try:
                    for ch_ in list(creator.iter_shelvable()):
                        fid_ = ch_[1]
                        if fid_ in chosen:
                            creator.shelve_change(ch_)
                    sid = wt_.get_shelf_manager().shelve_changes(creator, "m")
                finally:
                    creator.finalize()
            after = snap(d_, wt_)
            # expected: for chosen file ids the committed state, for the others the changed state
            path_of = {b"mod-id": ("mod", "mod"), b"ren-id": ("ren", "ren2"), b"del-id": ("del", None), b"exe-id": ("exe", "exe"), b"new-id": (None, "new")}
            want = {}
            for fid_, (old_p, new_p) in path_of.items():
                if fid_ in chosen:
                    if old_p is not None:
                        want[old_p] = committed[old_p]
                elif new_p is not None:
                    want[new_p] = changed[new_p]
            if after != want and b"exe-id" in chosen:
                # an executable-bit-only change is never offered by iter_shelvable, so it cannot be shelved (finding F18)
                wc = "an executable-bit-only change selected for shelving"
                want_known = dict(want); want_known["exe"] = changed["exe"]
                if after == want_known and is_known(wc):
                    want = want_known
                elif after == want_known:
                    verdict(True, "an executable-bit change cannot be shelved: it is not offered by ShelfCreator.iter_shelvable and stays in the tree "
                                  "even when everything is shelved", witness_class=wc, input=dict(shelved=[fids[f_] for f_ in chosen]),
                            observed=str(after.get("exe")), expected=str(want.get("exe")))
            if after != want:
                verdict(True, "shelving a subset of the changes did not remove exactly those changes from the tree",
                        input=dict(shelved=[fids[f_] for f_ in chosen]), observed=str(after), expected=str(want))
            with wt_.lock_tree_write():
                un = wt_.get_shelf_manager().get_unshelver(sid)
                try:
                    un.make_merger().do_merge()
                    wt_.get_shelf_manager().delete_shelf(sid)
                finally:
                    un.finalize()
            back = snap(d_, wt_)
            if back != changed:
                verdict(True, "unshelving onto the unchanged result did not restore the tree", input=dict(shelved=[fids[f_] for f_ in chosen]),
                        observed=str(back), expected=str(changed))
            shutil.rmtree(d_, ignore_errors=True)
    verdict(False, "no failing input among %d sequences" % tried)
finally:
    shutil.rmtree(base, ignore_errors=True)
