"""Replay for C13: a fault injected at every rename / deletion performed by TreeTransform.apply on real working trees.

Before the commit point (renames): the tree on disk (names, contents, executable bits) and the versioned paths must be exactly
as before. While discarding replaced content (deletions): disk and metadata must both show the transformed layout."""
import os, shutil, stat, tempfile
from _common import request, verdict, is_known
import breezy.bzr  # noqa
import breezy.git  # noqa
from breezy import controldir, transform as T

req = request()
base = tempfile.mkdtemp(prefix="c13_")


def snapshot(d):
    out = {}
    for root, dirs, files in os.walk(d):
        dirs[:] = sorted(x for x in dirs if x not in (".bzr", ".git"))
        for n in dirs:
            out[os.path.relpath(os.path.join(root, n), d)] = ("dir",)
        for n in sorted(files):
            p = os.path.join(root, n)
            out[os.path.relpath(p, d)] = ("file", open(p, "rb").read(), bool(os.stat(p).st_mode & stat.S_IXUSR))
    return out


def names_only(s):
    return dict((k, v[:2]) for k, v in s.items())


def versioned(wt):
    wt2 = wt.controldir.open_workingtree()
    with wt2.lock_read():
        return sorted(p for p, e in wt2.iter_entries_by_dir() if p)


def new_tree(name, fmt):
    d = os.path.join(base, name)
    os.mkdir(d)
    cd = controldir.format_registry.make_controldir(fmt).initialize(d)
    if fmt != "git":
        cd.create_repository(); cd.create_branch()
    else:
        cd.create_branch()
    wt = cd.create_workingtree()
    os.mkdir(os.path.join(d, "d"))
    for f, c in (("a", "A\n"), ("x", "X\n"), ("d/f", "F\n"), ("k", "K\n")):
        open(os.path.join(d, f), "w").write(c)
    wt.add(["a", "x", "d", "d/f", "k"])
    wt.commit("1", committer="t <t@e.x>")
    return d, wt


def build(tt, with_exec):
    if with_exec == "delete-only":
        # nothing but deletions: every move is a pre-deletion (no rename into or out of limbo)
        for p_ in ("a", "x", "d/f"):
            t_ = tt.trans_id_tree_path(p_)
            tt.delete_contents(t_); tt.unversion_file(t_)
        return
    _build_mixed(tt, with_exec)


def _build_mixed(tt, with_exec):
    """rename a -> a2, delete x, replace the content of k, move d/f to the top, create n; optionally flip an executable bit"""
    a = tt.trans_id_tree_path("a")
    tt.adjust_path("a2", tt.root, a)
    x = tt.trans_id_tree_path("x")
    tt.delete_contents(x); tt.unversion_file(x)
    k = tt.trans_id_tree_path("k")
    tt.delete_contents(k); tt.create_file([b"K2\n"], k)
    f = tt.trans_id_tree_path("d/f")
    tt.adjust_path("f", tt.root, f)
    if tt._tree.supports_setting_file_ids():
        tt.new_file("n", tt.root, [b"N\n"], b"n-id")
    else:
        tt.new_file("n", tt.root, [b"N\n"])
    if with_exec:
        tt.set_executability(True, f)


class FaultyOS:
    def __init__(self, fail_at):
        self.n, self.fail_at = 0, fail_at

    def __getattr__(self, name):
        return getattr(os, name)

    def rename(self, a, b):
        self.n += 1
        if self.n == self.fail_at:
            raise OSError(5, "injected rename fault")
        return os.rename(a, b)


tried = 0
try:
    for fmt in ("2a", "git"):
        for with_exec in (False, True, "delete-only"):
            # how many renames / deletions does the undisturbed apply perform?
            d, wt = new_tree("%s_count_%s" % (fmt, with_exec), fmt)
            probe = FaultyOS(0)
            dels = []
            real_os, real_del = T.os, T.delete_any
            T.os = probe
            T.delete_any = lambda p: (dels.append(p), real_del(p))[1]
            try:
                with wt.transform() as tt:
                    build(tt, with_exec)
                    tt.apply()
            finally:
                T.os, T.delete_any = real_os, real_del
            n_ren, n_del = probe.n, len(dels)
            after_ok = names_only(snapshot(d)), versioned(wt)
            for k in range(1, n_ren + 1):
                tried += 1
                d, wt = new_tree("%s_r%d_%s" % (fmt, k, with_exec), fmt)
                before = snapshot(d), versioned(wt)
                T.os = FaultyOS(k)
                raised = None
                try:
                    tt = wt.transform()
                    try:
                        build(tt, with_exec)
                        try:
                            tt.apply()
                        except BaseException as e:  # noqa
                            raised = e
                    finally:
                        T.os = real_os
                        try:
                            tt.finalize()
                        except BaseException:  # noqa  (leftovers in limbo / pending-deletion are reported by finalize: compared below)
                            pass
                finally:
                    T.os = real_os
                now = snapshot(d), versioned(wt)
                if raised is None:
                    continue        # the failing rename was one the code tolerates (ENOENT-like handling) - not our case
                if names_only(now[0]) != names_only(before[0]) or now[1] != before[1]:
                    verdict(True, "a rename fault before the commit point did not restore the tree exactly",
                            input=dict(format=fmt, failing_rename=k, of=n_ren), observed=str((sorted(now[0]), now[1])),
                            expected=str((sorted(before[0]), before[1])))
                if now[0] != before[0]:
                    wc = "executable bit changed in place before a later rename failed"
                    if not is_known(wc):
                        verdict(True, "a rename fault before the commit point left a changed executable bit behind (rollback only undoes renames)",
                                input=dict(format=fmt, failing_rename=k, of=n_ren), witness_class=wc,
                                observed=str(sorted(p for p in now[0] if now[0][p] != before[0].get(p))))
            for k in range(1, n_del + 1):
                tried += 1
                d, wt = new_tree("%s_d%d_%s" % (fmt, k, with_exec), fmt)
                cnt = [0]

                def faulty_delete(p):
                    cnt[0] += 1
                    if cnt[0] == k:
                        raise OSError(5, "injected deletion fault")
                    return real_del(p)
                T.delete_any = faulty_delete
                raised = None
                try:
                    tt = wt.transform()
                    build(tt, with_exec)
                    try:
                        tt.apply()
                    except BaseException as e:  # noqa
                        raised = e
                    finally:
                        T.delete_any = real_del
                        try:
                            tt.finalize()
                        except BaseException:  # noqa  (ImmortalPendingDeletion: the undeleted content is reported, fine)
                            pass
                finally:
                    T.delete_any = real_del
                now = names_only(snapshot(d)), versioned(wt)
                if raised is None:
                    verdict(True, "an injected deletion fault was swallowed silently", input=dict(format=fmt, failing_deletion=k))
                if now[0] != after_ok[0]:
                    verdict(True, "a fault while discarding replaced content left the files in a mixed state",
                            input=dict(format=fmt, failing_deletion=k), observed=str(sorted(now[0])))
                if now[1] != after_ok[1]:
                    wc = "deletion fault after the insertion phase, before the metadata update"
                    if not is_known(wc):
                        verdict(True, "a fault while discarding replaced content left the metadata describing the OLD layout while the files show the new one",
                                input=dict(format=fmt, failing_deletion=k, of=n_del), witness_class=wc,
                                observed="versioned %s" % now[1], expected="versioned %s" % after_ok[1])
    # the same for every transform of up to two operations from a menu (the C14 menu), on 2a trees: a rename fault at each position
    import itertools as _it

    def m_rename_a(tt): tt.adjust_path("a2", tt.root, tt.trans_id_tree_path("a"))
    def m_move_x_into_d(tt): tt.adjust_path("x", tt.trans_id_tree_path("d"), tt.trans_id_tree_path("x"))
    def m_delete_a(tt):
        t_ = tt.trans_id_tree_path("a"); tt.delete_contents(t_); tt.unversion_file(t_)
    def m_new_file_n(tt): tt.new_file("n", tt.root, [b"N\n"], b"n2-id")
    def m_rename_d(tt): tt.adjust_path("e", tt.root, tt.trans_id_tree_path("d"))
    def m_replace_k(tt):
        t_ = tt.trans_id_tree_path("k"); tt.delete_contents(t_); tt.create_file([b"K2\n"], t_)
    def m_replace_a(tt):
        t_ = tt.trans_id_tree_path("a"); tt.delete_contents(t_); tt.create_file([b"A2\n"], t_)
    def m_new_dir_in_d(tt): tt.new_directory("sub", tt.trans_id_tree_path("d"), b"sub-id")
    def m_move_f_up(tt): tt.adjust_path("f", tt.root, tt.trans_id_tree_path("d/f"))
    def m_delete_d_and_f(tt):
        for p_ in ("d/f", "d"):
            t_ = tt.trans_id_tree_path(p_); tt.delete_contents(t_); tt.unversion_file(t_)
    def m_new_file_z(tt): tt.new_file("z", tt.root, [b"Z\n"], b"z-id")
    menu = [m_rename_a, m_move_x_into_d, m_delete_a, m_new_file_n, m_rename_d, m_replace_k, m_replace_a, m_new_dir_in_d, m_move_f_up,
            m_delete_d_and_f, m_new_file_z]
    max_ops = 2 if req.get("tier", "quick") == "quick" else 3
    n_menu = 0
    for k_ in range(1, max_ops + 1):
        for ops in _it.combinations(menu, k_):
            names = [o_.__name__[2:] for o_ in ops]
            # count the renames of the undisturbed apply
            d, wt = new_tree("menu_c%d" % n_menu, "2a"); n_menu += 1
            probe = FaultyOS(0)
            real_os = T.os
            T.os = probe
            ok_plain = True
            try:
                tt = wt.transform()
                try:
                    for o_ in ops:
                        o_(tt)
                    tt.apply()
                except Exception:  # noqa  (malformed / misuse: not a case here)
                    ok_plain = False
                    tt.finalize()
            finally:
                T.os = real_os
            shutil.rmtree(d, ignore_errors=True)
            if not ok_plain:
                continue
            for k in range(1, probe.n + 1):
                tried += 1
                d, wt = new_tree("menu_%d" % tried, "2a")
                before = snapshot(d), versioned(wt)
                T.os = FaultyOS(k)
                raised = None
                try:
                    tt = wt.transform()
                    try:
                        for o_ in ops:
                            o_(tt)
                        try:
                            tt.apply()
                        except BaseException as e:  # noqa
                            raised = e
                    finally:
                        T.os = real_os
                        try:
                            tt.finalize()
                        except BaseException:  # noqa
                            pass
                finally:
                    T.os = real_os
                now = snapshot(d), versioned(wt)
                shutil.rmtree(d, ignore_errors=True)
                if raised is None:
                    continue
                if now != before:
                    verdict(True, "a rename fault before the commit point did not restore the tree exactly",
                            input=dict(format="2a", operations=names, failing_rename=k, of=probe.n),
                            observed=str((sorted(p_ for p_ in set(now[0]) ^ set(before[0])), [p_ for p_ in now[0] if p_ in before[0] and now[0][p_] != before[0][p_]], now[1])),
                            expected=str(before[1]))
    verdict(False, "no failing fault placement among %d" % tried)
finally:
    shutil.rmtree(base, ignore_errors=True)
