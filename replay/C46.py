"""Replay for C46 on real working trees (temporary directory outside /repo and /verif)."""
import os, shutil, sys, tempfile
from _common import request, verdict, is_known
import breezy.bzr  # noqa
from breezy import controldir, clean_tree as ct, ignores
from breezy.workingtree import WorkingTree

req = request()
ob = req.get("obligation", "")
base = tempfile.mkdtemp(prefix="c46_")
os.environ.setdefault("BRZ_HOME", base)


def mk(name):
    d = os.path.join(base, name)
    os.mkdir(d)
    fmt = controldir.format_registry.make_controldir("2a")
    cd = fmt.initialize(d)
    cd.create_repository(); cd.create_branch()
    wt = cd.create_workingtree()
    return d, wt


def put(d, rel, text=b"x"):
    p = os.path.join(d, rel)
    os.makedirs(os.path.dirname(p), exist_ok=True)
    open(p, "wb").write(text)


try:
    # scenario 1: nested branch below the first level of an unknown directory
    d, wt = mk("t1")
    put(d, "versioned.txt"); wt.add(["versioned.txt"]); wt.commit("c", committer="t <t@e.x>")
    os.makedirs(os.path.join(d, "unk", "deep"))
    nd = os.path.join(d, "unk", "deep", "nested")
    os.mkdir(nd)
    controldir.format_registry.make_controldir("2a").initialize(nd).create_repository()
    put(d, "unk/file.txt")
    ct.clean_tree(d, unknown=True, no_prompt=True)
    if not os.path.exists(os.path.join(nd, ".bzr")) and not is_known("control directory at depth >= 2 under a deletable directory"):
        verdict(True, "clean_tree(unknown=True) deleted an unknown directory containing a nested branch below its first level",
                input={"layout": "unk/deep/nested/.bzr, unk/file.txt"}, witness_class="control directory at depth >= 2 under a deletable directory")
    # scenario 2: branch directly at the listed path is preserved; dry run deletes nothing; categories respected
    d, wt = mk("t2")
    put(d, "versioned.txt"); wt.add(["versioned.txt"]); wt.commit("c", committer="t <t@e.x>")
    controldir.format_registry.make_controldir("2a").initialize(os.path.join(d, "sub") if os.mkdir(os.path.join(d, "sub")) is None else "")
    put(d, "unknown.txt"); put(d, "junk.tmp"); put(d, "ign.o"); put(d, ".bzrignore", b"*.o\n")
    wt.add([".bzrignore"])
    before = sorted(os.listdir(d))
    ct.clean_tree(d, unknown=True, ignored=True, detritus=True, dry_run=True, no_prompt=True)
    if sorted(os.listdir(d)) != before:
        verdict(True, "dry run deleted something", observed=sorted(os.listdir(d)), expected=before)
    ct.clean_tree(d, detritus=True, no_prompt=True)
    left = set(os.listdir(d))
    if "junk.tmp" in left or not {"unknown.txt", "ign.o", "versioned.txt", "sub", ".bzrignore"} <= left:
        verdict(True, "detritus-only run deleted the wrong set", observed=sorted(left))
    ct.clean_tree(d, unknown=True, no_prompt=True)
    left = set(os.listdir(d))
    if "unknown.txt" in left or not {"ign.o", "versioned.txt", "sub", ".bzrignore"} <= left:
        verdict(True, "unknown-only run deleted the wrong set (versioned, ignored or nested branch lost)", observed=sorted(left))
    ct.clean_tree(d, ignored=True, no_prompt=True)
    left = set(os.listdir(d))
    if "ign.o" in left or not {"versioned.txt", "sub", ".bzrignore"} <= left:
        verdict(True, "ignored-only run deleted the wrong set", observed=sorted(left))
    verdict(False, "no failing scenario")
finally:
    shutil.rmtree(base, ignore_errors=True)
