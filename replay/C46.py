"""Replay for C46 on real working trees (temporary directory outside /repo and /verif)."""
import os, shutil, sys, tempfile
from _common import request, verdict, is_known
import breezy.bzr  # noqa
from breezy import controldir, clean_tree as ct, ignores
from breezy.workingtree import WorkingTree

req = request()
ob = req.get("obligation", "")
base = tempfile.mkdtemp(prefix="c46_")
os.environ.setdefault("BRZ_HOME", base)


def mk(name):
    d = os.path.join(base, name)
    os.mkdir(d)
    fmt = controldir.format_registry.make_controldir("2a")
    cd = fmt.initialize(d)
    cd.create_repository(); cd.create_branch()
    wt = cd.create_workingtree()
    return d, wt


def put(d, rel, text=b"x"):
    p = os.path.join(d, rel)
    os.makedirs(os.path.dirname(p), exist_ok=True)
    open(p, "wb").write(text)


try:
    # scenario 1: nested branch below the first level of an unknown directory
    d, wt = mk("t1")
    put(d, "versioned.txt"); wt.add(["versioned.txt"]); wt.commit("c", committer="t <t@e.x>")
    os.makedirs(os.path.join(d, "unk", "deep"))
    nd = os.path.join(d, "unk", "deep", "nested")
    os.mkdir(nd)
    controldir.format_registry.make_controldir("2a").initialize(nd).create_repository()
    put(d, "unk/file.txt")
    ct.clean_tree(d, unknown=True, no_prompt=True)
    if not os.path.exists(os.path.join(nd, ".bzr")) and not is_known("control directory at depth >= 2 under a deletable directory"):
        verdict(True, "clean_tree(unknown=True) deleted an unknown directory containing a nested branch below its first level",
                input={"layout": "unk/deep/nested/.bzr, unk/file.txt"}, witness_class="control directory at depth >= 2 under a deletable directory")
    # scenario 2: branch directly at the listed path is preserved; dry run deletes nothing; categories respected
    d, wt = mk("t2")
    put(d, "versioned.txt"); wt.add(["versioned.txt"]); wt.commit("c", committer="t <t@e.x>")
    controldir.format_registry.make_controldir("2a").initialize(os.path.join(d, "sub") if os.mkdir(os.path.join(d, "sub")) is None else "")
    put(d, "unknown.txt"); put(d, "junk.tmp"); put(d, "ign.o"); put(d, ".bzrignore", b"*.o\n")
    wt.add([".bzrignore"])
    before = sorted(os.listdir(d))
    ct.clean_tree(d, unknown=True, ignored=True, detritus=True, dry_run=True, no_prompt=True)
    if sorted(os.listdir(d)) != before:
        verdict(True, "dry run deleted something", observed=sorted(os.listdir(d)), expected=before)
    ct.clean_tree(d, detritus=True, no_prompt=True)
    left = set(os.listdir(d))
    if "junk.tmp" in left or not {"unknown.txt", "ign.o", "versioned.txt", "sub", ".bzrignore"} <= left:
        verdict(True, "detritus-only run deleted the wrong set", observed=sorted(left))
    ct.clean_tree(d, unknown=True, no_prompt=True)
    left = set(os.listdir(d))
    if "unknown.txt" in left or not {"ign.o", "versioned.txt", "sub", ".bzrignore"} <= left:
        verdict(True, "unknown-only run deleted the wrong set (versioned, ignored or nested branch lost)", observed=sorted(left))
    ct.clean_tree(d, ignored=True, no_prompt=True)
    left = set(os.listdir(d))
    if "ign.o" in left or not {"versioned.txt", "sub", ".bzrignore"} <= left:
        verdict(True, "ignored-only run deleted the wrong set", observed=sorted(left))
    # every combination of the three categories (and dry run) on a layout with versioned, unknown, ignored and detritus files at the top
    # level and inside a versioned directory, an unknown directory, an ignored directory and a nested branch: exactly the unversioned
    # paths of the requested categories go, nothing versioned, no directory holding versioned files, not the nested branch
    import itertools as _it

    def listing(d_):
        out = set()
        for r_, dirs_, files_ in os.walk(d_):
            dirs_[:] = [x for x in dirs_ if x != ".bzr" or r_ != d_]
            for n_ in files_ + dirs_:
                rel = os.path.relpath(os.path.join(r_, n_), d_)
                if rel != ".bzr" and not rel.startswith(".bzr/"):
                    out.add(rel)
        return out

    n_enum = 0
    for unknown, ignored_, detritus, dry in _it.product((False, True), repeat=4):
        n_enum += 1
        d, wt = mk("e%d" % n_enum)
        for f_ in ("v.txt", "vd/v2.txt", "u.txt", "vd/u2.txt", "ud/x", "i.o", "vd/i2.o", "igd/y", "j.tmp", "vd/j2~", "c.THIS"):
            put(d, f_)
        put(d, ".bzrignore", b"*.o\nigd\n")
        wt.add(["v.txt", "vd", "vd/v2.txt", ".bzrignore"]); wt.commit("c", committer="t <t@e.x>")
        os.mkdir(os.path.join(d, "nb"))
        controldir.format_registry.make_controldir("2a").initialize(os.path.join(d, "nb")).create_repository()
        before = listing(d)
        ct.clean_tree(d, unknown=unknown, ignored=ignored_, detritus=detritus, dry_run=dry, no_prompt=True)
        after = listing(d)
        gone = set()
        if not dry:
            if unknown:
                gone |= {"u.txt", "vd/u2.txt", "ud", "ud/x", "j.tmp", "c.THIS"}   # detritus files that no ignore rule matches are unknown files too
            if ignored_:
                gone |= {"i.o", "vd/i2.o", "igd", "igd/y", "vd/j2~"}             # *~ is matched by the default user ignore rules
            if detritus:
                gone |= {"j.tmp", "vd/j2~", "c.THIS"}
        want = before - gone
        if after != want:
            verdict(True, "clean_tree deleted a different set than the requested categories",
                    input=dict(unknown=unknown, ignored=ignored_, detritus=detritus, dry_run=dry),
                    observed="wrongly deleted %s; wrongly kept %s" % (sorted(want - after), sorted(after - want)))
        for keep in ("v.txt", "vd/v2.txt", ".bzrignore", "nb", "vd"):
            if keep not in after and not (keep == "nb" and False):
                verdict(True, "clean_tree deleted a versioned path, a directory with versioned files or a nested branch",
                        input=dict(unknown=unknown, ignored=ignored_, detritus=detritus, dry_run=dry), observed=keep)
        shutil.rmtree(d, ignore_errors=True)
    verdict(False, "no failing scenario (%d category combinations)" % n_enum)
finally:
    shutil.rmtree(base, ignore_errors=True)
