"""Replay for C37: conditional ref updates on the real TransportRefsContainer over a MemoryTransport."""
import itertools
from _common import request, verdict
from dromedary.memory import MemoryTransport
from dulwich.objects import ZERO_SHA
from breezy.git.transportgit import TransportRefsContainer

req = request()
A, B, C = b"a" * 40, b"b" * 40, b"c" * 40


def fresh(loose=None, packed=None, symref=False):
    t = MemoryTransport()
    t.mkdir("refs"); t.mkdir("refs/heads")
    if packed:
        t.put_bytes("packed-refs", b"# pack-refs with: peeled\n" + b"".join(v + b" " + k + b"\n" for k, v in packed.items()))
    r = TransportRefsContainer(t)
    for k, v in (loose or {}).items():
        t.put_bytes(k.decode(), v + b"\n")
    if symref:
        t.put_bytes("HEAD", b"ref: refs/heads/x\n")
    return t, r


def snapshot(r):
    return dict((k, r[k]) for k in r.allkeys() if k != b"HEAD")


tried = 0
X = b"refs/heads/x"
for where in ("loose", "packed", "absent"):
    for name in (X, b"HEAD"):
        for old in (None, A, B, ZERO_SHA):
            tried += 1
            store = {X: A}
            t, r = fresh(loose=store if where == "loose" else None, packed=store if where == "packed" else None, symref=True)
            current = A if where != "absent" else ZERO_SHA
            before = snapshot(r)
            ok = r.set_if_equals(name, old, C)
            after = snapshot(r)
            inp = dict(op="set_if_equals", where=where, name=name.decode(), old=old and old.decode()[:4], current=current.decode()[:4])
            if old is not None and old != current:
                if ok or after != before:
                    verdict(True, "stale expectation was not refused", input=inp, observed=dict(result=ok, before=str(before), after=str(after)))
            else:
                if not ok or after.get(X) != C:
                    verdict(True, "matching expectation did not update the ref", input=inp, observed=dict(result=ok, after=str(after)))
            # remove (does not follow symrefs): only for the direct name
            if name == X:
                t, r = fresh(loose=store if where == "loose" else None, packed=store if where == "packed" else None)
                before = snapshot(r)
                ok = r.remove_if_equals(X, old)
                after = snapshot(r)
                inp["op"] = "remove_if_equals"
                if old is not None and old != current:
                    if ok or after != before:
                        verdict(True, "stale expectation was not refused", input=inp, observed=dict(result=ok, before=str(before), after=str(after)))
                elif not ok or X in after:
                    verdict(True, "matching expectation did not remove the ref", input=inp, observed=dict(result=ok, after=str(after)))
    # a ref that is packed with an older value and loose with the current one (pack-refs, then a commit)
    if where == "packed":
        for old in (A, B):
            tried += 1
            t, r = fresh(loose={X: B}, packed={X: A})
            ok = r.set_if_equals(X, old, C)
            inp = dict(op="set_if_equals", where="packed(old value)+loose(current value)", old=old.decode()[:4], current="bbbb")
            if old == A and (ok or r[X] != B):
                verdict(True, "stale expectation (the packed value) was not refused", input=inp, observed=dict(result=ok, value=str(r[X])))
            if old == B and (not ok or r[X] != C):
                verdict(True, "matching expectation did not update the ref", input=inp, observed=dict(result=ok, value=str(r[X])))
    # add_if_new never changes an existing ref
    t, r = fresh(loose={X: A} if where == "loose" else None, packed={X: A} if where == "packed" else None)
    ok = r.add_if_new(X, C)
    tried += 1
    if where != "absent" and (ok or r[X] != A):
        verdict(True, "add_if_new changed an existing ref", input=dict(where=where), observed=dict(result=ok, value=str(r[X])))
    if where == "absent" and (not ok or r[X] != C):
        verdict(True, "add_if_new did not add a new ref", input=dict(where=where), observed=dict(result=ok))
verdict(False, "no failing input among %d scenarios" % tried)
