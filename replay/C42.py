"""Replay for C42: export of real revision trees to a directory (whole tree and every sub-directory) compared with the tree itself."""
import os, shutil, stat, tempfile
from _common import request, verdict
import breezy.bzr  # noqa
from breezy import controldir, export

req = request()
base = tempfile.mkdtemp(prefix="c42_")
try:
    d = os.path.join(base, "t"); os.mkdir(d)
    fmt = controldir.format_registry.make_controldir("2a")
    cd = fmt.initialize(d); cd.create_repository(); cd.create_branch(); wt = cd.create_workingtree()
    layout = {"a": b"A\n", "x/b": b"B\n", "x/y/c": b"C\n", "x/yy": b"YY\n", "xx/d": b"D\n", "empty/": None, ".bzrignore": b"*.o\n", "x/.bzrignore": b"q\n"}
    for p, c in layout.items():
        full = os.path.join(d, p)
        if p.endswith("/"):
            os.makedirs(full); continue
        os.makedirs(os.path.dirname(full), exist_ok=True)
        open(full, "wb").write(c)
    os.chmod(os.path.join(d, "x/b"), 0o755)
    os.symlink("b", os.path.join(d, "x/link"))
    wt.smart_add([d])
    wt.commit("one", committer="t <t@e.x>")
    tree = wt.basis_tree()

    def snapshot(root):
        out = {}
        for r, dirs, files in os.walk(root):
            for n in dirs:
                p = os.path.join(r, n)
                out[os.path.relpath(p, root)] = ("link", os.readlink(p)) if os.path.islink(p) else ("dir",)
            for n in files:
                p = os.path.join(r, n)
                if os.path.islink(p):
                    out[os.path.relpath(p, root)] = ("link", os.readlink(p))
                else:
                    out[os.path.relpath(p, root)] = ("file", open(p, "rb").read(), bool(os.stat(p).st_mode & stat.S_IXUSR))
        return out

    def expected(sub):
        exp = {}
        with tree.lock_read():
            for path, ie in tree.iter_entries_by_dir():
                if path == "" or tree.is_special_path(path):
                    continue
                if sub:
                    if path == sub:
                        if ie.kind == "directory":
                            continue
                        rel = ie.name
                    elif path.startswith(sub + "/"):
                        rel = path[len(sub) + 1:]
                    else:
                        continue
                else:
                    rel = path
                if ie.kind == "file":
                    exp[rel] = ("file", tree.get_file_text(path), tree.is_executable(path))
                elif ie.kind == "symlink":
                    exp[rel] = ("link", tree.get_symlink_target(path))
                else:
                    exp[rel] = ("dir",)
        return exp

    tried = 0
    for sub in (None, "", "x", "x/", "x/y", "xx", "a", "x/b", "empty"):
        tried += 1
        dest = os.path.join(base, "out%d" % tried)
        with tree.lock_read():
            export.export(tree, dest, format="dir", subdir=sub)
        got, exp = snapshot(dest), expected((sub or "").rstrip("/"))
        if got != exp:
            diff = sorted(set(got.items()) ^ set(exp.items()), key=str)[:6]
            verdict(True, "the exported directory is not exactly the requested (sub-)tree", input=repr(sub), observed=str(diff))
    # a non-empty destination is refused
    dest = os.path.join(base, "busy"); os.mkdir(dest); open(os.path.join(dest, "keep"), "w").write("k")
    try:
        with tree.lock_read():
            export.export(tree, dest, format="dir")
        verdict(True, "export into a non-empty directory was not refused")
    except Exception:  # noqa
        pass
    if sorted(os.listdir(dest)) != ["keep"]:
        verdict(True, "a refused export changed the destination", observed=str(os.listdir(dest)))
    import tarfile as _tf
    if (_tf.REGTYPE, _tf.DIRTYPE, _tf.SYMTYPE) != (b"0", b"5", b"2"):
        verdict(True, "tarfile type constants differ from the ones assumed by the specification", observed=repr((_tf.REGTYPE, _tf.DIRTYPE, _tf.SYMTYPE)))
    verdict(False, "no failing export among %d" % tried)
finally:
    shutil.rmtree(base, ignore_errors=True)
