"""Replay for C22 on real branches: get_rev_id / revision_id_to_revno over linear and merged histories, with cold and warm caches."""
import os, shutil, tempfile
from _common import request, verdict
import breezy.bzr  # noqa
from breezy import controldir, errors
from breezy.branch import Branch

req = request()
base = tempfile.mkdtemp(prefix="c22_")
fmt = controldir.format_registry.make_controldir("2a")
try:
    d = os.path.join(base, "t"); os.mkdir(d)
    cd = fmt.initialize(d); cd.create_repository(); cd.create_branch(); wt = cd.create_workingtree()
    revs = []
    for i in range(6):
        open(os.path.join(d, "f"), "a").write("%d\n" % i)
        if i == 0:
            wt.add(["f"])
        revs.append(wt.commit("r%d" % i, committer="t <t@e.x>"))
    side = wt.controldir.sprout(os.path.join(base, "s"), revision_id=revs[2]).open_workingtree()
    open(os.path.join(base, "s", "g"), "w").write("g\n"); side.add(["g"]); s1 = side.commit("side", committer="t <t@e.x>")
    wt.merge_from_branch(side.branch); revs.append(wt.commit("merge", committer="t <t@e.x>"))
    n = len(revs)
    tried = 0
    import itertools
    for order in itertools.permutations(range(0, n + 1), 3):       # query orders: caches warm up differently
        b = Branch.open(d)
        with b.lock_read():
            for k in order:
                tried += 1
                exp = b"null:" if k == 0 else revs[k - 1]
                got = b.get_rev_id(k)
                if got != exp:
                    verdict(True, "get_rev_id(%d) is not the revision at that distance from the tip" % k, input=str(order), observed=str(got), expected=str(exp))
                back = b.revision_id_to_revno(got)
                if back != k:
                    verdict(True, "revision_id_to_revno(get_rev_id(%d)) == %r" % (k, back), input=str(order))
            for bad in (-1, n + 1, n + 5):
                try:
                    b.get_rev_id(bad)
                    verdict(True, "get_rev_id(%d) outside 0..%d was answered" % (bad, n))
                except errors.RevnoOutOfBounds:
                    pass
            try:
                b.revision_id_to_revno(s1)      # merged, not on the left-hand ancestry
                verdict(True, "a merged (non-mainline) revision was given a mainline revision number")
            except errors.NoSuchRevision:
                pass
    # the tip is replaced by a diverged history of the same length inside one lock: the answers must follow the new tip
    alt = wt.controldir.sprout(os.path.join(base, "alt"), revision_id=revs[n - 2]).open_workingtree()
    open(os.path.join(base, "alt", "h"), "w").write("h\n"); alt.add(["h"]); alt_tip = alt.commit("alt tip", committer="t <t@e.x>")
    b = Branch.open(d)
    with b.lock_write():
        for k in range(0, n + 1):
            b.get_rev_id(k)                       # warm every cache with the old history
        b.fetch(alt.branch, alt_tip)
        b.set_last_revision_info(n, alt_tip)      # same number, different revision
        tried += 1
        if b.get_rev_id(n) != alt_tip:
            verdict(True, "after the tip was replaced at the same revision number, get_rev_id still answers from the old history",
                    observed=str(b.get_rev_id(n)), expected=str(alt_tip))
        if b.revision_id_to_revno(alt_tip) != n:
            verdict(True, "after the tip was replaced, the new tip has no / a wrong revision number", observed=str(b.revision_id_to_revno(alt_tip)))
        try:
            old_no = b.revision_id_to_revno(revs[n - 1])
            verdict(True, "the replaced tip still has a mainline revision number", observed=str(old_no))
        except errors.NoSuchRevision:
            pass
        b.set_last_revision_info(n, revs[n - 1])
    verdict(False, "no failing query among %d" % tried)
finally:
    shutil.rmtree(base, ignore_errors=True)
