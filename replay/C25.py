"""Replay for C25: _rebase_merge_depth on generated view-revision lists."""
import itertools
from _common import request, verdict
from breezy import log

req = request()
tried = 0
for k in range(0, 5):
    for depths in itertools.product(range(0, 4), repeat=k):
        tried += 1
        vr = [(b"r%d" % i, str(i), d) for i, d in enumerate(depths)]
        got = log._rebase_merge_depth(list(vr))
        if [(r, n) for r, n, d in got] != [(r, n) for r, n, d in vr]:
            verdict(True, "_rebase_merge_depth changed the revisions or their order", input=str(depths))
        if vr and vr[0][2] and vr[-1][2]:
            m = min(depths)
            exp = [d - m for d in depths]
        else:
            exp = list(depths)
        if [d for r, n, d in got] != exp:
            verdict(True, "_rebase_merge_depth did not shift the depths by the minimum (only when both ends are merged revisions)", input=str(depths),
                    observed=str([d for r, n, d in got]), expected=str(exp))
verdict(False, "no failing input among %d" % tried)
