"""Replay for C23 on real branches: bound commits go to the master first and end with equal tips; a moved or diverged master
refuses the commit with neither branch changed; a failing master update leaves the local branch; --local touches only the local branch."""
import os, shutil, tempfile
from _common import request, verdict
import breezy.bzr  # noqa
from breezy import controldir, errors

req = request()
base = tempfile.mkdtemp(prefix="c23_")
fmt = controldir.format_registry.make_controldir("2a")


def new_tree(name):
    d = os.path.join(base, name); os.mkdir(d)
    cd = fmt.initialize(d); cd.create_repository(); cd.create_branch()
    return d, cd.create_workingtree()


def edit(d, text):
    open(os.path.join(d, "f"), "a").write(text + "\n")


try:
    md, master = new_tree("master")
    edit(md, "1"); master.add(["f"]); m1 = master.commit("m1", committer="t <t@e.x>")
    cod = os.path.join(base, "co")
    co = master.branch.create_checkout(cod)
    # 1. bound commit: master first, equal tips
    order = []
    real_import = type(master.branch).import_last_revision_info_and_tags
    real_set = type(co.branch).set_last_revision_info
    edit(cod, "2")
    mb = co.branch.get_master_branch()
    import breezy.bzr.branch as BB
    orig_import, orig_set = BB.BzrBranch.import_last_revision_info_and_tags, BB.BzrBranch.set_last_revision_info

    def rec_import(self, *a, **k):
        order.append(("import", self.base)); return orig_import(self, *a, **k)

    def rec_set(self, *a, **k):
        order.append(("set", self.base)); return orig_set(self, *a, **k)
    BB.BzrBranch.import_last_revision_info_and_tags = rec_import
    BB.BzrBranch.set_last_revision_info = rec_set
    try:
        r2 = co.commit("c2", committer="t <t@e.x>")
    finally:
        BB.BzrBranch.import_last_revision_info_and_tags, BB.BzrBranch.set_last_revision_info = orig_import, orig_set
    mtip, ltip = master.branch.last_revision_info(), co.branch.last_revision_info()
    if mtip != ltip or mtip != (2, r2):
        verdict(True, "bound commit did not leave master and local with the same tip", observed=str((mtip, ltip)))
    imp = [i for i, (k, b) in enumerate(order) if k == "import"]
    loc = [i for i, (k, b) in enumerate(order) if k == "set" and b == co.branch.base]
    if not imp or not loc or min(loc) < min(imp):
        verdict(True, "the local branch was updated before the master", observed=str(order))
    # 2. master moved: refused, neither changes
    master.update()
    open(os.path.join(md, "g"), "w").write("g\n"); master.add(["g"]); m3 = master.commit("m3", committer="t <t@e.x>")
    edit(cod, "c")
    snap = master.branch.last_revision_info(), co.branch.last_revision_info()
    try:
        co.commit("c3", committer="t <t@e.x>")
        verdict(True, "commit in a checkout whose master moved was not refused", observed=str(co.branch.last_revision_info()))
    except errors.BoundBranchOutOfDate:
        pass
    if (master.branch.last_revision_info(), co.branch.last_revision_info()) != snap:
        verdict(True, "a refused bound commit changed a tip")
    # 3. --local commit touches only the local branch; afterwards the master is diverged -> a bound commit is refused
    l3 = co.commit("local", committer="t <t@e.x>", local=True)
    if master.branch.last_revision_info() != snap[0] or co.branch.last_revision_info()[1] != l3:
        verdict(True, "a local commit did not change exactly the local branch", observed=str((master.branch.last_revision_info(), co.branch.last_revision_info())))
    edit(cod, "again")
    snap = master.branch.last_revision_info(), co.branch.last_revision_info()
    try:
        co.commit("c4", committer="t <t@e.x>")
        verdict(True, "commit in a checkout diverged from its master was not refused")
    except errors.BoundBranchOutOfDate:
        pass
    if (master.branch.last_revision_info(), co.branch.last_revision_info()) != snap:
        verdict(True, "a refused bound commit (diverged) changed a tip")
    # 4. failing master update leaves the local tip
    md2, master2 = new_tree("master2")
    edit(md2, "1"); master2.add(["f"]); master2.commit("m1", committer="t <t@e.x>")
    cod2 = os.path.join(base, "co2"); co2 = master2.branch.create_checkout(cod2)
    edit(cod2, "x")
    snap = master2.branch.last_revision_info(), co2.branch.last_revision_info()

    def boom(self, *a, **k):
        raise errors.TransportError("injected failure updating the master")
    BB.BzrBranch.import_last_revision_info_and_tags = boom
    try:
        co2.commit("c", committer="t <t@e.x>")
        verdict(True, "commit succeeded although the master update failed")
    except errors.TransportError:
        pass
    finally:
        BB.BzrBranch.import_last_revision_info_and_tags = orig_import
    if (master2.branch.last_revision_info(), co2.branch.last_revision_info()) != snap:
        verdict(True, "a failed master update moved a tip", observed=str((master2.branch.last_revision_info(), co2.branch.last_revision_info())))
    # 5. the master is locked BEFORE it is compared: a commit by somebody else that lands while we wait for the master's lock is noticed
    md3, master3 = new_tree("master3")
    edit(md3, "1"); master3.add(["f"]); master3.commit("m1", committer="t <t@e.x>")
    coa = master3.branch.create_checkout(os.path.join(base, "coa"))
    other = master3.branch.create_checkout(os.path.join(base, "cob"))
    edit(os.path.join(base, "coa"), "ours")
    open(os.path.join(base, "cob", "g"), "w").write("theirs\n"); other.add(["g"])
    orig_lock = BB.BzrBranch.lock_write
    fired = []

    def lock_after_the_other_commit(self, *a, **k):
        if not fired and self.base == master3.branch.base:
            fired.append(1)
            BB.BzrBranch.lock_write = orig_lock
            try:
                fired.append(other.commit("theirs", committer="o <o@e.x>"))
            finally:
                BB.BzrBranch.lock_write = lock_after_the_other_commit
        return orig_lock(self, *a, **k)
    BB.BzrBranch.lock_write = lock_after_the_other_commit
    refused = False
    try:
        try:
            coa.commit("ours", committer="t <t@e.x>")
        except errors.BoundBranchOutOfDate:
            refused = True
        except errors.OutOfDateTree:
            refused = True
    finally:
        BB.BzrBranch.lock_write = orig_lock
    if len(fired) == 2 and not refused:
        mb3 = master3.branch
        with mb3.lock_read():
            hist = list(mb3.repository.get_graph().iter_lefthand_ancestry(mb3.last_revision()))
        if fired[1] not in hist:
            verdict(True, "a commit that landed in the master while our bound commit waited for the master lock was not noticed: "
                          "our commit was accepted and the other revision dropped out of the master's history",
                    input="other checkout commits when our commit first asks for the master's write lock")
    verdict(False, "no failing scenario")
finally:
    shutil.rmtree(base, ignore_errors=True)
