"""Replay for C12 on real trees: revert keeps user-edited content (in place or in a numbered backup) unless --no-backup; remove never
deletes changed or unknown files without force. Scenario 3 is the case of finding F10 (fixed in /repo by 0b82fb8; it is reported again if it returns)."""
import os, shutil, tempfile
from _common import request, verdict, is_known
import breezy.bzr  # noqa
import breezy.git  # noqa
from breezy import controldir

req = request()
base = tempfile.mkdtemp(prefix="c12_")


def new_tree(name, fmt):
    d = os.path.join(base, name); os.mkdir(d)
    cd = controldir.format_registry.make_controldir(fmt).initialize(d)
    if fmt != "git":
        cd.create_repository()
    cd.create_branch()
    return d, cd.create_workingtree()


def all_content(d):
    out = {}
    for r, dirs, files in os.walk(d):
        dirs[:] = [x for x in dirs if x not in (".bzr", ".git")]
        for f in files:
            out[os.path.relpath(os.path.join(r, f), d)] = open(os.path.join(r, f), "rb").read()
    return out


tried = 0
try:
    for fmt in ("2a", "git"):
        # 1. revert of an edited file keeps the edit in a backup
        d, wt = new_tree("edit_" + fmt, fmt)
        open(os.path.join(d, "foo"), "w").write("committed\n"); wt.add(["foo"]); r1 = wt.commit("1", committer="t <t@e.x>")
        open(os.path.join(d, "foo"), "w").write("USER EDIT\n")
        wt.revert(["foo"], backups=True)
        tried += 1
        if b"USER EDIT\n" not in all_content(d).values():
            verdict(True, "revert discarded an edited file without keeping a backup", input=fmt, observed=str(sorted(all_content(d))))
        # 2. --no-backup is an explicit request to discard
        open(os.path.join(d, "foo"), "w").write("USER EDIT 2\n")
        wt.revert(["foo"], backups=False)
        # 3. a newly added file, revert to an OLD tree that has a file at that path (was finding F10)
        d, wt = new_tree("new_" + fmt, fmt)
        open(os.path.join(d, "foo"), "w").write("old foo\n"); wt.add(["foo"]); r1 = wt.commit("1", committer="t <t@e.x>")
        wt.remove(["foo"], keep_files=False); r2 = wt.commit("2: foo removed", committer="t <t@e.x>")
        open(os.path.join(d, "foo"), "w").write("BRAND NEW USER TEXT\n"); wt.add(["foo"])
        old_tree = wt.branch.repository.revision_tree(r1)
        wt.revert(["foo"], old_tree=old_tree, backups=True)
        tried += 1
        if b"BRAND NEW USER TEXT\n" not in all_content(d).values():
            wc = "newly added file (absent from the basis) replaced by revert to an older tree that has a file at that path"
            if True:
                verdict(True, "revert -r OLD replaced a newly added file's content without keeping a backup although backups were on",
                        input=fmt, observed=str(sorted(all_content(d))), witness_class=wc)
        # 4. remove: changed and unknown files are never deleted without force
        d, wt = new_tree("rm_" + fmt, fmt)
        for n in ("clean", "changed"):
            open(os.path.join(d, n), "w").write(n + "\n")
        wt.add(["clean", "changed"]); wt.commit("1", committer="t <t@e.x>")
        open(os.path.join(d, "changed"), "w").write("USER CHANGE\n")
        open(os.path.join(d, "unknown"), "w").write("UNKNOWN\n")
        try:
            wt.remove(["clean", "changed", "unknown"], keep_files=False, force=False)
        except Exception:  # noqa  (refusing is fine)
            pass
        tried += 1
        vals = all_content(d).values()
        if b"USER CHANGE\n" not in vals or b"UNKNOWN\n" not in vals:
            verdict(True, "remove without force deleted a changed or an unknown file", input=fmt, observed=str(sorted(all_content(d))))
    # 5. "written by a previous merge" must mean the merge wrote the text: a merge-like update that only RENAMES (or moves) a file
    #    carrying uncommitted edits must not make a later revert treat the edits as disposable (bzr trees record merge hashes)
    for how in ("rename", "move"):
        ud = os.path.join(base, "up_" + how); os.mkdir(ud)
        cd = controldir.format_registry.make_controldir("2a").initialize(ud); cd.create_repository(); cd.create_branch()
        up = cd.create_workingtree()
        os.mkdir(os.path.join(ud, "sub"))
        open(os.path.join(ud, "f"), "w").write("one\ntwo\nthree\n"); up.add(["sub", "f"]); up.commit("1", committer="t <t@e.x>")
        ld = os.path.join(base, "local_" + how)
        local = up.controldir.sprout(ld).open_workingtree()
        new = "g" if how == "rename" else "sub/f"
        up.rename_one("f", new); up.commit("2: only a rename", committer="t <t@e.x>")
        open(os.path.join(ld, "f"), "w").write("one\nUSER EDIT NEVER COMMITTED\nthree\n")
        local.pull(up.branch)
        local = local.controldir.open_workingtree()
        claimed = dict(local.merge_modified())
        local.revert(backups=True)
        tried += 1
        if b"one\nUSER EDIT NEVER COMMITTED\nthree\n" not in all_content(ld).values():
            verdict(True, "revert destroyed uncommitted edits without a backup: the preceding update only renamed the file but recorded its text "
                          "as written by the merge", input=dict(update="pull of a %s f -> %s onto a tree with edits in f" % (how, new)),
                    observed="merge hashes after the update: %s; files after revert: %s" % (sorted(claimed), sorted(all_content(ld))))
    # 6. merge-like operations onto a tree with uncommitted edits: whatever the other side did to the file (nothing, edited it elsewhere,
    #    edited the same line, renamed it, deleted it), the user's uncommitted text is still somewhere in the tree afterwards
    from breezy import switch as _switch
    USER = b"line1\nUSER EDIT NEVER COMMITTED\nline3\n"
    for other_does in ("nothing to f", "edits another line", "edits the same line", "renames f", "deletes f", "replaces f by a directory"):
        for op in ("merge", "pull", "update", "switch"):
            tried += 1
            nm = "ml_%d" % tried
            ud = os.path.join(base, nm + "_up"); os.mkdir(ud)
            cdu = controldir.format_registry.make_controldir("2a").initialize(ud); cdu.create_repository(); cdu.create_branch()
            up = cdu.create_workingtree()
            open(os.path.join(ud, "f"), "w").write("line1\nline2\nline3\n"); open(os.path.join(ud, "g"), "w").write("g\n")
            up.add(["f", "g"]); up.commit("1", committer="t <t@e.x>")
            ld = os.path.join(base, nm + "_local")
            if op in ("update", "switch"):
                local = up.branch.create_checkout(ld, lightweight=(op == "switch"))
            else:
                local = up.controldir.sprout(ld).open_workingtree()
            target_branch = up.branch
            if op == "switch":
                od = os.path.join(base, nm + "_other")
                target_wt = up.controldir.sprout(od).open_workingtree()
                work, wd, target_branch = target_wt, od, target_wt.branch
            else:
                work, wd = up, ud
            if other_does == "edits another line":
                open(os.path.join(wd, "f"), "w").write("line1\nline2\nline3\nOTHER\n")
            elif other_does == "edits the same line":
                open(os.path.join(wd, "f"), "w").write("line1\nOTHER\nline3\n")
            elif other_does == "renames f":
                work.rename_one("f", "f2")
            elif other_does == "deletes f":
                work.remove(["f"], keep_files=False)
            elif other_does == "replaces f by a directory":
                work.remove(["f"], keep_files=False); os.mkdir(os.path.join(wd, "f")); work.add(["f"])
            else:
                open(os.path.join(wd, "g"), "w").write("g2\n")
            work.commit("2", committer="t <t@e.x>")
            open(os.path.join(ld, "f"), "wb").write(USER)
            try:
                if op == "merge":
                    local.merge_from_branch(up.branch, force=True) if False else local.merge_from_branch(up.branch)
                elif op == "pull":
                    local.pull(up.branch)
                elif op == "update":
                    local.update()
                else:
                    _switch.switch(local.controldir, target_branch, force=False)
            except Exception as e:  # noqa  (refusing is fine: then nothing may be lost either)
                pass
            found = any(b"USER EDIT NEVER COMMITTED" in v for v in all_content(ld).values())
            if not found:
                verdict(True, "uncommitted edits were lost by a merge-like operation", input=dict(operation=op, other_side=other_does),
                        observed=str(sorted(all_content(ld))))
    verdict(False, "no failing scenario among %d" % tried)
finally:
    shutil.rmtree(base, ignore_errors=True)
