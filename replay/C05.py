"""Replay for C05: _diff_pack_names on a stub collection, all small (disk, at-load, memory) triples;
_clear_obsolete_packs on a MemoryTransport."""
import itertools
from _common import request, verdict
from breezy.bzr.pack_repo import RepositoryPackCollection as RPC
from dromedary.memory import MemoryTransport

req = request()
names = ["a", "b", "c"]


class Stub:
    def __init__(self, disk, load, mem):
        self._disk, self._packs_at_load = disk, set(load)
        self._names = dict((n, (1, 2)) for n in mem)

    def _iter_disk_pack_index(self):
        for n in sorted(self._disk):
            yield None, (n.encode("ascii"),), b"1 2"


tried = 0
subsets = [set(c) for k in range(4) for c in itertools.combinations(names, k)]
val = b"1 2"
for D in subsets:
    for L in subsets:
        for C in subsets:
            tried += 1
            s = Stub(D, {(n, val) for n in L}, C)
            disk, deleted, new, orig = RPC._diff_pack_names(s)
            nodes = lambda S: {(n, val) for n in S}   # noqa
            exp = (nodes(D) - (nodes(L) - nodes(C))) | (nodes(C) - nodes(L))
            if disk != exp or deleted != nodes(L) - nodes(C) or new != nodes(C) - nodes(L) or orig != nodes(D):
                verdict(True, "_diff_pack_names is not the three-way merge", input=dict(disk=sorted(D), at_load=sorted(L), memory=sorted(C)),
                        observed=str((sorted(disk), sorted(deleted), sorted(new), sorted(orig))), expected=str(sorted(exp)))


class Coll:
    def __init__(self, t):
        self.transport = t


for preserve in (None, set(), {"p1"}, {"p1", "p2"}):
    tried += 1
    t = MemoryTransport(); t.mkdir("obsolete_packs")
    for f in ("p1.pack", "p1.rix", "p2.pack", "p2.iix", "x.tmp"):
        t.put_bytes("obsolete_packs/" + f, b"")
    found = RPC._clear_obsolete_packs(Coll(t), preserve)
    left = set(t.list_dir("obsolete_packs"))
    for f in ("p1.pack", "p1.rix", "p2.pack", "p2.iix"):
        if preserve and f.split(".")[0] in preserve and f not in left:
            verdict(True, "_clear_obsolete_packs deleted a preserved pack file", input=dict(preserve=sorted(preserve)), observed=sorted(left))
    if sorted(found) != ["p1", "p2"]:
        verdict(True, "_clear_obsolete_packs reported the wrong packs", observed=sorted(found))
verdict(False, "no failing input among %d" % tried)
