"""Replay for C05: _diff_pack_names on a stub collection, all small (disk, at-load, memory) triples;
_clear_obsolete_packs on a MemoryTransport."""
import itertools
from _common import request, verdict
from breezy.bzr.pack_repo import RepositoryPackCollection as RPC
from dromedary.memory import MemoryTransport

req = request()
names = ["a", "b", "c"]


class Stub:
    def __init__(self, disk, load, mem):
        self._disk, self._packs_at_load = disk, set(load)
        self._names = dict((n, (1, 2)) for n in mem)

    def _iter_disk_pack_index(self):
        for n in sorted(self._disk):
            yield None, (n.encode("ascii"),), b"1 2"


tried = 0
subsets = [set(c) for k in range(4) for c in itertools.combinations(names, k)]
val = b"1 2"
for D in subsets:
    for L in subsets:
        for C in subsets:
            tried += 1
            s = Stub(D, {(n, val) for n in L}, C)
            disk, deleted, new, orig = RPC._diff_pack_names(s)
            nodes = lambda S: {(n, val) for n in S}   # noqa
            exp = (nodes(D) - (nodes(L) - nodes(C))) | (nodes(C) - nodes(L))
            if disk != exp or deleted != nodes(L) - nodes(C) or new != nodes(C) - nodes(L) or orig != nodes(D):
                verdict(True, "_diff_pack_names is not the three-way merge", input=dict(disk=sorted(D), at_load=sorted(L), memory=sorted(C)),
                        observed=str((sorted(disk), sorted(deleted), sorted(new), sorted(orig))), expected=str(sorted(exp)))


class Coll:
    def __init__(self, t):
        self.transport = t


for preserve in (None, set(), {"p1"}, {"p1", "p2"}):
    tried += 1
    t = MemoryTransport(); t.mkdir("obsolete_packs")
    for f in ("p1.pack", "p1.rix", "p2.pack", "p2.iix", "x.tmp"):
        t.put_bytes("obsolete_packs/" + f, b"")
    found = RPC._clear_obsolete_packs(Coll(t), preserve)
    left = set(t.list_dir("obsolete_packs"))
    for f in ("p1.pack", "p1.rix", "p2.pack", "p2.iix"):
        if preserve and f.split(".")[0] in preserve and f not in left:
            verdict(True, "_clear_obsolete_packs deleted a preserved pack file", input=dict(preserve=sorted(preserve)), observed=sorted(left))
    if sorted(found) != ["p1", "p2"]:
        verdict(True, "_clear_obsolete_packs reported the wrong packs", observed=sorted(found))

# the rely point of the contract: another writer rewrites pack-names right before we obtain the names lock
import os, shutil, tempfile
import breezy.bzr  # noqa
from breezy import controldir
from breezy.repository import Repository
base = tempfile.mkdtemp(prefix="c05_")
try:
    fmt = controldir.format_registry.make_controldir("2a")
    rd = os.path.join(base, "repo"); os.mkdir(rd)
    fmt.initialize(rd).create_repository(shared=True)
    wts = {}
    for n in ("a", "b"):
        br = controldir.ControlDir.create_branch_convenience(os.path.join(rd, n), force_new_tree=True, format=fmt)
        wt = br.controldir.open_workingtree()
        open(os.path.join(rd, n, "f"), "w").write(n + "\n"); wt.add(["f"])
        wts[n] = wt
    r0 = wts["a"].commit("base", committer="t <t@e.x>")
    coll = wts["a"].branch.repository._pack_collection
    real_lock, done = coll.lock_names, {}

    def lock_after_other_writer():
        if "b" not in done:
            done["b"] = wts["b"].commit("other writer", committer="t <t@e.x>")
        return real_lock()
    coll.lock_names = lock_after_other_writer
    open(os.path.join(rd, "a", "f"), "a").write("more\n")
    ra = wts["a"].commit("ours", committer="t <t@e.x>")
    coll.lock_names = real_lock
    tried += 1
    fresh = Repository.open(rd)
    with fresh.lock_read():
        listed = set(fresh.all_revision_ids())
        missing = [r for r in (r0, ra, done.get("b")) if r not in listed]
        if missing:
            verdict(True, "a revision committed by a concurrent writer right before we took the names lock is no longer listed: "
                          "the list written was not the merge with what is on disk under the lock",
                    input="A: _save_pack_names; B: complete commit just before A's lock_names() returns",
                    observed="missing %r, pack-names %r" % (missing, fresh._pack_collection.names()))
    # a reload in between: P1 re-reads pack-names (taking its lock), then P2 packs everything just before P1 saves. The list P1
    # writes must be the merge against what P1 last READ, so the packs P2 retired are not written back
    rd2 = os.path.join(base, "repo2"); os.mkdir(rd2)
    fmt.initialize(rd2).create_repository(shared=True)
    trees = {}
    for n in ("a", "b"):
        br = controldir.ControlDir.create_branch_convenience(os.path.join(rd2, n), force_new_tree=True, format=fmt)
        trees[n] = br.controldir.open_workingtree()
        open(os.path.join(rd2, n, "f" + n), "w").write(n + " one\n"); trees[n].add(["f" + n])
    ra1 = trees["a"].commit("a1", committer="t <t@e.x>")
    rb1 = trees["b"].commit("b1", committer="t <t@e.x>")
    packs_a = trees["a"].branch.repository._pack_collection
    orig_save, st_ = packs_a._save_pack_names, {"packed": False}

    def save_after_concurrent_pack(*a_, **kw_):
        if not st_["packed"]:
            st_["packed"] = True
            other = Repository.open(rd2)
            with other.lock_write():
                other.pack()
        return orig_save(*a_, **kw_)
    packs_a._save_pack_names = save_after_concurrent_pack
    try:
        open(os.path.join(rd2, "a", "fa"), "w").write("a two\n")
        ra2 = trees["a"].commit("a2", committer="t <t@e.x>")
    finally:
        del packs_a._save_pack_names
    tried += 1
    reader = Repository.open(rd2)
    with reader.lock_read():
        listed = sorted(reader._pack_collection.names())
    on_disk = sorted(os.path.splitext(n_)[0] for n_ in os.listdir(os.path.join(rd2, ".bzr", "repository", "packs")))
    ghosts = [n_ for n_ in listed if n_ not in on_disk]
    problem = None
    if ghosts:
        problem = "pack-names lists pack(s) %r that another process had already retired (their files are in obsolete_packs)" % ghosts
    else:
        try:
            with reader.lock_read():
                for r_ in (ra1, rb1, ra2):
                    reader.get_revision(r_)
        except Exception as e:  # noqa
            problem = "a revision is no longer readable: %s" % e
    if problem:
        verdict(True, "after a reload the next save did not merge against what was last read: " + problem,
                input="P1 commits a1; P2 commits b1; P1 starts a2 (reloads pack-names); P2 packs; P1 saves pack-names",
                observed="listed %r, in packs/ %r" % (listed, on_disk))
finally:
    shutil.rmtree(base, ignore_errors=True)
verdict(False, "no failing input among %d" % tried)
