"""Replay for C06 on a real 2a repository: write-group typestate; aborted and suspended groups publish nothing; resumed+committed
groups publish everything."""
import os, shutil, tempfile
from _common import request, verdict
import breezy.bzr  # noqa
from breezy import controldir, errors
from breezy.repository import Repository

req = request()
base = tempfile.mkdtemp(prefix="c06_")
fmt = controldir.format_registry.make_controldir("2a")
try:
    d = os.path.join(base, "t"); os.mkdir(d)
    cd = fmt.initialize(d); cd.create_repository(); cd.create_branch(); wt = cd.create_workingtree()
    open(os.path.join(d, "f"), "w").write("1\n"); wt.add(["f"]); r1 = wt.commit("one", committer="t <t@e.x>")
    repo = wt.branch.repository

    def visible():
        fresh = Repository.open(d)
        with fresh.lock_read():
            return sorted(fresh.all_revision_ids()), sorted(fresh._pack_collection.names())

    def write_something(repo, key):
        repo.texts.add_lines((b"file-x", key), (), [b"content of " + key + b"\n"])

    before = visible()
    # typestate
    with repo.lock_write():
        try:
            repo.commit_write_group()
            verdict(True, "commit_write_group outside a write group was accepted")
        except errors.BzrError:
            pass
        repo.start_write_group()
        try:
            repo.start_write_group()
            verdict(True, "a second start_write_group inside a write group was accepted")
        except errors.BzrError:
            pass
        write_something(repo, b"k1")
        repo.abort_write_group()
        if repo.is_in_write_group():
            verdict(True, "abort_write_group left the repository inside the write group")
    if visible() != before:
        verdict(True, "an aborted write group changed the visible revisions or pack list", observed=str(visible()), expected=str(before))
    # a failing abort still leaves the write group
    with repo.lock_write():
        repo.start_write_group()
        orig = repo._abort_write_group
        repo._abort_write_group = lambda: (_ for _ in ()).throw(RuntimeError("injected"))
        try:
            repo.abort_write_group()
        except RuntimeError:
            pass
        finally:
            repo._abort_write_group = orig
        if repo.is_in_write_group():
            verdict(True, "a failing abort left the repository stuck inside the write group")
        repo._pack_collection._abort_write_group()
    # the pack's own abort fails (error suppressed by the caller): what was written in the group must still stop being visible
    with repo.lock_write():
        keys_before = set(repo.texts.keys())
        repo.start_write_group()
        write_something(repo, b"k-failing-abort")
        pack = repo._pack_collection._new_pack
        real_abort = pack.abort

        def abort_then_fail():
            real_abort()
            raise RuntimeError("injected failure while cleaning the upload directory")
        pack.abort = abort_then_fail
        repo.abort_write_group(suppress_errors=True)
        leaked = set(repo.texts.keys()) - keys_before
        if leaked:
            verdict(True, "keys written in an aborted write group are still visible through the repository object after the pack's abort failed",
                    observed=str(sorted(leaked)))
    # suspend publishes nothing; resume + commit publishes
    with repo.lock_write():
        repo.start_write_group()
        write_something(repo, b"k2")
        tokens = repo.suspend_write_group()
    if visible() != before:
        verdict(True, "a suspended write group changed the visible revisions or pack list", observed=str(visible()), expected=str(before))
    with repo.lock_write():
        repo.resume_write_group(tokens)
        repo.commit_write_group()
    after = visible()
    if len(after[1]) != len(before[1]) + 1:
        verdict(True, "a resumed and committed write group did not publish exactly one new pack", observed=str(after), expected=str(before))
    fresh = Repository.open(d)
    with fresh.lock_read():
        if fresh.texts.get_parent_map([(b"file-x", b"k2")]) == {}:
            verdict(True, "content written before suspending is missing after resume + commit")
    verdict(False, "no failing scenario")
finally:
    shutil.rmtree(base, ignore_errors=True)
