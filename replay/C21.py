"""Replay for C21 on real branches: pull never moves a tip backwards/sideways without overwrite; append-only branches only extend."""
import os, shutil, tempfile
from _common import request, verdict
import breezy.bzr  # noqa
from breezy import controldir, errors
from breezy.branch import Branch, InterBranch

req = request()
base = tempfile.mkdtemp(prefix="c21_")
fmt = controldir.format_registry.make_controldir("2a")


def new_tree(name):
    d = os.path.join(base, name); os.mkdir(d)
    cd = fmt.initialize(d); cd.create_repository(); cd.create_branch()
    return d, cd.create_workingtree()


def commit(wt, d, text):
    open(os.path.join(d, "f"), "a").write(text + "\n")
    if not wt.is_versioned("f"):
        wt.add(["f"])
    return wt.commit(text, committer="t <t@e.x>")


try:
    d1, a = new_tree("a")
    r1 = commit(a, d1, "1"); r2 = commit(a, d1, "2")
    b = a.controldir.sprout(os.path.join(base, "b")).open_workingtree()
    d2 = os.path.join(base, "b")
    r3 = commit(a, d1, "3")
    # b is behind a: pull moves it forward
    b.branch.pull(a.branch)
    if b.branch.last_revision_info() != (3, r3):
        verdict(True, "pull of a strict descendant did not move the tip", observed=str(b.branch.last_revision_info()))
    # a is now behind b after b commits: pulling a into b is a no-op
    b.update(); r4 = commit(b, d2, "4")
    before = b.branch.last_revision_info()
    b.branch.pull(a.branch)
    if b.branch.last_revision_info() != before:
        verdict(True, "pull of an ancestor moved the tip backwards", observed=str(b.branch.last_revision_info()), expected=str(before))
    # diverged: refused without overwrite, tip unchanged
    r5 = commit(a, d1, "5")
    try:
        b.branch.pull(a.branch)
        verdict(True, "pull of a diverged branch was not refused", observed=str(b.branch.last_revision_info()))
    except errors.DivergedBranches:
        pass
    if b.branch.last_revision_info() != before:
        verdict(True, "refused pull changed the tip")
    # push is held to the same rule: only an explicit request to overwrite *history* may move a diverged target
    for ow in (False, [], ["tags"], {"tags"}):
        try:
            a.branch.push(b.branch, overwrite=ow)
            verdict(True, "push onto a diverged target with overwrite=%r was not refused: the target's own history was dropped" % (ow,),
                    observed=str(b.branch.last_revision_info()), expected=str(before))
        except errors.DivergedBranches:
            pass
        if b.branch.last_revision_info() != before:
            verdict(True, "refused push (overwrite=%r) changed the target tip" % (ow,))
        try:
            b.branch.pull(a.branch, overwrite=ow)
            verdict(True, "pull of a diverged branch with overwrite=%r was not refused" % (ow,), observed=str(b.branch.last_revision_info()))
        except errors.DivergedBranches:
            pass
        if b.branch.last_revision_info() != before:
            verdict(True, "refused pull (overwrite=%r) changed the tip" % (ow,))
    b.branch.pull(a.branch, overwrite=True)
    if b.branch.last_revision_info() != (4, r5):
        verdict(True, "overwrite pull did not set the source tip", observed=str(b.branch.last_revision_info()))
    # append-only
    b.branch.set_append_revisions_only(True)
    try:
        b.branch.set_last_revision_info(2, r2)
        verdict(True, "append-only branch accepted a tip that drops history")
    except errors.AppendRevisionsOnlyViolation:
        pass
    if b.branch.last_revision_info() != (4, r5):
        verdict(True, "refused append-only update changed the tip")
    verdict(False, "no failing scenario")
finally:
    shutil.rmtree(base, ignore_errors=True)
