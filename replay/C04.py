"""Replay / native scenarios for C04: the file-system state before every mutating transport operation of commit, autopack, pack and
fetch into a pack repository is copied aside (that is what a crash at that point leaves behind) and each copy is opened afresh:
the revisions it reports are either the complete old set or the complete new set, and every one of them is fully readable."""
import os, shutil, tempfile
from _common import request, verdict, is_known
import breezy.bzr  # noqa
from breezy import controldir, errors
from breezy.repository import Repository
from dromedary.local import LocalTransport

req = request()
tier = req.get("tier", "quick")
base = tempfile.mkdtemp(prefix="c04_")
MUTATING = ["rename", "move", "put_file", "put_bytes", "put_file_non_atomic", "put_bytes_non_atomic", "delete", "mkdir", "append_file",
            "append_bytes", "open_write_stream", "rmdir", "delete_tree", "copy"]
state = {"watch": None, "snaps": [], "n": 0, "on": False}
orig = {}


def snap(label):
    if not state["on"]:
        return
    state["n"] += 1
    dst = os.path.join(base, "snap_%d" % state["n"])
    shutil.copytree(state["watch"], dst, symlinks=True)
    state["snaps"].append((dst, label))


def hook(name):
    real = getattr(LocalTransport, name)

    def wrapped(self, *a, **kw):
        if state["on"] and self.base.startswith("file://" + state["watch"]):
            snap("before %s%r" % (name, tuple(str(x)[:40] for x in a[:2])))
        return real(self, *a, **kw)
    orig[name] = real
    setattr(LocalTransport, name, wrapped)


for m_ in MUTATING:
    if hasattr(LocalTransport, m_):
        hook(m_)


def readable_revisions(path):
    """open a copy afresh; -> (set of revision ids, problem or None)"""
    try:
        repo = Repository.open(path)
        with repo.lock_read():
            revs = set(repo.all_revision_ids())
            for r in sorted(revs):
                rev = repo.get_revision(r)
                t = repo.revision_tree(r)
                for p, e in t.iter_entries_by_dir():
                    if e.kind == "file":
                        t.get_file_text(p)
                for par in rev.parent_ids:
                    if par not in revs:
                        return revs, "revision %r lists parent %r which is not in the repository" % (r, par)
            return revs, None
    except Exception as e:  # noqa
        return None, "%s: %s" % (type(e).__name__, str(e)[:300])


def watched(repo_path, action, what, fmt):
    """run action() with snapshots; check every snapshot against the old and the new revision set"""
    old, prob = readable_revisions(repo_path)
    if prob:
        verdict(True, "the repository was not readable BEFORE the operation (driver problem?)", input=what, observed=prob)
    state.update(watch=repo_path, snaps=[], on=True)
    try:
        action()
    finally:
        state["on"] = False
    new, prob = readable_revisions(repo_path)
    if prob:
        verdict(True, "the repository is not fully readable after a completed %s" % what, input=dict(format=fmt), observed=prob)
    n = 0
    for dst, label in state["snaps"]:
        n += 1
        got, prob = readable_revisions(dst)
        if prob or got not in (old, new):
            verdict(True, "a crash during %s leaves a repository that is unreadable or shows a mixture of the old and new revisions" % what,
                    input=dict(format=fmt, crash_point="%s (operation %d of %d)" % (label, n, len(state["snaps"]))),
                    observed=prob or "revisions %s" % sorted(got), expected="%s or %s" % (sorted(old), sorted(new)))
        shutil.rmtree(dst, ignore_errors=True)
    return len(state["snaps"])


tried = 0
try:
    for fmt in ("2a", "pack-0.92"):
        d = os.path.join(base, "r_" + fmt.replace(".", "_")); os.mkdir(d)
        cd = controldir.format_registry.make_controldir(fmt).initialize(d); cd.create_repository(); cd.create_branch(); wt = cd.create_workingtree()
        repo_path = d
        ncommits = 11 if tier == "quick" else 21          # the 10th commit triggers an autopack
        for i in range(ncommits):
            open(os.path.join(d, "f%d" % (i % 3)), "w").write("content %d\n" % i)
            if i < 3:
                wt.add(["f%d" % i])
            tried += watched(repo_path, lambda: wt.commit("c%d" % i, rev_id=b"rev-%d" % i, committer="t <t@e.x>"),
                             "commit %d%s" % (i + 1, " (with autopack)" if (i + 1) % 10 == 0 else ""), fmt)
        tried += watched(repo_path, lambda: wt.branch.repository.pack(), "pack", fmt)
        tried += watched(repo_path, lambda: wt.branch.repository.pack(clean_obsolete_packs=True), "pack with clean_obsolete_packs", fmt)
        # fetch into a fresh repository
        d2 = os.path.join(base, "t_" + fmt.replace(".", "_")); os.mkdir(d2)
        cd2 = controldir.format_registry.make_controldir(fmt).initialize(d2); target = cd2.create_repository()
        tried += watched(d2, lambda: target.fetch(wt.branch.repository), "fetch of %d revisions" % ncommits, fmt)
    verdict(False, "no failing crash point among %d" % tried)
finally:
    for n_, f_ in orig.items():
        setattr(LocalTransport, n_, f_)
    shutil.rmtree(base, ignore_errors=True)
