"""Replay / native scenarios for C02 on real 2a and pack-0.92 repositories: histories with linear changes, merges, a criss-cross,
revert-after-merge, identical parallel changes and a cherry-pick. For every revision and every file entry: its per-file parents (text
graph) are exactly the heads among the versions the file has in the revision's parents, and it names itself as last-changed revision
exactly when it cannot be carried over from the single head (content, name, parent directory, kind or executable bit differ).
The repository check must report no inconsistent per-file parents."""
import os, shutil, tempfile
from _common import request, verdict, is_known
import breezy.bzr  # noqa
from breezy import controldir, revision as _mod_revision
from vcsgraph.graph import Graph, DictParentsProvider

req = request()
base = tempfile.mkdtemp(prefix="c02_")


def mk(fmt, name):
    d = os.path.join(base, name); os.mkdir(d)
    cd = controldir.format_registry.make_controldir(fmt).initialize(d); cd.create_repository(); cd.create_branch()
    return d, cd.create_workingtree()


def w(d, f, text, exe=None):
    p = os.path.join(d, f)
    os.makedirs(os.path.dirname(p), exist_ok=True)
    open(p, "w").write(text)
    if exe is not None:
        os.chmod(p, 0o755 if exe else 0o644)


def ci(wt, msg, rid):
    return wt.commit(msg, rev_id=rid, committer="t <t@e.x>")


def build(fmt):
    """-> the working tree of branch A after: linear edits, rename, exec flip, merges both ways (criss-cross), revert after merge,
    identical parallel change, cherry-pick"""
    da, a = mk(fmt, "a_" + fmt.replace(".", "_"))
    w(da, "f", "1\n"); w(da, "g", "g1\n"); w(da, "dir/h", "h1\n"); a.add(["f", "g", "dir", "dir/h"]); ci(a, "base", b"A1")
    db = da + "_b"
    b = a.controldir.sprout(db).open_workingtree()
    w(da, "f", "2a\n"); ci(a, "A edits f", b"A2")
    w(db, "g", "g2b\n"); ci(b, "B edits g", b"B2")
    a.rename_one("g", "dir/g"); ci(a, "A moves g", b"A3")
    w(db, "dir/h", "h1\n", exe=True); ci(b, "B makes h executable", b"B3")
    # criss-cross: each merges the other's earlier tip
    a.merge_from_branch(b.branch, to_revision=b"B2"); ci(a, "A merges B2", b"A4")
    b.merge_from_branch(a.branch, to_revision=b"A3"); ci(b, "B merges A3", b"B4")
    a.merge_from_branch(b.branch); ci(a, "A merges B4 (criss-cross)", b"A5")
    # revert after merge: merge B's next change to f, revert f before committing
    w(db, "f", "2a\nB\n"); ci(b, "B edits f", b"B5")
    a.merge_from_branch(b.branch); a.revert(["f"], backups=False); ci(a, "A merges B5 but reverts f", b"A6")
    # identical parallel changes
    w(da, "dir/h", "same\n"); ci(a, "A sets h", b"A7")
    w(db, "dir/h", "same\n"); ci(b, "B sets h identically", b"B6")
    a.merge_from_branch(b.branch); ci(a, "A merges identical change", b"A8")
    # cherry-pick: B changes two files in two commits, A takes only the second
    w(db, "f", "2a\nB\nB7\n"); ci(b, "B7", b"B7")
    w(db, "dir/g", "g2b\nB8\n") if os.path.exists(os.path.join(db, "dir/g")) else w(db, "g", "g2b\nB8\n")
    ci(b, "B8", b"B8")
    a.merge_from_branch(b.branch, from_revision=b"B7", to_revision=b"B8"); a.set_parent_ids([a.last_revision()]); ci(a, "A cherry-picks B8", b"A9")
    return a


def build_resurrected(fmt):
    """a file deleted and re-added with the same file id (fresh per-file history) while another file has the SAME candidate versions
    but a different per-file graph: the heads must be computed per file"""
    dt, t = mk(fmt, "res_" + fmt.replace(".", "_"))
    for n_ in ("f", "g", "h"):
        w(dt, n_, "base %s\n" % n_)
    t.add(["f", "g", "h"], ids=[b"f-id", b"g-id", b"h-id"]); ci(t, "r1", b"r1")
    do = dt + "_o"
    o = t.controldir.sprout(do).open_workingtree()
    w(do, "f", "base f\nother f\n"); w(do, "g", "base g\nother g\n"); ci(o, "Q", b"Q")
    w(do, "h", "base h\nother h\n"); ci(o, "Q2", b"Q2")
    t.pull(o.branch, stop_revision=b"Q")
    t.remove(["f"], keep_files=False); ci(t, "D", b"D")
    w(dt, "f", "resurrected f\n"); t.add(["f"], ids=[b"f-id"]); w(dt, "g", "base g\nother g\ntrunk g\n"); ci(t, "P", b"P")
    t.merge_from_branch(o.branch); ci(t, "M", b"M")
    return t


def entries(tree):
    return dict((e.file_id, (p, e)) for p, e in tree.iter_entries_by_dir() if e.kind in ("file", "symlink") or p)


def same_entry(t1, p1, e1, t2, p2, e2, parent_of):
    if e1.kind != e2.kind or e1.name != e2.name or e1.parent_id != e2.parent_id:
        return False
    if e1.kind == "file":
        return t1.get_file_sha1(p1) == t2.get_file_sha1(p2) and t1.is_executable(p1) == t2.is_executable(p2)
    if e1.kind == "symlink":
        return t1.get_symlink_target(p1) == t2.get_symlink_target(p2)
    return True


tried = 0
try:
    for fmt, builder in (("2a", build), ("pack-0.92", build), ("2a", build_resurrected), ("pack-0.92", build_resurrected)):
        a = builder(fmt)
        repo = a.branch.repository
        with repo.lock_read():
            revs = [r for r in repo.all_revision_ids()]
            text_parents = repo.texts.get_parent_map(repo.texts.keys())
            for r in sorted(revs):
                rev = repo.get_revision(r)
                tree = repo.revision_tree(r)
                ptrees = [repo.revision_tree(p) for p in rev.parent_ids if repo.has_revision(p)]
                pents = [entries(t) for t in ptrees]
                for fid, (path, e) in entries(tree).items():
                    if e.kind == "directory" and not tree.supports_rename_tracking():
                        continue
                    tried += 1
                    versions = []
                    for t, pe in zip(ptrees, pents):
                        if fid in pe and pe[fid][1].revision not in versions:
                            versions.append(pe[fid][1].revision)
                    keys = [(fid, v) for v in versions]
                    g = Graph(DictParentsProvider(text_parents))
                    heads = set(k[1] for k in g.heads(keys)) if keys else set()
                    if e.revision == r:
                        got = set(k[1] for k in text_parents.get((fid, r), ()))
                        if (fid, r) in text_parents and got != heads:
                            verdict(True, "the per-file parents of a file version are not the heads among the versions in the revision's parents",
                                    input=dict(format=fmt, revision=r.decode(), path=path), observed=str(sorted(got)), expected=str(sorted(heads)))
                        # it must really differ from the single head it could have been carried over from
                        if len(heads) == 1:
                            (h,) = heads
                            for t, pe in zip(ptrees, pents):
                                if fid in pe and pe[fid][1].revision == h and same_entry(tree, path, e, t, pe[fid][0], pe[fid][1], None):
                                    verdict(True, "a file version names the new revision as last-changed although nothing about it changed against its single per-file head",
                                            input=dict(format=fmt, revision=r.decode(), path=path), observed="last-changed %r, identical to head %r" % (e.revision, h))
                    else:
                        # carried over: only from the single head, and identical to it
                        if heads != {e.revision}:
                            verdict(True, "an entry keeps an older last-changed revision that is not the single per-file head of its parents' versions",
                                    input=dict(format=fmt, revision=r.decode(), path=path), observed="last-changed %r, heads %s" % (e.revision, sorted(heads)))
                        for t, pe in zip(ptrees, pents):
                            if fid in pe and pe[fid][1].revision == e.revision and not same_entry(tree, path, e, t, pe[fid][0], pe[fid][1], None):
                                verdict(True, "an entry was carried over although its content, name, directory, kind or executable bit changed",
                                        input=dict(format=fmt, revision=r.decode(), path=path), observed="last-changed %r" % e.revision)
        res = repo.check()
        bad_parents = getattr(res, "inconsistent_parents", None)
        if bad_parents:
            verdict(True, "the repository check reports inconsistent per-file parents", input=fmt, observed=str(bad_parents)[:300])
    verdict(False, "no inconsistent entry among %d" % tried)
finally:
    shutil.rmtree(base, ignore_errors=True)
