"""Replay for C28: every sequence of lock_read / lock_write(token) / unlock up to a bound on the real
CountedLock and LockableFiles, over a fake physical lock that counts acquisitions/releases and can be told to fail."""
import itertools
from _common import request, verdict
from breezy import errors
from breezy.counted_lock import CountedLock

req = request()


class Phys:
    def __init__(self):
        self.state, self.acq, self.rel, self.fail = "free", 0, 0, None

    def _maybe_fail(self, op):
        if self.fail == op:
            self.fail = None
            raise RuntimeError("injected failure in " + op)

    def lock_read(self):
        self._maybe_fail("acquire")
        assert self.state == "free", "physical lock taken twice"
        self.state, self.acq = "r", self.acq + 1

    def lock_write(self, token=None):
        self._maybe_fail("acquire")
        assert self.state == "free", "physical lock taken twice"
        self.state, self.acq = "w", self.acq + 1
        return "tok"

    def validate_token(self, token):
        if token is not None and token != "tok":
            raise errors.TokenMismatch(token, "tok")

    def unlock(self):
        self._maybe_fail("release")
        assert self.state != "free", "physical lock released while free"
        self.state, self.rel = "free", self.rel + 1


OPS = ["r", "w", "w_bad", "u", "r_fail", "w_fail"]
tried = 0
for n in range(1, 6):
    for seq in itertools.product(OPS, repeat=n):
        tried += 1
        p = Phys()
        l = CountedLock(p)
        depth, mode = 0, None           # the abstract model
        for i, op in enumerate(seq):
            before = (p.acq, p.rel, p.state)
            try:
                if op in ("r", "r_fail"):
                    if op == "r_fail":
                        p.fail = "acquire"
                    l.lock_read()
                    raised = None
                elif op in ("w", "w_bad", "w_fail"):
                    if op == "w_fail":
                        p.fail = "acquire"
                    l.lock_write(token="bad" if op == "w_bad" else None)
                    raised = None
                else:
                    l.unlock()
                    raised = None
            except Exception as e:  # noqa
                raised = e
            p.fail = None
            # expected behaviour of the abstract reentrant lock
            if op == "u":
                exp_ok = depth > 0
                if exp_ok:
                    depth -= 1
                    if depth == 0:
                        mode = None
            elif op.startswith("r"):
                exp_ok = not (depth == 0 and op == "r_fail")
                if exp_ok:
                    if depth == 0:
                        mode = "r"
                    depth += 1
            else:
                exp_ok = not ((depth > 0 and mode == "r") or (depth == 0 and op == "w_fail") or (depth > 0 and op == "w_bad"))
                if exp_ok:
                    if depth == 0:
                        mode = "w"
                    depth += 1
            ctx = dict(sequence=list(seq[:i + 1]))
            if (raised is None) != exp_ok:
                verdict(True, "operation %s %s but should have %s" % (op, "succeeded" if raised is None else "raised %r" % raised,
                                                                      "succeeded" if exp_ok else "been refused"), input=ctx)
            if l.is_locked() != (depth > 0) or (p.state != "free") != (depth > 0) or p.acq - p.rel != (1 if depth > 0 else 0):
                verdict(True, "lock state inconsistent: wrapper locked=%s depth(model)=%d physical=%s acquired=%d released=%d"
                        % (l.is_locked(), depth, p.state, p.acq, p.rel), input=ctx)
verdict(False, "no failing sequence among %d" % tried)
