"""Replay for C18: the four laws on the real functions, exhaustively over a small value domain."""
import itertools
from _common import request, verdict
from breezy.merge import Merge3Merger as M

req = request()
swap = {"this": "other", "other": "this", "conflict": "conflict"}
D = [0, 1, 2, 3]
tried = 0
for b, o, t in itertools.product(D, repeat=3):
    tried += 1
    r, r2 = M._three_way(b, o, t), M._three_way(b, t, o)
    if o == t and (r != "this" or r2 != "this") or o != t and r2 != swap[r]:
        verdict(True, "_three_way not symmetric", input=dict(base=b, other=o, this=t), observed=[r, r2])
    if (o == b and t != b and r == "other") or (t == b and o != b and r == "this"):
        verdict(True, "_three_way: unchanged side wins", input=dict(base=b, other=o, this=t), observed=r)
for n in range(0, 4):
    for lcas in itertools.product(D, repeat=n):
        for b, o, t in itertools.product(D, repeat=3):
            for allow in (True, False):
                tried += 1
                r = M._lca_multi_way((b, list(lcas)), o, t, allow_overriding_lca=allow)
                r2 = M._lca_multi_way((b, list(lcas)), t, o, allow_overriding_lca=allow)
                inp = dict(base=b, lcas=list(lcas), other=o, this=t, allow=allow)
                if o == t and (r != "this" or r2 != "this") or o != t and r2 != swap[r]:
                    verdict(True, "_lca_multi_way not symmetric", input=inp, observed=[r, r2])
                if lcas and len(set(lcas)) == 1 and r != M._three_way(lcas[0], o, t):
                    verdict(True, "all LCAs equal but result differs from _three_way", input=inp, observed=r)
                if not lcas and r != M._three_way(b, o, t):
                    verdict(True, "no LCAs but result differs from _three_way", input=inp, observed=r)
                anc = set(lcas) | {b}
                if (o in anc and t not in anc and r == "other") or (t in anc and o not in anc and r == "this"):
                    verdict(True, "unchanged side wins against a changed side", input=inp, observed=r)
verdict(False, "no failing input among %d enumerated inputs" % tried)
