"""Replay for C36: the name/ref and sha/revid pairs on the real functions over generated names (the same laws as the contracts)."""
import itertools
from _common import request, verdict, is_known
from breezy.git import refs as R, mapping as M

req = request()
alph = ["a", "/", "refs", "heads", "tags", "å", " ", "_"]
tried = 0
mp = M.default_mapping
for k in range(0, 4):
    for t in itertools.product(alph, repeat=k):
        name = "".join(t); tried += 1
        try:
            back = R.ref_to_branch_name(R.branch_name_to_ref(name))
        except ValueError:
            back = None
        if back != name:
            if name.startswith("refs/"):
                if not is_known("branch names beginning with 'refs/'"):
                    verdict(True, "branch name does not survive name -> ref -> name", input=name, observed=repr(back),
                            witness_class="branch names beginning with 'refs/'")
            else:
                verdict(True, "branch name (not beginning with refs/) does not survive name -> ref -> name", input=name, observed=repr(back))
        if R.ref_to_tag_name(R.tag_name_to_ref(name)) != name:
            verdict(True, "tag name does not survive name -> ref -> name", input=name)
        if R.branch_name_to_ref(name) != (b"HEAD" if name == "" else (name.encode("utf-8") if name.startswith("refs/") else b"refs/heads/" + name.encode("utf-8"))):
            verdict(True, "branch_name_to_ref does not follow its specification", input=name, observed=repr(R.branch_name_to_ref(name)))
for ref in (b"refs/heads/x", b"HEAD", b"refs/tags/t", b"refs/heads/", b"refs/headsx", b"x"):
    tried += 1
    try:
        got = R.ref_to_branch_name(ref)
        ok = (ref == b"HEAD" and got == "") or (ref.startswith(b"refs/heads/") and got == ref[11:].decode("utf-8"))
    except ValueError:
        ok = not (ref == b"HEAD" or ref.startswith(b"refs/heads/"))
    if not ok:
        verdict(True, "ref_to_branch_name does not follow its specification", input=repr(ref))
for sha in (b"a" * 40, b"0" * 39 + b"1", b"0123456789abcdef0123456789abcdef01234567"):
    tried += 1
    if mp.revision_id_bzr_to_foreign(mp.revision_id_foreign_to_bzr(sha))[0] != sha:
        verdict(True, "git sha does not survive sha -> revision id -> sha", input=repr(sha))
try:
    mp.revision_id_bzr_to_foreign(b"other-v1:" + b"a" * 40)
    verdict(True, "a revision id of another mapping was accepted")
except Exception as e:  # noqa
    if type(e).__name__ != "InvalidRevisionId":
        verdict(True, "wrong refusal for a foreign revision id", observed=repr(e))
verdict(False, "no failing input among %d" % tried)
