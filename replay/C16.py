"""Replay for C16 (and the uncommit clause of C12) on real branches in a temporary directory."""
import hashlib, os, shutil, tempfile
from _common import request, verdict
import breezy.bzr  # noqa
from breezy import controldir
from breezy.uncommit import uncommit
from breezy.revision import NULL_REVISION

req = request()
base = tempfile.mkdtemp(prefix="c16_")
fmt = controldir.format_registry.make_controldir("2a")


def mk(name):
    d = os.path.join(base, name); os.mkdir(d)
    return fmt.initialize(d).create_repository() and None or controldir.ControlDir.open(d)


def new_tree(name):
    d = os.path.join(base, name); os.mkdir(d)
    cd = fmt.initialize(d); cd.create_repository(); cd.create_branch()
    return d, cd.create_workingtree()


def digest(d):
    h = hashlib.sha1()
    for root, dirs, files in os.walk(d):
        dirs[:] = sorted(x for x in dirs if x != ".bzr")
        for f in sorted(files):
            h.update(os.path.join(root, f).encode()); h.update(open(os.path.join(root, f), "rb").read())
    return h.hexdigest()


try:
    d, wt = new_tree("main")
    open(os.path.join(d, "a"), "w").write("1\n"); wt.add(["a"])
    r1 = wt.commit("one", committer="t <t@e.x>")
    side = wt.controldir.sprout(os.path.join(base, "side")).open_workingtree()
    open(os.path.join(base, "side", "b"), "w").write("s\n"); side.add(["b"])
    s1 = side.commit("side", committer="t <t@e.x>")
    open(os.path.join(d, "a"), "w").write("2\n")
    r2 = wt.commit("two", committer="t <t@e.x>")
    wt.merge_from_branch(side.branch)
    before = (wt.branch.last_revision_info(), wt.get_parent_ids())
    r3 = wt.commit("merge", committer="t <t@e.x>")
    open(os.path.join(d, "a"), "w").write("edited after commit\n")       # an uncommitted edit must survive
    files_before = digest(d)
    # dry run changes nothing
    snap = (wt.branch.last_revision_info(), wt.get_parent_ids())
    uncommit(wt.branch, dry_run=True, tree=wt)
    if (wt.branch.last_revision_info(), wt.get_parent_ids()) != snap:
        verdict(True, "dry run moved the tip or the tree parents")
    # uncommit undoes the commit
    uncommit(wt.branch, tree=wt)
    after = (wt.branch.last_revision_info(), wt.get_parent_ids())
    if after != before:
        verdict(True, "commit followed by uncommit did not restore tip/revno/parent list", observed=str(after), expected=str(before))
    if digest(d) != files_before:
        verdict(True, "uncommit modified working tree files (C12)")
    # several revisions at once: back to revno 1, merges re-recorded as pending
    wt.commit("merge again", committer="t <t@e.x>")
    uncommit(wt.branch, tree=wt, revno=2)
    info, parents = wt.branch.last_revision_info(), wt.get_parent_ids()
    if info != (1, r1) or parents[0] != r1 or s1 not in parents[1:]:
        verdict(True, "uncommit to revno 2 did not move to the left-hand ancestor / re-record merges", observed=str((info, parents)))
    # everything
    uncommit(wt.branch, tree=wt, revno=1)
    if wt.branch.last_revision_info() != (0, NULL_REVISION):
        verdict(True, "uncommit of all revisions did not reach the null revision", observed=str(wt.branch.last_revision_info()))
    if wt.branch.is_locked() or wt.is_locked():
        verdict(True, "uncommit left a lock held")
    if digest(d) != files_before:
        verdict(True, "uncommit modified working tree files (C12)")
    # bound branch out of date: refused before any change
    d2, master = new_tree("master")
    open(os.path.join(d2, "x"), "w").write("1\n"); master.add(["x"]); master.commit("m1", committer="t <t@e.x>")
    co = master.branch.create_checkout(os.path.join(base, "co"))
    master.commit("m2", committer="t <t@e.x>", allow_pointless=True)
    snap = co.branch.last_revision_info()
    try:
        uncommit(co.branch, tree=co)
        verdict(True, "uncommit on an out-of-date bound branch was not refused")
    except Exception as e:  # noqa
        if type(e).__name__ != "BoundBranchOutOfDate" or co.branch.last_revision_info() != snap:
            verdict(True, "out-of-date bound branch: wrong refusal or state changed", observed=repr(e))
    co.update()
    uncommit(co.branch, tree=co)
    if master.branch.last_revision_info() != co.branch.last_revision_info():
        verdict(True, "bound uncommit left master and local tips different")
    # bound branch diverged from its master at the SAME revision number: still out of date, still refused, master untouched
    d3, m3 = new_tree("master3")
    open(os.path.join(d3, "x"), "w").write("1\n"); m3.add(["x"]); m3.commit("m1", committer="t <t@e.x>")
    co3 = m3.branch.create_checkout(os.path.join(base, "co3"))
    open(os.path.join(base, "co3", "x"), "w").write("local\n")
    co3.commit("local only", committer="t <t@e.x>", local=True)
    open(os.path.join(d3, "x"), "w").write("master\n")
    m3.commit("master only", committer="t <t@e.x>")
    msnap, csnap = m3.branch.last_revision_info(), co3.branch.last_revision_info()
    if msnap[0] != csnap[0] or msnap[1] == csnap[1]:
        verdict(False, "could not build the diverged-at-equal-revno scenario")
    try:
        uncommit(co3.branch, tree=co3)
        verdict(True, "uncommit on a bound branch diverged from its master (equal revno, different tips) was not refused",
                observed="master %s -> %s" % (msnap, m3.branch.last_revision_info()))
    except Exception as e:  # noqa
        if type(e).__name__ != "BoundBranchOutOfDate":
            verdict(True, "diverged bound branch: wrong refusal", observed=repr(e))
    if m3.branch.last_revision_info() != msnap or co3.branch.last_revision_info() != csnap:
        verdict(True, "refused uncommit on a diverged bound branch changed a tip",
                observed="master %s local %s" % (m3.branch.last_revision_info(), co3.branch.last_revision_info()))
    # local=True never touches the master
    uncommit(co3.branch, tree=co3, local=True)
    if m3.branch.last_revision_info() != msnap:
        verdict(True, "uncommit --local moved the master tip")
    verdict(False, "no failing scenario")
finally:
    shutil.rmtree(base, ignore_errors=True)
