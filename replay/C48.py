"""Replay for C48 on the real globbing classes: exception precedence, classification, and independence from the number of
patterns (batches of 99)."""
import itertools
from _common import request, verdict
from breezy.globbing import Globster, ExceptionGlobster

req = request()
tried = 0
names = ["foo.c", "src/foo.c", "build/x/foo.o", "README", "doc/README", "a/b/c.txt", ".hidden", "x.tar.gz"]
pats = ["*.c", "*.o", "README", "build/**", "doc/*", "**/c.txt", "./rooted", "RE:^x\\..*$", "*.gz", ".h*", "[a-c]/b/*"]
# 1. the answer for each pattern alone vs. in a crowd of non-matching patterns of every kind, across the 99 boundary
for name in names:
    for p in pats:
        alone = Globster([p]).match(name)
        for n in (0, 1, 97, 98, 99, 100, 197, 198, 199):
            for kind in ("*.zz%d", "zz%d", "zz/yy%d"):
                tried += 1
                crowd = [kind % i for i in range(n)]
                for lst in (crowd + [p], [p] + crowd):
                    got = Globster(lst).match(name)
                    if got != alone:
                        verdict(True, "the answer depends on how many other patterns there are", input=dict(name=name, pattern=p, others=n, kind=kind),
                                observed=repr(got), expected=repr(alone))
# 2. the reported pattern is one that matches on its own
for name in names:
    g = Globster(pats)
    got = g.match(name)
    tried += 1
    if got is not None and Globster([got]).match(name) is None:
        verdict(True, "the reported pattern does not match the name on its own", input=name, observed=got)
    if got is None and any(Globster([p]).match(name) for p in pats):
        verdict(True, "no pattern reported although one matches", input=name)
# 3. exception precedence
for name in names:
    for plain, exc, dbl in itertools.product([[], ["*.c"], ["README", "*.o"]], [[], ["src/*"], ["*.c", "doc/*"]], [[], ["src/foo.c"], ["*.o"]]):
        tried += 1
        eg = ExceptionGlobster(plain + ["!" + x for x in exc] + ["!!" + x for x in dbl])
        got = eg.match(name)
        d = Globster(dbl).match(name); e = Globster(exc).match(name); p = Globster(plain).match(name)
        exp = ("!!" + d) if d else (None if e else p)
        if got != exp:
            verdict(True, "exception precedence violated", input=dict(name=name, plain=plain, exceptions=exc, double=dbl), observed=repr(got), expected=repr(exp))
# 4. classification
for p, k in (("*.c", "extension"), ("foo", "basename"), ("a/b", "fullpath"), ("RE:x", "fullpath"), ("*.c/x", "fullpath"), ("*", "basename"), ("*.", "extension")):
    tried += 1
    if Globster.identify(p) != k:
        verdict(True, "pattern classified wrongly", input=p, observed=Globster.identify(p), expected=k)
verdict(False, "no failing input among %d" % tried)
