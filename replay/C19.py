"""Replay for C19 on real trees: a text conflict is recorded exactly when the three-way text merge has conflicting regions, with
marker lines in the file and helper files holding BASE / THIS / OTHER; the sentinel finding F5 is reproduced natively."""
import os, shutil, tempfile
from _common import request, verdict, is_known
import breezy.bzr  # noqa
from breezy import controldir

req = request()
base = tempfile.mkdtemp(prefix="c19_")
fmt = controldir.format_registry.make_controldir("2a")
SENTINEL = "!START OF MERGE CONFLICT!I HOPE THIS IS UNIQUE"


def scenario(name, base_text, this_text, other_text):
    d = os.path.join(base, name); os.mkdir(d)
    cd = fmt.initialize(d); cd.create_repository(); cd.create_branch(); wt = cd.create_workingtree()
    open(os.path.join(d, "f"), "w").write(base_text); wt.add(["f"]); wt.commit("base", committer="t <t@e.x>")
    od = os.path.join(base, name + "_o")
    other = wt.controldir.sprout(od).open_workingtree()
    open(os.path.join(od, "f"), "w").write(other_text); other.commit("other", committer="t <t@e.x>")
    open(os.path.join(d, "f"), "w").write(this_text); wt.commit("this", committer="t <t@e.x>")
    wt.merge_from_branch(other.branch)
    conflicts = [c for c in wt.conflicts() if c.typestring == "text conflict"]
    return d, wt, conflicts


tried = 0
try:
    cases = [
        ("clean", "a\nb\nc\n", "a\nb\nc\nT\n", "O\na\nb\nc\n", False),
        ("conflict", "a\nb\nc\n", "a\nT\nc\n", "a\nO\nc\n", True),
        ("same_change", "a\nb\nc\n", "a\nX\nc\n", "a\nX\nc\n", False),
        ("one_side", "a\nb\nc\n", "a\nb\nc\n", "a\nO\nc\n", False),
    ]
    for name, b, t, o, expect in cases:
        tried += 1
        d, wt, conflicts = scenario(name, b, t, o)
        text = open(os.path.join(d, "f")).read()
        helpers = sorted(x for x in os.listdir(d) if x.startswith("f."))
        if bool(conflicts) != expect:
            verdict(True, "a text conflict was %s although the merge %s conflicting regions" % (
                "recorded" if conflicts else "not recorded", "has" if expect else "has no"), input=name)
        if expect:
            if "<<<<<<<" not in text or ">>>>>>>" not in text or helpers != ["f.BASE", "f.OTHER", "f.THIS"]:
                verdict(True, "a conflicted file lacks markers or its helper files", input=name, observed=str((text, helpers)))
            got = [open(os.path.join(d, h)).read() for h in helpers]
            if got != [b, o, t]:
                verdict(True, "the helper files do not hold exactly the BASE, OTHER and THIS texts", input=name, observed=str(got))
        else:
            if "<<<<<<<" in text or helpers:
                verdict(True, "a cleanly merged file has markers or helper files", input=name, observed=str((text, helpers)))
    # user lines that look like marker lines, unchanged on both sides, in a merge without conflicting regions: no conflict, and
    # the merged text is exactly the clean merge (recognition of conflicting regions must not depend on what the lines say)
    for i, ml in enumerate(("<<<<<<< TREE", "=======", ">>>>>>> MERGE-SOURCE", "||||||| BASE-REVISION", "<<<<<<< TREE quoted in documentation")):
        tried += 1
        b = "a\n%s\nb\nc\n" % ml
        d, wt, conflicts = scenario("markerlike%d" % i, b, b + "T\n", "O\n" + b)
        text = open(os.path.join(d, "f")).read()
        helpers = sorted(x for x in os.listdir(d) if x.startswith("f."))
        if conflicts or helpers or text != "O\n" + b + "T\n":
            verdict(True, "a merge without conflicting regions reported a text conflict, wrote helper files or changed a line, because a user "
                          "line looks like a conflict marker", input=dict(base=b, this=b + "T\n", other="O\n" + b),
                    observed=str((text, helpers, [str(c) for c in conflicts])))
    # resolving with take-this / take-other: the file holds exactly the THIS or OTHER text, the helper files and the conflict record go
    from breezy import conflicts as _conf
    for action, want_text in (("take_this", "a\nT\nc\n"), ("take_other", "a\nO\nc\n")):
        tried += 1
        d, wt, conflicts = scenario("resolve_" + action, "a\nb\nc\n", "a\nT\nc\n", "a\nO\nc\n")
        if not conflicts:
            verdict(True, "no text conflict to resolve in the resolution scenario")
        _conf.resolve(wt, ["f"], action=action)
        wt2 = wt.controldir.open_workingtree()
        text = open(os.path.join(d, "f")).read()
        helpers = sorted(x for x in os.listdir(d) if x.startswith("f."))
        left = [c for c in wt2.conflicts() if c.typestring == "text conflict"]
        with wt2.lock_read():
            fid_ok = wt2.path2id("f") is not None
        if text != want_text or helpers or left or not fid_ok:
            verdict(True, "resolving a text conflict with %s did not leave exactly that side's text without helper files and conflict record" % action,
                    observed=str((text, helpers, [str(c) for c in left], fid_ok)), expected=str((want_text, [], [], True)))
    # F5: a user line that begins with the sentinel, in a merge without conflicting regions
    tried += 1
    d, wt, conflicts = scenario("sentinel", "a\nb\nc\n", "a\nb\nc\n" + SENTINEL + " my line\n", "O\na\nb\nc\n")
    text = open(os.path.join(d, "f")).read()
    if conflicts or SENTINEL + " my line" not in text:
        wc = "an input line (BASE, THIS or OTHER) that itself begins with the start-marker sentinel"
        if not is_known(wc):
            verdict(True, "a clean merge reported a text conflict / rewrote a user line because the line begins with the internal start-marker sentinel",
                    witness_class=wc, observed=text)
    verdict(False, "no failing scenario among %d" % tried)
finally:
    shutil.rmtree(base, ignore_errors=True)
