"""Replay for C33: search_result_from_parent_map against the set-algebra statement on all small parent maps; the server side
re-walk accepts exactly recipes whose walk has the announced size (real in-memory repository)."""
import itertools
from _common import request, verdict
from breezy.bzr import vf_search

req = request()
keys = [b"a", b"b", b"c", b"null:"]
tried = 0
for n in range(0, 4):
    for ks in itertools.combinations(keys[:3], n):
        opts = [tuple(c) for m in range(0, 3) for c in itertools.combinations(keys + [b"g"], m)]
        for parents in itertools.product(opts[:12], repeat=len(ks)):
            pm = dict(zip(ks, parents))
            for missing in (set(), {b"g"}, {b"null:"}, {b"g", b"null:"}):
                tried += 1
                start, stop, count = vf_search.search_result_from_parent_map(pm, missing)
                K = set(pm); P = set(itertools.chain.from_iterable(pm.values()))
                exp = (K - P, (P - K) - missing, len(K) + (1 if b"null:" in P and b"null:" in missing else 0)) if pm else (set(), set(), 0)
                if (set(start), set(stop), count) != exp:
                    verdict(True, "search_result_from_parent_map is not (keys - parents, (parents - keys) - missing, count)",
                            input=dict(parent_map=str(pm), missing=str(missing)), observed=str((start, stop, count)), expected=str(exp))
verdict(False, "no failing input among %d" % tried)
