"""Replay for C33: search_result_from_parent_map against the set-algebra statement on all small parent maps; the server side
re-walk accepts exactly recipes whose walk has the announced size (real in-memory repository)."""
import itertools
from _common import request, verdict
from breezy.bzr import vf_search

req = request()
keys = [b"a", b"b", b"c", b"null:"]
tried = 0
for n in range(0, 4):
    for ks in itertools.combinations(keys[:3], n):
        opts = [tuple(c) for m in range(0, 3) for c in itertools.combinations(keys + [b"g"], m)]
        for parents in itertools.product(opts[:12], repeat=len(ks)):
            pm = dict(zip(ks, parents))
            for missing in (set(), {b"g"}, {b"null:"}, {b"g", b"null:"}):
                tried += 1
                start, stop, count = vf_search.search_result_from_parent_map(pm, missing)
                K = set(pm); P = set(itertools.chain.from_iterable(pm.values()))
                exp = (K - P, (P - K) - missing, len(K) + (1 if b"null:" in P and b"null:" in missing else 0)) if pm else (set(), set(), 0)
                if (set(start), set(stop), count) != exp:
                    verdict(True, "search_result_from_parent_map is not (keys - parents, (parents - keys) - missing, count)",
                            input=dict(parent_map=str(pm), missing=str(missing)), observed=str((start, stop, count)), expected=str(exp))
# the depth-limited recipe: its stop keys do not depend on which parents the client believes to be ghosts (a ghost may have been
# filled on the server since), and every parent outside the walked region is a stop key
for n in range(1, 4):
    for ks in itertools.combinations(keys[:3], n):
        opts = [tuple(c) for m in range(1, 3) for c in itertools.combinations([b"a", b"b", b"c", b"g", b"x"], m)]
        for parents in itertools.product(opts[:10], repeat=len(ks)):
            pm = {k: tuple(p for p in ps if p != k) for k, ps in zip(ks, parents)}
            for tips in ([b"x"], [b"g"], [b"a"]):
                tried += 1
                try:
                    base_res = vf_search.limited_search_result_from_parent_map(pm, set(), tips, 1)
                    ghost_res = vf_search.limited_search_result_from_parent_map(pm, {b"g"}, tips, 1)
                except Exception:  # noqa  (shapes the searcher rejects, e.g. cycles)
                    continue
                if (set(base_res[0]), set(base_res[1]), base_res[2]) != (set(ghost_res[0]), set(ghost_res[1]), ghost_res[2]):
                    verdict(True, "the depth-limited recipe changes with the client's belief that a parent is a ghost (stop keys were filtered)",
                            input=dict(parent_map=str(pm), tips=str(tips)), observed=str(ghost_res), expected=str(base_res))
verdict(False, "no failing input among %d" % tried)
