"""Replay / native scenarios for C11 on real working trees (bzr 2a and git): for a fixed directory layout with ignore patterns, an
ignored directory, a nested tree and control directories, and for several choices of named paths and of what is versioned beforehand,
the set of versioned paths after smart_add is exactly: what was versioned + the named paths with their parents + (recursing) every
unversioned descendant of a named directory that is not ignored, not below an ignored directory, not a control directory and not (in) a
nested tree."""
import os, shutil, tempfile
from _common import request, verdict, is_known
import breezy.bzr  # noqa
import breezy.git  # noqa
from breezy import controldir, ignores

req = request()
base = tempfile.mkdtemp(prefix="c11_")
FILES = ["a", "b.ign", "d/f", "d/g.ign", "d/sub/h", "d/sub/k.ign", "igd/x", "igd/deep/y", "nt/y", "e/"]
IGNORED_DIRS = {"igd"}


def make(fmt, name, pre):
    d = os.path.join(base, name); os.mkdir(d)
    cd = controldir.format_registry.make_controldir(fmt).initialize(d)
    if fmt != "git":
        cd.create_repository()
    cd.create_branch(); wt = cd.create_workingtree()
    for f in FILES:
        p = os.path.join(d, f)
        if f.endswith("/"):
            os.makedirs(p, exist_ok=True)
            continue
        os.makedirs(os.path.dirname(p), exist_ok=True)
        open(p, "w").write(f + "\n")
    # a nested tree of the same kind
    ncd = controldir.format_registry.make_controldir(fmt).initialize(os.path.join(d, "nt"))
    if fmt != "git":
        ncd.create_repository()
    ncd.create_branch()
    open(os.path.join(d, ".bzrignore" if fmt != "git" else ".gitignore"), "w").write("*.ign\nigd\n")
    if pre:
        wt.add(pre)
    return d, wt


def versioned(wt):
    wt2 = wt.controldir.open_workingtree()
    with wt2.lock_read():
        return set(p for p, e in wt2.iter_entries_by_dir() if p)


def parents(p):
    out = set()
    while "/" in p:
        p = p.rsplit("/", 1)[0]
        out.add(p)
    return out


def expected(before, named, recurse, fmt, d):
    want = set(before)
    control = ".bzr" if fmt != "git" else ".git"
    ign_file = ".bzrignore" if fmt != "git" else ".gitignore"
    for n in named:
        if n != ".":
            want.add(n); want |= parents(n)
    if not recurse:
        return want
    for n in named:
        root = "" if n == "." else n
        if not os.path.isdir(os.path.join(d, root)):
            continue
        for dirpath, dirs, files in os.walk(os.path.join(d, root)):
            rel = os.path.relpath(dirpath, d)
            rel = "" if rel == "." else rel
            keep = []
            for x in sorted(dirs):
                p = (rel + "/" + x) if rel else x
                if x == control:
                    continue
                if os.path.isdir(os.path.join(d, p, control)):
                    continue                         # a nested tree: neither versioned nor descended into
                if p in before:
                    keep.append(x); continue         # already versioned: descended into
                if x in IGNORED_DIRS:
                    continue
                want.add(p); keep.append(x)
            dirs[:] = keep
            for x in files:
                p = (rel + "/" + x) if rel else x
                if p in before:
                    continue
                if x.endswith(".ign"):
                    continue
                want.add(p)
    return want


tried = 0
try:
    cases = []
    for named in ([], ["."], ["d"], ["b.ign"], ["d/g.ign", "a"], ["d/sub/h"], ["d/sub"], ["e"], ["a", "d/sub/k.ign"],
                  # a directory and one of its descendants, in either order, and with unrelated names in between
                  ["d/sub", "d"], ["d", "d/sub"], ["d/sub/h", "d"], ["e", "d/sub", "d"], ["d/sub", "e", "d", "a"]):
        for pre in ([], ["d"], ["d", "d/f"], ["a"]):
            for recurse in (True, False):
                cases.append((named, pre, recurse))
    for fmt in ("2a", "git"):
        for i, (named, pre, recurse) in enumerate(cases):
            tried += 1
            d, wt = make(fmt, "%s_%d" % (fmt, i), pre)
            before = versioned(wt)
            try:
                wt.smart_add([os.path.join(d, n) for n in named] if named else [d], recurse=recurse)
            except Exception as e:  # noqa
                verdict(True, "smart_add failed on a plain layout", input=dict(format=fmt, named=named, versioned_before=pre, recurse=recurse),
                        observed="%s: %s" % (type(e).__name__, str(e)[:200]))
            after = versioned(wt)
            named_eff = named if named else ["."]
            want = expected(before, named_eff, recurse, fmt, d)
            ign = ".bzrignore" if fmt != "git" else ".gitignore"
            if after != want:
                extra, missing = sorted(after - want), sorted(want - after)
                wc = None
                if fmt == "git" and not extra and all(os.path.isdir(os.path.join(d, m)) for m in missing):
                    continue      # git trees do not version directories by themselves (empty or not): outside the statement for git
                verdict(True, "smart_add versioned a different set of paths than intended",
                        input=dict(format=fmt, named=named, versioned_before=pre, recurse=recurse),
                        observed="versioned but not intended: %s; intended but not versioned: %s" % (extra, missing))
            shutil.rmtree(d, ignore_errors=True)
    verdict(False, "no failing add among %d" % tried)
finally:
    shutil.rmtree(base, ignore_errors=True)
