"""Replay for C29 and C30: the real LengthPrefixedBodyDecoder fed every segmentation of encoded messages.
Checks: the bytes handed out by read_pending_data concatenate to the body; unused_data is exactly what followed the message;
finished_reading is set exactly when 'done\\n' has been delivered; next_read_size never reaches past the end of the message."""
import itertools, sys
from _common import request, verdict
from breezy.bzr.smart import protocol

req = request()
which = "C30" if "C30" in (req.get("obligation") or "") or "next_read_size" in (req.get("obligation") or "") else "C29"


def segmentations(n, max_cuts):
    for k in range(0, max_cuts + 1):
        for cuts in itertools.combinations(range(1, n), k):
            yield (0,) + cuts + (n,)


bodies = [b"", b"a", b"\n", b"done\n", b"ab\ndone\nx", b"12\n", b"x" * 11, b"done"]
extras = [b"", b"E", b"done\n", b"\n5\n"]
tried = 0
for body in bodies:
    for extra in extras:
        end = len(b"%d\n" % len(body)) + len(body) + 5
        wire = b"%d\n%s" % (len(body), body) + b"done\n" + extra
        for seg in segmentations(len(wire), 3 if len(wire) > 14 else 4):
            tried += 1
            d = protocol.LengthPrefixedBodyDecoder()
            got, fed = b"", 0
            for a, b in zip(seg, seg[1:]):
                if not d.finished_reading:
                    nrs = d.next_read_size()
                    if nrs < 1 or fed + nrs > end:
                        verdict(True, "next_read_size asks for bytes beyond the end of the message (or for nothing while incomplete)",
                                input=dict(wire=repr(wire), fed=fed), observed=str(nrs), expected="1..%d" % (end - fed))
                d.accept_bytes(wire[a:b]); fed = b
                got += d.read_pending_data()
                if d.finished_reading != (fed >= end):
                    verdict(True, "finished_reading does not coincide with the delivery of the whole message", input=dict(wire=repr(wire), segmentation=str(seg), fed=fed))
            if got != body or not d.finished_reading or d.unused_data != extra:
                verdict(True, "decoding a segmented message did not give back the body and the trailing bytes",
                        input=dict(wire=repr(wire), segmentation=str(seg)), observed=repr((got, d.unused_data, d.finished_reading)), expected=repr((body, extra, True)))
verdict(False, "no failing segmentation among %d" % tried)
