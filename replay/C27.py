"""Replay for C27: fault injection at every transport call of LockDir.attempt_lock / unlock on a MemoryTransport."""
from _common import request, verdict, is_known
from dromedary.memory import MemoryTransport
from breezy.lockdir import LockDir, LockHeldInfo
from breezy import errors

req = request()
OPS = ("mkdir", "rename", "put_bytes_non_atomic", "get_bytes", "delete", "rmdir", "put_bytes", "delete_tree")


class Faulty:
    """Wraps a transport; the k-th call (over all wrapped operations) raises."""

    def __init__(self, t, fail_at):
        self._t, self._n, self._fail_at, self.log = t, 0, fail_at, []

    def __getattr__(self, name):
        a = getattr(self._t, name)
        if name not in OPS:
            return a

        def wrapped(*args, **kw):
            self._n += 1
            self.log.append(name)
            if self._n == self._fail_at:
                raise RuntimeError("injected fault in %s (call %d)" % (name, self._n))
            return a(*args, **kw)
        return wrapped

    @property
    def base(self):
        return self._t.base


def recoverable(t):
    """held/ exists => held/info is a complete, parseable info file"""
    if not t.has("lock/held"):
        return True, None
    try:
        info = LockHeldInfo.from_info_file_bytes(t.get_bytes("lock/held/info"))
        return info.nonce is not None, info
    except Exception as e:  # noqa
        return False, repr(e)


tried = 0
for phase in ("attempt", "unlock"):
    for k in range(1, 12):
        tried += 1
        t = MemoryTransport()
        LockDir(t, "lock").create()
        f = Faulty(t, k if phase == "attempt" else 0)
        ld = LockDir(f, "lock")
        raised = None
        try:
            ld.attempt_lock()
        except BaseException as e:  # noqa
            raised = e
        ok, info = recoverable(t)
        if not ok:
            verdict(True, "after a fault in attempt_lock, held/ exists without a complete info file", input=dict(fault_at=k, calls=f.log), observed=str(info))
        if raised is not None and info is not None and info.nonce == ld.nonce:
            wc = "read error in peek() right after the rename into place succeeded"
            if not (f.log and f.log[-1] == "get_bytes" and is_known(wc)):
                verdict(True, "attempt_lock failed but left this process's lock in place", input=dict(fault_at=k, calls=f.log), witness_class=wc)
        if raised is None and not ld._lock_held:
            verdict(True, "attempt_lock returned without holding the lock")
        if phase == "unlock" and raised is None:
            f._fail_at, f._n = k, 0
            f.log = []
            try:
                ld.unlock()
            except BaseException:  # noqa
                pass
            ok, info = recoverable(t)
            if not ok:
                verdict(True, "after a fault in unlock, held/ exists without a complete info file", input=dict(fault_at=k, calls=f.log), observed=str(info))
verdict(False, "no unrecoverable state among %d fault placements" % tried)
