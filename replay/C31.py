"""Replay for C31: SmartServerRequest.translate_client_path with a root client path, on adversarial client paths."""
import itertools
from _common import request, verdict
from breezy.bzr.smart import request as R
from breezy import urlutils

req = request()
from dromedary.memory import MemoryTransport
t = MemoryTransport()
tried = 0
pieces = ["", "a", "..", ".", "%2e%2e", "~", "a b", "%2F", "srv", "srv/", "x"]
for root in ("/", "/srv/", "/srv/pub/"):
    rq = R.SmartServerRequest(t, root_client_path=root)
    for k in range(0, 4):
        for parts in itertools.product(pieces, repeat=k):
            for lead in ("", "/"):
                cp = lead + "/".join(parts)
                tried += 1
                try:
                    got = rq.translate_client_path(cp.encode("utf-8"))
                except Exception as e:  # noqa  (rejected: fine)
                    continue
                full = cp if cp.startswith("/") else "/" + cp
                if not (full + "/" == root or full.startswith(root)):
                    verdict(True, "a client path outside the root client path was translated instead of refused", input=dict(root=root, path=cp), observed=got)
                un = urlutils.unescape(got)
                segs = un.split("/")
                depth = 0
                for s in segs:
                    if s == "..":
                        depth -= 1
                    elif s not in ("", "."):
                        depth += 1
                    if depth < 0:
                        verdict(True, "the translated path climbs above the served directory", input=dict(root=root, path=cp), observed=got)
                if not (got == "." or un.startswith("./")):
                    verdict(True, "the translated path is not relative to the served directory", input=dict(root=root, path=cp), observed=got)
# the jail: with the jail set to one directory, opening a control directory succeeds only at or below it
import itertools
from breezy import errors
from breezy.transport import get_transport
from breezy.bzr.smart import request as R
names = ["srv", "srv-private", "srv2", "sr", "srvx/deep", "other", "srv/sub", "srv/sub/deeper", "srv%2Fx", "srv/../srv-private", "srv/.."]
for scheme_root in ("memory:///", "memory:///top/"):
    jail = get_transport(scheme_root + "srv/")
    R.jail_info.transports = [jail]
    try:
        for n in names:
            tried += 1
            try:
                t = get_transport(scheme_root + n)
            except Exception:  # noqa
                continue
            inside = (t.base == jail.base) or t.base.startswith(jail.base)
            try:
                R._pre_open_hook(t)
                allowed = True
            except Exception:  # noqa  (JailBreak, or the transport's own refusal)
                allowed = False
            if allowed and not inside:
                verdict(True, "opening a control directory OUTSIDE the jail was allowed", input=dict(jail=jail.base, opened=t.base))
            if inside and not allowed:
                verdict(True, "opening a control directory inside the jail was refused", input=dict(jail=jail.base, opened=t.base))
    finally:
        R.jail_info.transports = None
verdict(False, "no failing path among %d" % tried)
