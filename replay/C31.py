"""Replay for C31: SmartServerRequest.translate_client_path with a root client path, on adversarial client paths."""
import itertools
from _common import request, verdict
from breezy.bzr.smart import request as R
from breezy import urlutils

req = request()
from dromedary.memory import MemoryTransport
t = MemoryTransport()
tried = 0
pieces = ["", "a", "..", ".", "%2e%2e", "~", "a b", "%2F", "srv", "srv/", "x"]
for root in ("/", "/srv/", "/srv/pub/"):
    rq = R.SmartServerRequest(t, root_client_path=root)
    for k in range(0, 4):
        for parts in itertools.product(pieces, repeat=k):
            for lead in ("", "/"):
                cp = lead + "/".join(parts)
                tried += 1
                try:
                    got = rq.translate_client_path(cp.encode("utf-8"))
                except Exception as e:  # noqa  (rejected: fine)
                    continue
                full = cp if cp.startswith("/") else "/" + cp
                if not (full + "/" == root or full.startswith(root)):
                    verdict(True, "a client path outside the root client path was translated instead of refused", input=dict(root=root, path=cp), observed=got)
                un = urlutils.unescape(got)
                segs = un.split("/")
                depth = 0
                for s in segs:
                    if s == "..":
                        depth -= 1
                    elif s not in ("", "."):
                        depth += 1
                    if depth < 0:
                        verdict(True, "the translated path climbs above the served directory", input=dict(root=root, path=cp), observed=got)
                if not (got == "." or un.startswith("./")):
                    verdict(True, "the translated path is not relative to the served directory", input=dict(root=root, path=cp), observed=got)
verdict(False, "no failing path among %d" % tried)
