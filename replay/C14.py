"""Replay for C14: resolve_conflicts / _check_malformed on real transforms; apply refuses a malformed transform before touching the tree."""
import os, shutil, tempfile
from _common import request, verdict, is_known
import breezy.bzr  # noqa
from breezy import controldir, transform as T, errors
from breezy.transform import MalformedTransform

req = request()
base = tempfile.mkdtemp(prefix="c14_")
try:
    d = os.path.join(base, "t"); os.mkdir(d)
    cd = controldir.format_registry.make_controldir("2a").initialize(d); cd.create_repository(); cd.create_branch(); wt = cd.create_workingtree()
    open(os.path.join(d, "a"), "w").write("A\n"); wt.add(["a"]); wt.commit("1", committer="t <t@e.x>")
    # a transform with a duplicate name: malformed until resolved
    tt = wt.transform()
    try:
        tt.new_file("dup", tt.root, [b"1\n"], b"id-1")
        tt.new_file("dup", tt.root, [b"2\n"], b"id-2")
        before = sorted(os.listdir(d))
        try:
            tt.apply()
            verdict(True, "a transform with raw conflicts was applied")
        except MalformedTransform:
            pass
        if sorted(os.listdir(d)) != before:
            verdict(True, "a refused (malformed) transform changed the tree", observed=str(sorted(os.listdir(d))))
        T.resolve_conflicts(tt)
        if tt.find_raw_conflicts():
            verdict(True, "resolve_conflicts returned although raw conflicts remain", observed=str(tt.find_raw_conflicts()))
    finally:
        tt.finalize()
    # a pass function that never resolves anything: must end with MalformedTransform, not return
    tt2 = wt.transform()
    try:
        tt2.new_file("dup2", tt2.root, [b"1\n"], b"id-3")
        tt2.new_file("dup2", tt2.root, [b"2\n"], b"id-4")
        try:
            T.resolve_conflicts(tt2, pass_func=lambda t, c: set())
            verdict(True, "resolve_conflicts returned with unresolved raw conflicts (useless pass function)")
        except MalformedTransform:
            pass
    finally:
        tt2.finalize()
    # preview == applied for transforms that put a new entry on the name of an entry that is still versioned but has no content
    # (its file was deleted by the user, or by the transform itself): the duplicate must be found and resolved, and the resolved
    # transform must apply completely and give exactly what the preview shows
    for variant in ("missing on disk", "content deleted by the transform"):
        d2 = os.path.join(base, "v_" + variant.split()[0]); os.mkdir(d2)
        cd2 = controldir.format_registry.make_controldir("2a").initialize(d2); cd2.create_repository(); cd2.create_branch()
        wt2 = cd2.create_workingtree()
        open(os.path.join(d2, "a"), "w").write("old a\n"); open(os.path.join(d2, "b"), "w").write("b\n")
        wt2.add(["a", "b"], ids=[b"a-id", b"b-id"]); wt2.commit("1", committer="t <t@e.x>")
        if variant == "missing on disk":
            os.unlink(os.path.join(d2, "a"))
        tt3 = wt2.transform()
        try:
            if variant != "missing on disk":
                tt3.delete_contents(tt3.trans_id_tree_path("a"))
            tt3.new_file("a", tt3.root, [b"brand new a\n"], b"a2-id")
            T.resolve_conflicts(tt3)
            pv = tt3.get_preview_tree()
            expected = sorted((p_, e.file_id, e.kind, pv.get_file_text(p_) if e.kind == "file" and pv.has_filename(p_) and pv.kind(p_) == "file" else None)
                              for p_, e in pv.iter_entries_by_dir() if p_)
            paths = [x[0] for x in expected]
            if len(set(paths)) != len(paths):
                verdict(True, "after resolve_conflicts the preview still has two versioned entries at one path", input=variant, observed=str(expected))
            failed_apply = None
            try:
                tt3.apply(no_conflicts=True)
            except Exception as e:  # noqa
                failed_apply = e
                wc = "new entry on the name of a versioned entry that is missing from disk and unknown to the transform"
                if True:      # (was finding F17, fixed in /repo by afb756b: reported again if it returns)
                    verdict(True, "a transform that resolve_conflicts declared conflict-free failed while being applied (partially applied tree)",
                            input=variant, witness_class=wc, observed="%s: %s; disk: %s" % (type(e).__name__, e, sorted(os.listdir(d2))))
        finally:
            tt3.finalize()
        if failed_apply is not None:
            continue
        wt3 = wt2.controldir.open_workingtree()
        with wt3.lock_read():
            actual = sorted((p_, e.file_id, e.kind, wt3.get_file_text(p_) if e.kind == "file" and os.path.isfile(os.path.join(d2, p_)) else None)
                            for p_, e in wt3.iter_entries_by_dir() if p_)
        if actual != expected:
            verdict(True, "the applied tree differs from the preview", input=variant, observed=str(actual), expected=str(expected))
    verdict(False, "no failing scenario")
finally:
    shutil.rmtree(base, ignore_errors=True)
