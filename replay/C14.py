"""Replay for C14: resolve_conflicts / _check_malformed on real transforms; apply refuses a malformed transform before touching the tree."""
import os, shutil, tempfile
from _common import request, verdict
import breezy.bzr  # noqa
from breezy import controldir, transform as T, errors
from breezy.transform import MalformedTransform

req = request()
base = tempfile.mkdtemp(prefix="c14_")
try:
    d = os.path.join(base, "t"); os.mkdir(d)
    cd = controldir.format_registry.make_controldir("2a").initialize(d); cd.create_repository(); cd.create_branch(); wt = cd.create_workingtree()
    open(os.path.join(d, "a"), "w").write("A\n"); wt.add(["a"]); wt.commit("1", committer="t <t@e.x>")
    # a transform with a duplicate name: malformed until resolved
    tt = wt.transform()
    try:
        tt.new_file("dup", tt.root, [b"1\n"], b"id-1")
        tt.new_file("dup", tt.root, [b"2\n"], b"id-2")
        before = sorted(os.listdir(d))
        try:
            tt.apply()
            verdict(True, "a transform with raw conflicts was applied")
        except MalformedTransform:
            pass
        if sorted(os.listdir(d)) != before:
            verdict(True, "a refused (malformed) transform changed the tree", observed=str(sorted(os.listdir(d))))
        T.resolve_conflicts(tt)
        if tt.find_raw_conflicts():
            verdict(True, "resolve_conflicts returned although raw conflicts remain", observed=str(tt.find_raw_conflicts()))
    finally:
        tt.finalize()
    # a pass function that never resolves anything: must end with MalformedTransform, not return
    tt2 = wt.transform()
    try:
        tt2.new_file("dup2", tt2.root, [b"1\n"], b"id-3")
        tt2.new_file("dup2", tt2.root, [b"2\n"], b"id-4")
        try:
            T.resolve_conflicts(tt2, pass_func=lambda t, c: set())
            verdict(True, "resolve_conflicts returned with unresolved raw conflicts (useless pass function)")
        except MalformedTransform:
            pass
    finally:
        tt2.finalize()
    verdict(False, "no failing scenario")
finally:
    shutil.rmtree(base, ignore_errors=True)
