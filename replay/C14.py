"""Replay for C14: resolve_conflicts / _check_malformed on real transforms; apply refuses a malformed transform before touching the tree."""
import os, shutil, tempfile
from _common import request, verdict, is_known
import breezy.bzr  # noqa
from breezy import controldir, transform as T, errors
from breezy.transform import MalformedTransform

req = request()
base = tempfile.mkdtemp(prefix="c14_")
try:
    d = os.path.join(base, "t"); os.mkdir(d)
    cd = controldir.format_registry.make_controldir("2a").initialize(d); cd.create_repository(); cd.create_branch(); wt = cd.create_workingtree()
    open(os.path.join(d, "a"), "w").write("A\n"); wt.add(["a"]); wt.commit("1", committer="t <t@e.x>")
    # a transform with a duplicate name: malformed until resolved
    tt = wt.transform()
    try:
        tt.new_file("dup", tt.root, [b"1\n"], b"id-1")
        tt.new_file("dup", tt.root, [b"2\n"], b"id-2")
        before = sorted(os.listdir(d))
        try:
            tt.apply()
            verdict(True, "a transform with raw conflicts was applied")
        except MalformedTransform:
            pass
        if sorted(os.listdir(d)) != before:
            verdict(True, "a refused (malformed) transform changed the tree", observed=str(sorted(os.listdir(d))))
        T.resolve_conflicts(tt)
        if tt.find_raw_conflicts():
            verdict(True, "resolve_conflicts returned although raw conflicts remain", observed=str(tt.find_raw_conflicts()))
    finally:
        tt.finalize()
    # a pass function that never resolves anything: must end with MalformedTransform, not return
    tt2 = wt.transform()
    try:
        tt2.new_file("dup2", tt2.root, [b"1\n"], b"id-3")
        tt2.new_file("dup2", tt2.root, [b"2\n"], b"id-4")
        try:
            T.resolve_conflicts(tt2, pass_func=lambda t, c: set())
            verdict(True, "resolve_conflicts returned with unresolved raw conflicts (useless pass function)")
        except MalformedTransform:
            pass
    finally:
        tt2.finalize()
    # preview == applied for transforms that put a new entry on the name of an entry that is still versioned but has no content
    # (its file was deleted by the user, or by the transform itself): the duplicate must be found and resolved, and the resolved
    # transform must apply completely and give exactly what the preview shows
    for variant in ("missing on disk", "content deleted by the transform"):
        d2 = os.path.join(base, "v_" + variant.split()[0]); os.mkdir(d2)
        cd2 = controldir.format_registry.make_controldir("2a").initialize(d2); cd2.create_repository(); cd2.create_branch()
        wt2 = cd2.create_workingtree()
        open(os.path.join(d2, "a"), "w").write("old a\n"); open(os.path.join(d2, "b"), "w").write("b\n")
        wt2.add(["a", "b"], ids=[b"a-id", b"b-id"]); wt2.commit("1", committer="t <t@e.x>")
        if variant == "missing on disk":
            os.unlink(os.path.join(d2, "a"))
        tt3 = wt2.transform()
        try:
            if variant != "missing on disk":
                tt3.delete_contents(tt3.trans_id_tree_path("a"))
            tt3.new_file("a", tt3.root, [b"brand new a\n"], b"a2-id")
            T.resolve_conflicts(tt3)
            pv = tt3.get_preview_tree()
            expected = sorted((p_, e.file_id, e.kind, pv.get_file_text(p_) if e.kind == "file" and pv.has_filename(p_) and pv.kind(p_) == "file" else None)
                              for p_, e in pv.iter_entries_by_dir() if p_)
            paths = [x[0] for x in expected]
            if len(set(paths)) != len(paths):
                verdict(True, "after resolve_conflicts the preview still has two versioned entries at one path", input=variant, observed=str(expected))
            failed_apply = None
            try:
                tt3.apply(no_conflicts=True)
            except Exception as e:  # noqa
                failed_apply = e
                wc = "new entry on the name of a versioned entry that is missing from disk and unknown to the transform"
                if True:      # (was finding F17, fixed in /repo by afb756b: reported again if it returns)
                    verdict(True, "a transform that resolve_conflicts declared conflict-free failed while being applied (partially applied tree)",
                            input=variant, witness_class=wc, observed="%s: %s; disk: %s" % (type(e).__name__, e, sorted(os.listdir(d2))))
        finally:
            tt3.finalize()
        if failed_apply is not None:
            continue
        wt3 = wt2.controldir.open_workingtree()
        with wt3.lock_read():
            actual = sorted((p_, e.file_id, e.kind, wt3.get_file_text(p_) if e.kind == "file" and os.path.isfile(os.path.join(d2, p_)) else None)
                            for p_, e in wt3.iter_entries_by_dir() if p_)
        if actual != expected:
            verdict(True, "the applied tree differs from the preview", input=variant, observed=str(actual), expected=str(expected))
    # every combination of up to three transform operations from a fixed menu on a small tree: after resolve_conflicts the transform either
    # is refused as malformed (tree untouched) or applies completely, and the applied tree equals the preview (paths, ids, kinds, texts,
    # executable bits)
    import itertools as _it, stat as _stat

    def tree_state(t, root=None):
        out = []
        with t.lock_read():
            for p_, e_ in t.iter_entries_by_dir():
                if not p_:
                    continue
                text = ex = None
                if e_.kind == "file":
                    try:
                        text = t.get_file_text(p_)
                        ex = bool(t.is_executable(p_))
                    except Exception:  # noqa  (versioned but no content: missing file)
                        text = ex = None
                out.append((p_, e_.file_id, e_.kind, text, ex))
        return sorted(out)

    def op_rename_a(tt): tt.adjust_path("x", tt.root, tt.trans_id_tree_path("a"))
    def op_move_b_into_d(tt): tt.adjust_path("b", tt.trans_id_tree_path("d"), tt.trans_id_tree_path("b"))
    def op_delete_a(tt):
        t_ = tt.trans_id_tree_path("a"); tt.delete_contents(t_); tt.unversion_file(t_)
    def op_delete_contents_of_a_only(tt): tt.delete_contents(tt.trans_id_tree_path("a"))
    def op_new_file_named_a(tt): tt.new_file("a", tt.root, [b"new a\n"], b"a2-id")
    def op_new_file_n(tt): tt.new_file("n", tt.root, [b"n\n"], b"n-id")
    def op_exec_b(tt): tt.set_executability(True, tt.trans_id_tree_path("b"))
    def op_rename_d(tt): tt.adjust_path("e", tt.root, tt.trans_id_tree_path("d"))
    def op_delete_d(tt):
        t_ = tt.trans_id_tree_path("d"); tt.delete_contents(t_); tt.unversion_file(t_)
    def op_replace_b(tt):
        t_ = tt.trans_id_tree_path("b"); tt.delete_contents(t_); tt.create_file([b"b2\n"], t_)
    def op_new_dir_in_d(tt): tt.new_directory("sub", tt.trans_id_tree_path("d"), b"sub-id")
    def op_unversion_b(tt): tt.unversion_file(tt.trans_id_tree_path("b"))
    def op_new_file_in_d_named_c(tt): tt.new_file("c", tt.trans_id_tree_path("d"), [b"new c\n"], b"c2-id")
    menu = [op_rename_a, op_move_b_into_d, op_delete_a, op_delete_contents_of_a_only, op_new_file_named_a, op_new_file_n, op_exec_b, op_rename_d,
            op_delete_d, op_replace_b, op_new_dir_in_d, op_unversion_b, op_new_file_in_d_named_c]
    n_tr = 0
    max_ops = 2 if req.get("tier", "quick") == "quick" else 3
    for k_ in range(1, max_ops + 1):
        for ops in _it.combinations(menu, k_):
            n_tr += 1
            dd = os.path.join(base, "m%d" % n_tr); os.mkdir(dd)
            cdd = controldir.format_registry.make_controldir("2a").initialize(dd); cdd.create_repository(); cdd.create_branch()
            wtd = cdd.create_workingtree()
            os.mkdir(os.path.join(dd, "d"))
            for f_, c_ in (("a", "a\n"), ("b", "b\n"), ("d/c", "c\n")):
                open(os.path.join(dd, f_), "w").write(c_)
            wtd.add(["a", "b", "d", "d/c"], ids=[b"a-id", b"b-id", b"d-id", b"c-id"]); wtd.commit("1", committer="t <t@e.x>")
            before = tree_state(wtd)
            names = [o_.__name__[3:] for o_ in ops]
            ttm = wtd.transform()
            applied = False
            try:
                try:
                    for o_ in ops:
                        o_(ttm)
                    T.resolve_conflicts(ttm)
                except MalformedTransform:
                    ttm.finalize()
                    if tree_state(wtd.controldir.open_workingtree()) != before:
                        verdict(True, "a transform refused as malformed changed the tree", input=names)
                    shutil.rmtree(dd, ignore_errors=True)
                    continue
                except Exception:  # noqa  (misuse of the transform API by this menu: not a case of the statement)
                    ttm.finalize()
                    shutil.rmtree(dd, ignore_errors=True)
                    continue
                pv = ttm.get_preview_tree()
                expected = tree_state(pv)
                try:
                    ttm.apply(no_conflicts=True)
                    applied = True
                except Exception as e:  # noqa
                    verdict(True, "a transform that resolve_conflicts declared conflict-free failed while being applied",
                            input=names, observed="%s: %s" % (type(e).__name__, str(e)[:200]))
            finally:
                if not applied:
                    try:
                        ttm.finalize()
                    except Exception:  # noqa
                        pass
            actual = tree_state(wtd.controldir.open_workingtree())
            if actual != expected:
                verdict(True, "the applied tree differs from the preview", input=names, observed=str(actual), expected=str(expected))
            shutil.rmtree(dd, ignore_errors=True)
    verdict(False, "no failing scenario (%d transforms from the operation menu)" % n_tr)
finally:
    shutil.rmtree(base, ignore_errors=True)
