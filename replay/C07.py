"""Replay for C07: run the real planner on the solver's input, then on an enumeration of small inputs."""
import itertools, re
from _common import request, verdict
from breezy.bzr.pack_repo import RepositoryPackCollection as RPC

req = request()
model = req.get("model") or {}


def check(counts, dist):
    packs = [(c, "p%d" % i) for i, c in enumerate(counts)]
    n0, L = len(packs), len(dist)
    cnt = dict((p, c) for c, p in packs)
    try:
        res = RPC.plan_autopack_combinations(None, list(packs), list(dist))
    except Exception as e:  # noqa
        return "raised %r" % e
    if n0 <= L:
        return None if res == [] else "planned %r although within bound" % (res,)
    if len(res) != 1:
        return "expected exactly one operation, got %r" % (res,)
    c, ps = res[0]
    if len(ps) < 2:
        return "operation combines %d packs" % len(ps)
    if c != sum(cnt[p] for p in ps):
        return "count %d is not the sum of its packs" % c
    if len(set(ps)) != len(ps) or any(p not in cnt for p in ps):
        return "packs not a sub-multiset of the input"
    if n0 - len(ps) + 1 > L:
        return "%d packs remain, bound %d" % (n0 - len(ps) + 1, L)
    return None


def from_model():
    ep = dist = None
    for k, v in model.items():
        if k.startswith("existing_packs!"):
            ep = [int(x) for x in re.findall(r"mk\((-?\d+)", str(v))]
        if k.startswith("pack_distribution!"):
            dist = [int(x) for x in re.findall(r"-?\d+", str(v))]
    return ep, dist


ep, dist = from_model()
if ep and dist and all(c >= 1 for c in ep) and all(d >= 1 for d in dist) and sum(ep) == sum(dist):
    why = check(ep, dist)
    if why:
        verdict(True, why, input={"counts": ep, "distribution": dist}, source="solver model")
# bounded search on the real call-site inputs and on arbitrary distributions with the same total
tried = 0
for n in range(1, 8):
    for counts in itertools.combinations_with_replacement(range(1, 12), n):
        total = sum(counts)
        dists = [RPC.pack_distribution(None, total)]
        if total <= 8:
            dists += [list(p) for k in range(1, total + 1) for p in itertools.combinations_with_replacement(range(1, total + 1), k) if sum(p) == total]
        for d in dists:
            tried += 1
            why = check(list(counts), list(d))
            if why:
                verdict(True, why, input={"counts": list(counts), "distribution": list(d)}, source="enumeration", tried=tried)
verdict(False, "no failing input among %d enumerated inputs" % tried)
