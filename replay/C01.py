"""Replay for C01: an exception injected at the steps of the commit pipeline on a real tree; the selection filters on real objects.

A commit that raises must leave the branch tip and the set of revisions visible in the repository unchanged."""
import os, shutil, tempfile
from _common import request, verdict, is_known
import breezy.bzr  # noqa
from breezy import controldir, commit as C, branch as B
from breezy.tree import TreeChange

req = request()
base = tempfile.mkdtemp(prefix="c01_")
fmt = controldir.format_registry.make_controldir("2a")


def new_tree(name):
    d = os.path.join(base, name); os.mkdir(d)
    cd = fmt.initialize(d); cd.create_repository(); cd.create_branch()
    wt = cd.create_workingtree()
    open(os.path.join(d, "f"), "w").write("1\n"); wt.add(["f"]); wt.commit("one", committer="t <t@e.x>")
    return d, wt


class Boom(Exception):
    pass


def visible(wt):
    r = wt.branch.repository
    with r.lock_read():
        return sorted(r.all_revision_ids())


def attempt(name, patch):
    """patch(wt) installs a fault and returns an undo callable; -> (raised, before, after)"""
    d, wt = new_tree(name)
    open(os.path.join(d, "f"), "a").write("2\n")
    before = (wt.branch.last_revision_info(), visible(wt))
    undo = patch(wt)
    raised = None
    try:
        wt.commit("two", committer="t <t@e.x>")
    except Boom as e:
        raised = e
    finally:
        undo()
    wt2 = wt.controldir.open_workingtree()
    return raised, before, (wt2.branch.last_revision_info(), visible(wt2))


def patch_attr(obj, name, fn):
    orig = getattr(obj, name)
    setattr(obj, name, fn)
    return lambda: setattr(obj, name, orig)


def raising(*a, **k):
    raise Boom("injected")


tried = 0
try:
    # faults BEFORE the revision is committed: nothing may change
    for label, patch in (
        ("_update_builder_with_changes", lambda wt: patch_attr(C.Commit, "_update_builder_with_changes", raising)),
        ("_check_pointless", lambda wt: patch_attr(C.Commit, "_check_pointless", raising)),
        ("finish_inventory", lambda wt: patch_attr(type(wt.branch.repository._commit_builder_class) is type and wt.branch.repository._commit_builder_class,
                                                   "finish_inventory", raising)),
    ):
        tried += 1
        raised, before, after = attempt("pre_%d" % tried, patch)
        if raised is None:
            verdict(True, "an injected fault in %s was swallowed" % label)
        if before != after:
            verdict(True, "a commit that raised in %s changed the tip or the visible revisions" % label, observed=str(after), expected=str(before))
    # faults AFTER builder.commit (finding F1 on the unchanged tree)
    def failing_hook(wt):
        B.Branch.hooks.install_named_hook("pre_commit", raising, "boom")
        return lambda: B.Branch.hooks.uninstall_named_hook("pre_commit", "boom")
    for label, patch in (
        ("pre_commit hook (inside _update_branches)", failing_hook),
        ("work_tree.update_basis_by_delta", lambda wt: patch_attr(type(wt), "update_basis_by_delta", raising)),
    ):
        tried += 1
        raised, before, after = attempt("post_%d" % tried, patch)
        if raised is None:
            verdict(True, "an injected fault in %s was swallowed" % label)
        if before != after:
            wc = ("exception raised after builder.commit() returned (pre_commit hook veto or master update in _update_branches; "
                  "working-tree update; post_commit hooks)")
            if not is_known(wc):
                verdict(True, "commit() raised (%s) but the new revision is visible in the repository%s" % (
                    label, "" if before[0] == after[0] else " and the tip moved"), witness_class=wc,
                    observed=str(after), expected=str(before))
    # selection filters
    def ch(old, new, v=(True, True), kind=("file", "file")):
        return TreeChange((old, new), True, v, (old, new), kind, (False, False))
    changes = [ch("a", "a"), ch("x/b", "x/b"), ch("x/c", "y/c"), ch(None, "x"), ch("z", None), ch("xx", "xx")]
    got = [c.path for c in C.filter_excluded(iter(changes), ["x"])]
    exp = [("a", "a"), ("z", None), ("xx", "xx")]
    tried += 1
    if got != exp:
        verdict(True, "filter_excluded did not keep exactly the changes outside the excluded path", observed=str(got), expected=str(exp))
    # the selection on real trees: with pending changes in the tree, every way of selecting paths (including the EMPTY selection, which
    # means "no files at all") records the selected paths and nothing else, and leaves the rest pending
    import itertools as _it
    for sel in ([], ["p1"], ["p2", "d/p3"], None):
        tried += 1
        ds = os.path.join(base, "sel_%d" % tried); os.mkdir(ds)
        cds = controldir.format_registry.make_controldir("2a").initialize(ds); cds.create_repository(); cds.create_branch()
        wts = cds.create_workingtree()
        os.mkdir(os.path.join(ds, "d"))
        for n_ in ("p1", "p2", "d/p3"):
            open(os.path.join(ds, n_), "w").write("one\n")
        wts.add(["p1", "p2", "d", "d/p3"]); wts.commit("1", committer="t <t@e.x>")
        for n_ in ("p1", "p2", "d/p3"):
            open(os.path.join(ds, n_), "w").write("two\n")
        try:
            wts.commit("2", specific_files=sel, allow_pointless=True, committer="t <t@e.x>")
        except Exception as e:  # noqa
            verdict(True, "commit with a selection failed", input=str(sel), observed="%s: %s" % (type(e).__name__, e))
        tree = wts.branch.basis_tree()
        with tree.lock_read():
            committed = sorted(n_ for n_ in ("p1", "p2", "d/p3") if tree.get_file_text(n_) == b"two\n")
        want = sorted(["p1", "p2", "d/p3"] if sel is None else sel)
        wts2 = wts.controldir.open_workingtree()
        with wts2.lock_read():
            pending = sorted(ch_.path[1] for ch_ in wts2.iter_changes(wts2.basis_tree()))
        if committed != want or pending != sorted(set(["p1", "p2", "d/p3"]) - set(want)):
            verdict(True, "a commit recorded other paths than the selected ones (or did not leave the rest pending)",
                    input=dict(specific_files=sel), observed="committed %s, still pending %s" % (committed, pending), expected="committed %s" % want)
    verdict(False, "no failing scenario among %d" % tried)
finally:
    shutil.rmtree(base, ignore_errors=True)
