"""Replay for C20: select_conflicts on real conflict lists, all small selections."""
import itertools, os
from _common import request, verdict
import breezy.bzr  # noqa
from breezy.bzr import conflicts as bc
from breezy import conflicts as gc

req = request()


class FakeTree:
    def __init__(self, ids):
        self._ids = ids

    def path2id(self, p):
        return self._ids.get(p)

    def abspath(self, p):
        return "/nonexistent/" + p


paths = ["a", "d", "d/x", "e"]
cons = [bc.TextConflict("a", file_id=b"ida"), bc.ContentsConflict("d/x", file_id=b"idx"),
        bc.PathConflict("e", "e2", file_id=b"ide"), bc.DuplicateEntry("dup", "d/x.moved", "d/x", file_id=b"idm", conflict_file_id=b"idx"),
        bc.TextConflict("q", file_id=b"idq")]
ids = {"a": b"ida", "d/x": b"idx", "e": b"ide", "q": b"idq"}
tried = 0
import io, contextlib
for k in range(0, 4):
    for sel in itertools.combinations(paths + ["q", "e2"], k):
        for recurse in (False, True):
            tried += 1
            cl = bc.ConflictList(cons)
            with contextlib.redirect_stdout(io.StringIO()):
                rest, chosen = cl.select_conflicts(FakeTree(ids), list(sel), ignore_misses=True, recurse=recurse)
            S = set(sel)
            def hit(p):
                return p is not None and (p in S or (recurse and any(p == d or p.startswith(d + "/") for d in S)))
            def idhit(f):
                return f is not None and any(ids.get(p) == f for p in S)
            exp_sel = [c for c in cons if hit(getattr(c, "path", None)) or hit(getattr(c, "conflict_path", None))
                       or idhit(getattr(c, "file_id", None)) or idhit(getattr(c, "conflict_file_id", None))]
            exp_rest = [c for c in cons if c not in exp_sel]
            if list(chosen) != exp_sel or list(rest) != exp_rest:
                verdict(True, "select_conflicts is not the order-preserving partition by path / file id",
                        input=dict(paths=list(sel), recurse=recurse), observed=[repr(list(chosen)), repr(list(rest))], expected=[repr(exp_sel), repr(exp_rest)])

# persistence: whatever list is stored is read back field by field after re-opening the tree, also when it replaces a list that
# differs from it in a single field
import shutil, tempfile
from breezy import controldir
base = tempfile.mkdtemp(prefix="c20_")
try:
    fmt = controldir.format_registry.make_controldir("2a")
    cd = fmt.initialize(base); cd.create_repository(); cd.create_branch(); wt = cd.create_workingtree()

    def fields(c):
        return tuple((k, getattr(c, k, None)) for k in ("typestring", "path", "file_id", "conflict_path", "conflict_file_id", "action"))
    variants = [
        [bc.PathConflict("e", "e2", file_id=b"ide"), bc.ContentsConflict("k", file_id=b"idk")],
        [bc.PathConflict("e", "e3", file_id=b"ide"), bc.ContentsConflict("k", file_id=b"idk")],       # only conflict_path differs
        [bc.PathConflict("e", "e3", file_id=b"ide"), bc.ContentsConflict("k", file_id=b"idk2")],      # only a file id differs
        [bc.DuplicateEntry("dup", "d/x.moved", "d/x", file_id=b"idm", conflict_file_id=b"idx")],
        [bc.DuplicateEntry("dup", "d/x.moved", "d/x", file_id=b"idm", conflict_file_id=b"idy")],      # only conflict_file_id differs
        [bc.DuplicateEntry("dup", "d/x.moved", "d/y", file_id=b"idm", conflict_file_id=b"idy")],
        [],
        [bc.TextConflict("a\u00e5", file_id=b"ida")],
    ]
    for first in variants:
        for second in variants:
            tried += 1
            wt.set_conflicts(bc.ConflictList(first))
            wt.set_conflicts(bc.ConflictList(second))
            back = wt.controldir.open_workingtree().conflicts()
            if [fields(c) for c in back] != [fields(c) for c in second]:
                verdict(True, "a stored conflict list is not read back identically after it replaced a similar list",
                        input=dict(first=[repr(c) for c in first], second=[repr(c) for c in second]),
                        observed=[fields(c) for c in back], expected=[fields(c) for c in second])
    # merge hashes: stored for several files, read back after re-opening; then one recorded file is unversioned / changed: the records
    # of the OTHER files (still versioned, text unchanged) must still be read back, whichever position the stale record has
    import itertools as _it
    d3 = os.path.join(base, "mh"); os.mkdir(d3)
    cd3 = controldir.format_registry.make_controldir("2a").initialize(d3); cd3.create_repository(); cd3.create_branch()
    wt3 = cd3.create_workingtree()
    names = ["m1", "m\u00e5", "m3"]
    for n_ in names:
        open(os.path.join(d3, n_), "w").write(n_ + "\n")
    wt3.add(names); wt3.commit("1", committer="t <t@e.x>")
    with wt3.lock_read():
        full = dict((n_, wt3.get_file_sha1(n_)) for n_ in names)
    for order in _it.permutations(names):
        for stale in names:
            for how in ("unversion", "edit"):
                tried += 1
                wt3 = wt3.controldir.open_workingtree()
                wt3.revert(backups=False)
                wt3.set_merge_modified(dict((n_, full[n_]) for n_ in order))
                back = wt3.controldir.open_workingtree().merge_modified()
                if back != full:
                    verdict(True, "merge hashes are not read back identically after re-opening", input=list(order), observed=str(back), expected=str(full))
                if how == "unversion":
                    wt3.remove([stale], keep_files=True)
                else:
                    open(os.path.join(d3, stale), "w").write("edited\n")
                got = wt3.controldir.open_workingtree().merge_modified()
                want = dict((n_, h_) for n_, h_ in full.items() if n_ != stale)
                if got != want:
                    verdict(True, "the merge hashes of still-versioned, unchanged files were lost (or a stale one kept) after one recorded file was %s"
                            % ("unversioned" if how == "unversion" else "edited"),
                            input=dict(recorded_in_order=list(order), stale=stale), observed=str(sorted(got)), expected=str(sorted(want)))
finally:
    shutil.rmtree(base, ignore_errors=True)
verdict(False, "no failing input among %d" % tried)
