"""Replay for C17 on real trees: the merge laws for names/parents and executable bits on whole-tree merges of small histories."""
import os, shutil, stat, tempfile, itertools
from _common import request, verdict
import breezy.bzr  # noqa
from breezy import controldir

req = request()
base = tempfile.mkdtemp(prefix="c17_")
fmt = controldir.format_registry.make_controldir("2a")


def apply(d, wt, change):
    if change == "rename":
        wt.rename_one("f", "g")
    elif change == "move":
        wt.rename_one("f", "dir/f")
    elif change == "exec":
        os.chmod(os.path.join(d, "f"), 0o755)
    elif change == "rename2":
        wt.rename_one("f", "h")
    elif change == "swapdir":
        # same PATH for lib/x afterwards, but its parent directory is a different one (the old lib is now lib_old)
        wt.rename_one("lib", "lib_old")
        os.mkdir(os.path.join(d, "lib")); wt.add(["lib"], ids=[b"lib2-id"])
        wt.rename_one("lib_old/x", "lib/x")
    elif change == "edit":
        open(os.path.join(d, "f"), "w").write("F edited\n")
    elif change == "edit_x":
        open(os.path.join(d, "lib", "x"), "w").write("X edited\n")
    elif change == "delete":
        wt.remove(["f"], keep_files=False)
    elif change == "add":
        open(os.path.join(d, "newfile"), "w").write("N\n"); wt.add(["newfile"], ids=[b"new-id"])
    elif change == "none":
        return
    wt.commit(change, committer="t <t@e.x>", allow_pointless=True)


def state(d, wt):
    out = {}
    with wt.lock_read():
        for p, e in wt.iter_entries_by_dir():
            if e.kind == "file":
                ab = os.path.join(d, p)
                out[e.file_id] = (p, bool(os.stat(ab).st_mode & stat.S_IXUSR), open(ab, "rb").read()) if os.path.isfile(ab) else (p, None, None)
            elif p and e.file_id != b"dir-id":
                out[e.file_id] = (p, None, None)
    return out


tried = 0
try:
    changes = ["none", "rename", "move", "exec", "rename2", "swapdir", "edit", "edit_x", "delete", "add"]
    for tc, oc in itertools.product(changes, repeat=2):
        tried += 1
        d = os.path.join(base, "t%d" % tried); os.mkdir(d)
        cd = fmt.initialize(d); cd.create_repository(); cd.create_branch(); wt = cd.create_workingtree()
        os.mkdir(os.path.join(d, "dir")); open(os.path.join(d, "f"), "w").write("F\n"); wt.add(["dir", "f"], ids=[b"dir-id", b"f-id"])
        os.mkdir(os.path.join(d, "lib")); open(os.path.join(d, "lib", "x"), "w").write("X\n"); wt.add(["lib", "lib/x"], ids=[b"lib-id", b"x-id"])
        wt.commit("base", committer="t <t@e.x>")
        base_state = state(d, wt)
        od = d + "_o"
        other = wt.controldir.sprout(od).open_workingtree()
        apply(od, other, oc); other_state = state(od, other)
        apply(d, wt, tc); this_state = state(d, wt)
        try:
            wt.merge_from_branch(other.branch)
        except Exception as e:  # noqa
            if type(e).__name__ != "PointlessMerge":
                raise
        merged = state(d, wt)
        conflicts = list(wt.conflicts())
        if oc == "none" and (merged != this_state or conflicts):
            verdict(True, "OTHER equal to BASE changed THIS or produced conflicts", input=dict(this=tc, other=oc), observed=str((merged, conflicts)))
        if tc == "none" and (merged != other_state or conflicts):
            verdict(True, "THIS equal to BASE did not become OTHER without conflicts", input=dict(this=tc, other=oc), observed=str((merged, conflicts)))
        if tc == oc and (merged != this_state or conflicts):
            verdict(True, "identical changes on both sides were not a conflict-free no-op", input=dict(this=tc, other=oc), observed=str((merged, conflicts)))
        if {tc, oc} == {"rename", "exec"} or {tc, oc} == {"move", "exec"}:
            exp = ("g" if "rename" in (tc, oc) else "dir/f", True)
            if (merged.get(b"f-id") or (None, None))[:2] != exp or conflicts:
                verdict(True, "disjoint changes (path on one side, executable bit on the other) were not both taken", input=dict(this=tc, other=oc), observed=str((merged, conflicts)))
        if {tc, oc} == {"rename", "rename2"} and not conflicts:
            verdict(True, "different renames on the two sides were merged without reporting a conflict", input=dict(this=tc, other=oc), observed=str(merged))
    verdict(False, "no failing merge among %d" % tried)
finally:
    shutil.rmtree(base, ignore_errors=True)
