"""Replay for C26 on the real LockDir over a MemoryTransport.

Sequential contracts: force_break removes exactly the examined holder's lock, refuses a stale examination with nothing changed,
never breaks its own lock; contention handling steals only from holders known dead and only with locks.steal_dead on.
Two-actor script (the declared rely point): another process releases the lock and a third takes it between force_break's read of
held/info and its rename."""
from _common import request, verdict, is_known
from dromedary.memory import MemoryTransport
from breezy import lockdir as L, errors
from breezy.lockdir import LockDir, LockHeldInfo

req = request()


def fresh():
    t = MemoryTransport()
    LockDir(t, "lock").create()
    return t


def holder_of(t):
    if not t.has("lock/held"):
        return None
    return LockHeldInfo.from_info_file_bytes(t.get_bytes("lock/held/info"))


def listing(t):
    return sorted(t.iter_files_recursive())


# 1. breaks exactly the examined lock; nothing left behind
t = fresh()
a, b = LockDir(t, "lock"), LockDir(t, "lock")
a.attempt_lock()
info_a = b.peek()
res = b.force_break(info_a)
if holder_of(t) is not None or listing(t) != []:
    verdict(True, "force_break with the current holder's info did not remove exactly the lock", observed=listing(t))
if res is None:
    verdict(True, "force_break broke a lock but reported nothing")

# 2. stale examination: refused, nothing changed
t = fresh()
a, b, c = LockDir(t, "lock"), LockDir(t, "lock"), LockDir(t, "lock")
a.attempt_lock()
info_a = b.peek()
a.unlock()
c.attempt_lock()
before = listing(t), t.get_bytes("lock/held/info")
try:
    b.force_break(info_a)
    verdict(True, "force_break with a stale examination did not refuse", observed=listing(t))
except errors.LockBreakMismatch:
    pass
if (listing(t), t.get_bytes("lock/held/info")) != before:
    verdict(True, "a refused force_break (stale examination, no interference) changed the lock directory", observed=listing(t))
try:
    c.confirm()
except errors.LockBroken:
    verdict(True, "a refused force_break removed the later holder's lock (no interference)")

# 3. own lock is never broken
t = fresh()
a = LockDir(t, "lock")
a.attempt_lock()
try:
    a.force_break(a.peek())
    verdict(True, "force_break broke the caller's own lock")
except AssertionError:
    pass
if holder_of(t) is None:
    verdict(True, "force_break on the caller's own lock removed it")

# 4. contention: steal only from the dead, only with the policy
class Probe:
    """the examined holder with a scripted liveness answer (LockHeldInfo is a Rust class)"""

    def __init__(self, i, dead):
        self.i, self.dead = i, dead

    def is_lock_holder_known_dead(self):
        return self.dead

    def __str__(self):
        return str(self.i)


for dead in (False, True):
    for policy in (False, True):
        t = fresh()
        a, b = LockDir(t, "lock"), LockDir(t, "lock")
        a.attempt_lock()
        other = b.peek()

        class Cfg:
            def get(self, name):
                return policy if name == "locks.steal_dead" else None
        b.get_config = lambda: Cfg()
        real_fb = b.force_break
        b.force_break = lambda info: real_fb(info.i if isinstance(info, Probe) else info)
        raised = None
        try:
            b._handle_lock_contention(Probe(other, dead))
        except errors.LockContention as e:
            raised = e
        stolen = holder_of(t) is None
        if stolen and not (dead and policy):
            verdict(True, "lock stolen although holder dead=%s policy=%s" % (dead, policy))
        if raised is None and not (dead and policy):
            verdict(True, "contention handler returned (retry) although holder dead=%s policy=%s" % (dead, policy))
        if dead and policy and not stolen:
            verdict(True, "dead holder with steal_dead on was not stolen from")

# 4b. stealing never takes the lock of a later, live holder: the examined (dead) holder is replaced before the break starts
t = fresh()
a, b, c = LockDir(t, "lock"), LockDir(t, "lock"), LockDir(t, "lock")
a.attempt_lock()
examined = b.peek()


class DeadThenReplaced(Probe):
    def is_lock_holder_known_dead(self):
        a.unlock()
        c.attempt_lock()        # a later holder, alive
        return True


class CfgOn:
    def get(self, name):
        return True if name == "locks.steal_dead" else None


b.get_config = lambda: CfgOn()
real_fb2 = b.force_break
b.force_break = lambda info: real_fb2(info.i if isinstance(info, Probe) else info)
try:
    b._handle_lock_contention(DeadThenReplaced(examined, True))
    outcome = "returned (retry)"
except (errors.LockBreakMismatch, errors.LockContention) as e:
    outcome = type(e).__name__
try:
    c.confirm()
except errors.LockBroken:
    verdict(True, "stealing from a dead holder removed the lock of a LATER live holder (the holder found on disk was broken instead of the "
                  "examined one); handler outcome: %s" % outcome,
            input="A dead holds; B examines A; A gone, C (alive) locks; B steals")

# 5. the rely point: a later holder takes the lock between the read and the rename (finding F4 on the unchanged tree)
t = fresh()
a, b, c = LockDir(t, "lock"), LockDir(t, "lock"), LockDir(t, "lock")
a.attempt_lock()
info_a = b.peek()
real_peek = b.peek


def peek_then_others_act():
    r = real_peek()
    a.unlock()
    c.attempt_lock()
    return r


b.peek = peek_then_others_act
outcome = None
try:
    b.force_break(info_a)
    outcome = "returned"
except errors.LockBreakMismatch:
    outcome = "LockBreakMismatch"
later_holder_lost_lock = False
try:
    c.confirm()
except errors.LockBroken:
    later_holder_lost_lock = True
if later_holder_lost_lock:
    wc = "interference between peek and rename in force_break"
    if not is_known(wc):
        verdict(True, "force_break(%s) removed the lock of a later holder that took it between the read and the rename" % outcome,
                witness_class=wc, input="A holds; B examines A; A unlocks; C locks; B renames held away; B re-reads: mismatch")
verdict(False, "sequential force_break/steal contracts hold natively; rely scenario: later holder lost lock=%s (%s)" % (later_holder_lost_lock, outcome))
