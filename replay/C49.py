"""Replay for C49: _iter_for_location_by_parts against the component-wise statement on generated sections and locations."""
import fnmatch, itertools
from _common import request, verdict
from breezy import config

req = request()
comps = ["a", "b", "*", "a*", "proj"]
locs = ["/a", "/a/b", "/a/b/proj", "/proj/a", "/a/", "/"]
secs = []
for k in range(1, 4):
    for t in itertools.product(comps, repeat=k):
        secs.append("/" + "/".join(t))
secs += ["/", "file:///a/b", "file:///a", "/a/b/", "file:///*/b"]
tried = 0
for loc in locs:
    lp = loc.rstrip("/").split("/")
    got = list(config._iter_for_location_by_parts(secs, loc))
    exp = []
    for s in secs:
        p = s[len("file://"):] if s.startswith("file://") else s
        sp = p.rstrip("/").split("/")
        if len(sp) <= len(lp) and all(fnmatch.fnmatch(a, b) for a, b in zip(lp, sp)):
            exp.append((s, "/".join(lp[len(sp):]), len(sp)))
    tried += len(secs)
    if got != exp:
        bad = [x for x in got if x not in exp] + [x for x in exp if x not in got]
        verdict(True, "sections selected for a location are not exactly the component-wise matches with their unmatched tail",
                input=loc, observed=str(bad[:4]))
verdict(False, "no failing input among %d" % tried)
