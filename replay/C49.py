"""Replay for C49: _iter_for_location_by_parts against the component-wise statement on generated sections and locations."""
import fnmatch, itertools
from _common import request, verdict
from breezy import config

req = request()
comps = ["a", "b", "*", "a*", "proj"]
locs = ["/a", "/a/b", "/a/b/proj", "/proj/a", "/a/", "/"]
secs = []
for k in range(1, 4):
    for t in itertools.product(comps, repeat=k):
        secs.append("/" + "/".join(t))
secs += ["/", "file:///a/b", "file:///a", "/a/b/", "file:///*/b"]
tried = 0
for loc in locs:
    lp = loc.rstrip("/").split("/")
    got = list(config._iter_for_location_by_parts(secs, loc))
    exp = []
    for s in secs:
        p = s[len("file://"):] if s.startswith("file://") else s
        sp = p.rstrip("/").split("/")
        if len(sp) <= len(lp) and all(fnmatch.fnmatch(a, b) for a, b in zip(lp, sp)):
            exp.append((s, "/".join(lp[len(sp):]), len(sp)))
    tried += len(secs)
    if got != exp:
        bad = [x for x in got if x not in exp] + [x for x in exp if x not in got]
        verdict(True, "sections selected for a location are not exactly the component-wise matches with their unmatched tail",
                input=loc, observed=str(bad[:4]))
# the matcher: most specific section first, ties between equally deep sections broken by section id (not by file order); ignore_parents stops
import os, tempfile, shutil
home = tempfile.mkdtemp(prefix="c49_")
try:
    os.environ["BRZ_HOME"] = home
    from breezy import bedding
    conf = os.path.join(bedding.config_dir(), "locations.conf")
    os.makedirs(os.path.dirname(conf), exist_ok=True)
    for order in (["/srv/proj/*", "/srv/proj/trunk", "/srv"], ["/srv/proj/trunk", "/srv/proj/*", "/srv"], ["/srv", "/srv/proj/*", "/srv/proj/trunk"]):
        tried += 1
        with open(conf, "w") as f:
            for sec in order:
                f.write("[%s]\nopt = from %s\n" % (sec, sec))
        config._shared_stores.clear()
        got = config.LocationStack("/srv/proj/trunk").get("opt")
        if got != "from /srv/proj/trunk":
            verdict(True, "the value does not come from the most specific section when an equally deep glob section is written first",
                    input=str(order), observed=repr(got), expected="from /srv/proj/trunk")
    with open(conf, "w") as f:
        f.write("[/srv]\nopt = generic\nother = generic\n[/srv/proj]\nignore_parents = true\nopt2 = x\n")
    config._shared_stores.clear()
    tried += 1
    if config.LocationStack("/srv/proj/trunk").get("other") is not None:
        verdict(True, "ignore_parents did not stop the search at the section that sets it")
finally:
    shutil.rmtree(home, ignore_errors=True)
verdict(False, "no failing input among %d" % tried)
