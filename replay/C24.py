"""Replay for C24: _reconcile_tags / InterTags._merge_to on the real code, exhaustively over small dictionaries."""
import itertools
from _common import request, verdict
from breezy.tag import _reconcile_tags, InterTags, MemoryTags

req = request()
names = ["a", "b"]
vals = [None, b"r1", b"r2"]
tried = 0


def expect(src, dst, overwrite, sel):
    res, upd, conf = dict(dst), {}, []
    for n, v in src.items():
        if sel is not None and not sel(n):
            continue
        if n in dst and dst[n] == v:
            continue
        if n not in dst or overwrite:
            res[n] = v; upd[n] = v
        else:
            conf.append((n, v, dst[n]))
    return res, upd, sorted(conf)


for sv in itertools.product(vals, repeat=len(names)):
    for dv in itertools.product(vals, repeat=len(names)):
        src = {n: v for n, v in zip(names, sv) if v is not None}
        dst = {n: v for n, v in zip(names, dv) if v is not None}
        for overwrite in (False, True):
            for sel in (None, lambda n: n == "a", lambda n: False):
                tried += 1
                res, upd, conf = _reconcile_tags(dict(src), dict(dst), overwrite, sel)
                e = expect(src, dst, overwrite, sel)
                if (res, upd, sorted(conf)) != e:
                    verdict(True, "_reconcile_tags differs from the two-way merge of the statement",
                            input=dict(source=str(src), dest=str(dst), overwrite=overwrite, selector=sel and "partial"),
                            observed=str((res, upd, conf)), expected=str(e))
                to = MemoryTags(dict(dst))
                to._set_tag_dict = lambda d, to=to: setattr(to, "_tag_dict", dict(d))
                u2, c2 = InterTags._merge_to(to, dict(src), overwrite, sel)
                if to.get_tag_dict() != e[0] or u2 != e[1] or sorted(c2) != e[2]:
                    verdict(True, "_merge_to did not store the reconciled dictionary",
                            input=dict(source=str(src), dest=str(dst), overwrite=overwrite), observed=str((to.get_tag_dict(), u2, c2)), expected=str(e))
from breezy.bzr.tag import BasicTags
for d in ({}, {"a": b"r1"}, {"v1.0": b"r1", "e\u0301": b"r2"}, {"\u00e9": b"r1", "e\u0301": b"r2"}, {"\u212b": b"r1", "\u1100\u1161": b"r3"},
          {"tag with space": b"r1", "\u00df\u00fc": b"r2", "\U0001F600": b"r3"}):
    tried += 1
    back = BasicTags._deserialize_tag_dict(None, BasicTags._serialize_tag_dict(None, dict(d)))
    if back != d:
        verdict(True, "tag dictionary does not round-trip through the tag file format", input=repr(d), observed=repr(back))
verdict(False, "no failing input among %d enumerated inputs" % tried)
