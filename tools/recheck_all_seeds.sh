#!/bin/sh
# re-apply every stored seeded change to /repo in turn and run its property's check: each must still be reported (exit 1 with VIOLATION)
cd /verif; : > .work/seed_regression.log
for d in seeded/*/; do
  id=$(basename $d); prop=$(python3 -c "import json;print(json.load(open('$d/meta.json'))['property'])")
  patch=/verif/$d/patch.diff
  git -C /repo apply --check $patch 2>/dev/null || { echo "$id $prop PATCH-DOES-NOT-APPLY" >> .work/seed_regression.log; continue; }
  out=$(tools/try_seed.sh $prop $patch 2>&1)
  if echo "$out" | grep -q "^VIOLATION property=$prop"; then
    nf=$(echo "$out" | grep "^VIOLATION" | grep -c "no-failing-input-found"); nv=$(echo "$out" | grep -c "^VIOLATION")
    echo "$id $prop DETECTED violations=$nv without-input=$nf" >> .work/seed_regression.log
  else
    echo "$id $prop MISSED: $(echo "$out" | grep "^$prop:\|UNDECIDED\|ENGINE" | head -2 | tr '\n' ' ')" >> .work/seed_regression.log
  fi
done
echo DONE >> .work/seed_regression.log
