#!/bin/sh
# usage: mkwt.sh <dir>  -- scratch worktree of /repo HEAD with the built extension modules copied in
set -e
git -C /repo worktree add -q "$1" HEAD
cp /repo/breezy/*.so "$1/breezy/"
[ -d /repo/breezy/locale ] && cp -r /repo/breezy/locale "$1/breezy/" || true
echo "$1 ready"
