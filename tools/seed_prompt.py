#!/usr/bin/env python3
"""seed_prompt.py Cxx <worktree> [variant-hint]  -- the prompt given to an independent sub-agent.
It contains only the text of the property and the scratch worktree; nothing from /verif."""
import json, sys
pid, wt = sys.argv[1], sys.argv[2]
hint = sys.argv[3] if len(sys.argv) > 3 else ""
for l in open("/verif/properties.jsonl"):
    d = json.loads(l)
    if d["id"] == pid:
        break
else:
    sys.exit("no such property")
anch = d.get("anchors", {})
mech = "\n".join("  - %s (%s)" % (m.get("name"), m.get("where")) for m in anch.get("mechanism", []))
print(f"""You are helping evaluate a verification effort for the Breezy version control system (Python, with compiled Rust helpers).
Your scratch copy of the repository is the git worktree at {wt} (already created; compiled extension modules are copied in).
Work ONLY inside {wt}. Never touch /repo or /verif, never read /verif. Do NOT use `git stash` (stashes are shared between worktrees).
Run Python as /venv/bin/python with the worktree as the current directory (so `import breezy` picks up the worktree's code); check with
`/venv/bin/python -c "import breezy; print(breezy.__file__)"` run from {wt}.

Here is a semantic property the project is supposed to satisfy:

  Title: {d['title']}
  Statement: {d['statement']}
  Quantified over: {d['quantifier']['text']}
  Where it is implemented (hints):
{mech}
  Files: {', '.join(anch.get('files', []))}

Task: make ONE small, realistic change to the Python source in {wt}/breezy (the kind of slip a maintainer could make in a refactoring or
"optimisation") that BREAKS this property, while the code still imports and the project's existing tests still pass.
The change must need something specific to manifest - a crash or fault at a particular point, a particular interleaving, a multi-step
sequence of operations, an unusual input, or two cooperating sites that each look fine alone - NOT something ordinary use exposes at once.
{hint}
Then write a demonstration program {wt}/demo.py (plain script, run as `/venv/bin/python demo.py` from {wt}) that exits 0 on the ORIGINAL
code and exits non-zero (assertion failure with a clear message) on the CHANGED code, by exercising the real breezy functions
(fault injection by monkey-patching collaborators inside demo.py is fine). Set BRZ_HOME to a temp dir and BRZ_EMAIL in the demo if it
creates branches; use breezy.controldir.format_registry.make_controldir('2a') for bzr formats; clean up temp dirs.

Check yourself:
 1. `git -C {wt} diff` shows only your change under breezy/ (do not edit tests; do not commit).
 2. demo.py exits 0 with the change reverted (use `git -C {wt} diff > {wt}/_x.diff; git -C {wt} apply -R {wt}/_x.diff; ...; git -C {wt} apply {wt}/_x.diff`) and non-zero with it.
 3. The tests most related to the code you touched still pass with the change:
    `/venv/bin/python -m pytest -q -p no:cacheprovider -x -n 4 <relevant test files>` from {wt} (pick the test modules for the files you
    touched, e.g. breezy/tests/test_<module>.py and per-implementation tests that exercise it). If a test fails because of your change,
    choose a subtler change.
When done, write {wt}/patch.diff (output of `git -C {wt} diff -- breezy`) and {wt}/notes.md (what the change is, what it needs in order
to manifest, which tests you ran). Reply with a short summary: files touched, what is needed to manifest, test modules run.
Keep it small: a handful of changed lines at most.""")
