#!/usr/bin/env python3
"""Regenerate the tables of DESIGN.md section 12 (between the BEGIN/END GENERATED markers) from claims.json, known_findings.json,
the seeded/ directory and the committed evidence files."""
import json, os, glob, re
ROOT = os.path.dirname(os.path.dirname(os.path.abspath(__file__)))
claims = json.load(open(os.path.join(ROOT, "tools", "claims.json")))
props = [json.loads(l) for l in open(os.path.join(ROOT, "properties.jsonl"))]
kf = json.load(open(os.path.join(ROOT, "known_findings.json")))
out = []
out.append("| property | level | obligations (quick) | functions under contract | mutants killed / generated (declared equivalent) | known findings | seeded changes (detected?) |")
out.append("|---|---|---|---|---|---|---|")
seeds = {}
for d in sorted(glob.glob(os.path.join(ROOT, "seeded", "*", ""))):
    m = json.load(open(os.path.join(d, "meta.json")))
    seeds.setdefault(m["property"], []).append("%s (%s)" % (m["id"], m["detected"]))
for p in props:
    pid = p["id"]
    c = claims["claimed"].get(pid)
    if c is None:
        out.append("| %s | not applicable | - | - | - | - | - |" % pid)
        continue
    ev = {}
    try:
        ev = json.load(open(os.path.join(ROOT, "evidence", pid + ".json")))
    except Exception:
        pass
    cov = ev.get("coverage", {})
    lvl = c.get("category", "proof")
    if lvl == "exploration":
        ob = "bounded: %s evaluations" % cov.get("evaluations", "?")
        if cov.get("obligations"):
            ob += " + proved conjunct(s): %s / %s obligations discharged" % (cov.get("discharged", "?"), cov.get("obligations", "?"))
    else:
        ob = "%s / %s discharged" % (cov.get("discharged", "?"), cov.get("obligations", "?"))
        if cov.get("evaluations"):
            ob += " + bounded part: %s evaluations" % cov.get("evaluations")
    tg = ", ".join(sorted(set(t["qualname"] for t in cov.get("targets", []))))[:400]
    mu = cov.get("mutants") or {}
    mus = "%s / %s (%s)" % (mu.get("killed", "-"), mu.get("generated", "-"), mu.get("declared_equivalent", "-")) if mu else "-"
    fs = [k["id"] for k in kf["known"] if k["property"] == pid] + ["%s (fixed %s)" % (k["finding"], k["commit"]) for k in kf["fixed"] if k["property"] == pid]
    out.append("| %s | %s | %s | %s | %s | %s | %s |" % (pid, lvl, ob, tg or "-", mus, ", ".join(fs) or "-", "; ".join(seeds.get(pid, [])) or "-"))
table = "\n".join(out)
ft = ["| finding | property | status | what |", "|---|---|---|---|"]
for k in kf["known"]:
    ft.append("| %s | %s | known (recorded, not repaired) | %s |" % (k["id"], k["property"], k["what"].replace("|", "/")))
for k in kf["fixed"]:
    ft.append("| %s | %s | fixed in /repo by %s | %s |" % (k["finding"], k["property"], k["commit"], k["entry"].split(" ", 3)[-1].replace("|", "/")))
ftable = "\n".join(ft)
st = ["| seed | property | needs in order to manifest | detected | by |", "|---|---|---|---|---|"]
for d in sorted(glob.glob(os.path.join(ROOT, "seeded", "*", ""))):
    m = json.load(open(os.path.join(d, "meta.json")))
    st.append("| %s | %s | %s | %s | %s |" % (m["id"], m["property"], m["needs_to_manifest"].replace("|", "/"), m["detected"], m["detected_by"].replace("|", "/")))
stable = "\n".join(st)
p = os.path.join(ROOT, "DESIGN.md")
s = open(p).read()
for name, body in (("PROPERTIES", table), ("FINDINGS", ftable), ("SEEDS", stable)):
    b, e = "<!-- BEGIN GENERATED %s -->" % name, "<!-- END GENERATED %s -->" % name
    if b in s:
        s = s[:s.index(b) + len(b)] + "\n" + body + "\n" + s[s.index(e):]
open(p, "w").write(s)
print("tables regenerated")
