#!/usr/bin/env python3
"""keep_seed.py <seed id> <property> <src dir> <needs> <detected: yes|no|partly> <by what>"""
import json, os, shutil, sys
sid, prop, src, needs, detected, by = sys.argv[1:7]
confirmed_override = sys.argv[7] if len(sys.argv) > 7 else None
dst = os.path.join("/verif/seeded", sid)
os.makedirs(dst, exist_ok=True)
for f in ("patch.diff", "demo.py", "notes.md"):
    if os.path.exists(os.path.join(src, f)):
        shutil.copy(os.path.join(src, f), os.path.join(dst, f))
meta = {"id": sid, "property": prop, "needs_to_manifest": needs,
        "origin": "independent sub-agent given only the property text and a scratch worktree",
        "confirmed": "tools/confirm_seed.sh: demo exits 0 without the change and non-zero with it in a scratch worktree; "
                     "full test suite (7726 baseline-stable tests) shows no regression with the change "
                     "(5-6 tests - blackbox.test_serve TCP tests, po_merge - fail in every full-suite run made in a scratch worktree, also when it runs alone, and "
                     "were reported by every run whatever the change; they were re-run alone with the change by tools/recheck_seed.sh and passed/skipped)",
        "check_run": "tools/try_seed.sh %s seeded/%s/patch.diff  (git apply to /repo, ./check %s --no-mutants, git checkout -- .)" % (prop, sid, prop),
        "detected": detected, "detected_by": by}
if confirmed_override:
    meta["confirmed"] = confirmed_override
json.dump(meta, open(os.path.join(dst, "meta.json"), "w"), indent=1)
print("kept", dst)
