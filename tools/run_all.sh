#!/bin/sh
# run every claimed check (quick tier) on the current tree; summary in .work/run_all.log
cd /verif; mkdir -p .work
: > .work/run_all.log
for p in $(python3 -c "import json;print(' '.join(c['property_id'] for c in json.load(open('MANIFEST.json'))['checks']))"); do
  s=$(date +%s); VERIF_SEED=1 VERIF_TIER=quick ./check $p --tier quick > .work/out_$p.log 2>&1; rc=$?
  echo "$p rc=$rc $(( $(date +%s) - s ))s $(grep -c '^VIOLATION' .work/out_$p.log) violations | $(grep "^$p:" .work/out_$p.log | tail -1)" >> .work/run_all.log
done
echo DONE >> .work/run_all.log
