#!/bin/sh
# usage: recheck_seed.sh <seed-dir> : re-run, alone, the baseline-stable tests that a parallel full-suite confirmation reported as
# regressions (listed in <seed-dir>/../confirm_<name>.log or given via RECHECK_LOG), in a fresh worktree with the change applied.
SEED=$(realpath "$1"); LOG=${RECHECK_LOG:-/tmp/confirm_$(basename $SEED | sed 's/seed_//').log}
WT=/tmp/recheck_$$
/verif/tools/mkwt.sh $WT >/dev/null || exit 9
cd $WT && git apply "$SEED/patch.diff" || exit 8
IDS=$(grep REGRESSION "$LOG" | awk '{print $2}' | python3 -c "
import sys
for l in sys.stdin:
    cls, name = l.strip().split('::')
    mod, c = cls.rsplit('.', 1)
    print(mod.replace('.', '/') + '.py::' + c + '::' + name)")
[ -z "$IDS" ] && { echo "no regressions listed in $LOG"; cd /; git -C /repo worktree remove --force $WT; exit 0; }
/venv/bin/python -m pytest -q -p no:cacheprovider --timeout=900 $IDS 2>&1 | tail -3
RC=$?
cd /; git -C /repo worktree remove --force $WT
