#!/usr/bin/env python3
"""Run (a subset of) the repository's test suite and compare with BASELINE.json stable_pass.
usage: baseline_compare.py [pytest args / paths...]   (no args: whole suite)"""
import json, subprocess, sys, tempfile, os, xml.etree.ElementTree as ET
base = json.load(open("/root/.vp/BASELINE.json"))
stable = set(base["stable_pass"])
out = tempfile.mktemp(suffix=".xml", dir="/tmp")
args = sys.argv[1:]
cmd = ["/venv/bin/python", "-m", "pytest", "-q", "-p", "no:cacheprovider", "--timeout=900", "--continue-on-collection-errors",
       "-n", "14", "--junitxml=" + out] + args
p = subprocess.run(cmd, cwd=os.environ.get("BASELINE_REPO", "/repo"), capture_output=True, text=True)
print(p.stdout.strip().splitlines()[-1] if p.stdout.strip() else p.stderr[-500:])
passed, notpassed = set(), set()
for tc in ET.parse(out).getroot().iter("testcase"):
    name = "%s::%s" % (tc.get("classname"), tc.get("name"))
    if any(ch.tag in ("failure", "error", "skipped") for ch in tc):
        notpassed.add(name)
    else:
        passed.add(name)
os.unlink(out)
ignore = set()
if os.environ.get("BASELINE_IGNORE") and os.path.exists(os.environ["BASELINE_IGNORE"]):
    ignore = set(json.load(open(os.environ["BASELINE_IGNORE"])))
regress = sorted(n for n in notpassed if n in stable and n not in ignore)
if os.environ.get("BASELINE_WRITE_FAILS"):
    json.dump(sorted(n for n in notpassed if n in stable), open(os.environ["BASELINE_WRITE_FAILS"], "w"), indent=0)
seen_stable = len([n for n in passed | notpassed if n in stable])
print("stable tests seen: %d of %d; regressions: %d" % (seen_stable, len(stable), len(regress)))
for r in regress[:30]:
    print("  REGRESSION", r)
sys.exit(1 if regress else 0)
