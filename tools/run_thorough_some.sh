#!/bin/sh
# run the thorough tier of the listed checks (or a default cheap subset); summary in .work/run_thorough.log
cd /verif; mkdir -p .work
LIST=${*:-"C07 C15 C24 C42 C48 C49 C45 C47 C50 C51 C39 C41 C36 C31 C12 C02 C08"}
for p in $LIST; do
  s=$(date +%s); PYVC_EVIDENCE_DIR=/verif/.work/thorough_evidence timeout 3600 ./check $p --tier thorough > .work/outT_$p.log 2>&1; rc=$?
  echo "$p rc=$rc $(( $(date +%s) - s ))s | $(grep "^$p:" .work/outT_$p.log | tail -1)" >> .work/run_thorough.log
done
echo DONE >> .work/run_thorough.log
