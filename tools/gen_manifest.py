#!/usr/bin/env python3
"""Regenerate MANIFEST.json from tools/claims.json (one entry per claimed property)."""
import json
import os

ROOT = os.path.dirname(os.path.dirname(os.path.abspath(__file__)))
claims = json.load(open(os.path.join(ROOT, "tools", "claims.json")))
props = [json.loads(l) for l in open(os.path.join(ROOT, "properties.jsonl"))]
ids = [p["id"] for p in props]

checks, na = [], []
for pid in ids:
    c = claims["claimed"].get(pid)
    if c is None:
        na.append({"property_id": pid, "reason": claims["not_applicable"].get(pid, "machinery for this property is not built yet (see DESIGN.md section 8)")})
        continue
    checks.append({
        "property_id": pid,
        "quick_cmd": "./check %s --tier quick" % pid,
        "thorough_cmd": "./check %s --tier thorough" % pid,
        "evidence_file": "evidence/%s.json" % pid,
        "replay_cmd_template": "./check %s --replay {path}" % pid,
        "engine": "pyvc",
        "level_claimed": {"category": c.get("category", "proof"), "text": c["text"], "design_ref": "DESIGN.md section 8, %s" % pid},
        "level_note": c["note"],
        "technique": c.get("technique", "contract-based deductive verification: VCs generated from the real Python AST, discharged by z3/cvc5"),
    })

manifest = {
    "version": 1,
    "setup_cmd": "./setup.sh",
    "hooks": {"guard": "BREEZY_VERIF", "enable": "none needed: contracts live in sidecar specs, collaborators are faked from the sidecar",
              "baseline_off_cmd": "cd /repo && /venv/bin/python -m pytest -ra -q -p no:cacheprovider --timeout=900 --continue-on-collection-errors",
              "source_commits": claims.get("source_commits", []), "add_only": True},
    "engines": [{"name": "pyvc", "path": "pyvc/", "serves_properties": [c["property_id"] for c in checks],
                 "kind_free_text": "Python AST -> SMT verification-condition generator with sidecar contracts, loop invariants, ghost state; z3 + cvc5 back ends; native replay and bounded stand-ins under /venv/bin/python"}],
    "checks": checks,
    "notes": claims.get("notes", ""),
    "not_applicable": na,
}
json.dump(manifest, open(os.path.join(ROOT, "MANIFEST.json"), "w"), indent=1)
print("claimed %d, not applicable %d" % (len(checks), len(na)))
