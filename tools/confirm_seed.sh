#!/bin/sh
# usage: confirm_seed.sh <seed-dir containing patch.diff and demo.py> [test paths...]
# Confirms in a scratch worktree: demo passes without the change, fails with it, and the baseline-stable tests still pass.
set -u
SEED=$(realpath "$1"); shift
WT=/tmp/confirm_$$
/verif/tools/mkwt.sh $WT >/dev/null || exit 9
cp "$SEED/demo.py" $WT/_demo.py
cd $WT
/venv/bin/python _demo.py >/tmp/confirm_$$.before 2>&1; B=$?
git apply "$SEED/patch.diff" || { echo "PATCH DOES NOT APPLY"; cd /; git -C /repo worktree remove --force $WT; exit 8; }
/venv/bin/python _demo.py >/tmp/confirm_$$.after 2>&1; A=$?
echo "demo exit without change: $B   with change: $A"
tail -3 /tmp/confirm_$$.after
rm -f _demo.py
BASELINE_IGNORE=/verif/tools/wt_env_failures.json BASELINE_REPO=$WT /verif/tools/baseline_compare.py "$@"; T=$?
cd /; git -C /repo worktree remove --force $WT; rm -f /tmp/confirm_$$.before /tmp/confirm_$$.after
[ $B -eq 0 ] && [ $A -ne 0 ] && [ $T -eq 0 ] && echo "CONFIRMED" || echo "NOT CONFIRMED (before=$B after=$A tests=$T)"
