#!/bin/sh
# usage: try_seed.sh <prop> <patch.diff> [extra check args]  -- apply to /repo, run the check, undo straight afterwards
P=$1; PATCH=$(realpath "$2"); shift; shift
git -C /repo apply "$PATCH" || { echo "PATCH DOES NOT APPLY"; exit 8; }
mkdir -p /verif/.work/seed_evidence
cd /verif && PYVC_EVIDENCE_DIR=/verif/.work/seed_evidence ./check $P --no-mutants "$@" 2>&1 | grep -v "^  " | tail -12; RC=$?
git -C /repo checkout -- . 
git -C /repo status --short | grep -v "^?? branch/"
