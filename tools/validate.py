#!/opt/veriftools/pyvenv/bin/python
"""Validate MANIFEST.json and every evidence file against the given schemas; check discharged == obligations for proofs."""
import json, jsonschema, glob, sys
m = json.load(open("/verif/MANIFEST.json"))
jsonschema.validate(m, json.load(open("/root/.vp/MANIFEST.schema.json")))
es = json.load(open("/root/.vp/EVIDENCE.schema.json"))
bad = 0
for c in m["checks"]:
    f = "/verif/" + c["evidence_file"]
    try:
        e = json.load(open(f))
        jsonschema.validate(e, es)
        cov = e.get("coverage", {})
        if e.get("level") == "proof" and cov.get("obligations") != cov.get("discharged"):
            print("MISMATCH", f, cov.get("obligations"), cov.get("discharged")); bad += 1
        if e.get("violations"):
            print("VIOLATIONS in", f); bad += 1
    except Exception as ex:
        print("BAD", f, str(ex)[:300]); bad += 1
print("validated %d checks, %d problems" % (len(m["checks"]), bad))
sys.exit(1 if bad else 0)
