"""Symbolic state, contexts handed to spec lambdas, exception hierarchy."""
import z3
from . import sorts as S
from .sorts import V


class EngineError(Exception):
    """Unsupported construct / spec drift: the check is undecided (exit 2)."""


class SpecDrift(EngineError):
    pass


BUILTIN_EXC_PARENTS = {
    "BaseException": None, "Exception": "BaseException", "KeyboardInterrupt": "BaseException",
    "SystemExit": "BaseException", "GeneratorExit": "BaseException",
    "LookupError": "Exception", "IndexError": "LookupError", "KeyError": "LookupError",
    "ValueError": "Exception", "TypeError": "Exception", "AttributeError": "Exception",
    "AssertionError": "Exception", "ArithmeticError": "Exception", "ZeroDivisionError": "ArithmeticError",
    "RuntimeError": "Exception", "NotImplementedError": "RuntimeError", "OSError": "Exception",
    "IOError": "OSError", "EnvironmentError": "OSError", "FileNotFoundError": "OSError", "FileExistsError": "OSError",
    "PermissionError": "OSError", "StopIteration": "Exception", "UnicodeError": "ValueError",
    "UnicodeDecodeError": "UnicodeError", "UnicodeEncodeError": "UnicodeError", "NameError": "Exception",
    "UnboundLocalError": "NameError", "OverflowError": "ArithmeticError", "RecursionError": "RuntimeError",
}


class ExcHier:
    def __init__(self, extra):
        self.parent = dict(BUILTIN_EXC_PARENTS)
        self.parent.update(extra)

    def is_sub(self, a, b):
        a, b = a.rstrip("*"), b.rstrip("*")
        seen = 0
        while a is not None and seen < 50:
            if a == b:
                return True
            a = self.parent.get(a, "Exception" if a not in ("BaseException",) else None)
            seen += 1
        return False

    def match(self, exc, handler):
        """'yes' | 'no' | 'maybe' : does an exception of class `exc` reach `except handler`?
        A trailing * means 'some unknown subclass of'."""
        if exc.endswith("*"):
            base = exc[:-1]
            if self.is_sub(base, handler):
                return "yes"
            if self.is_sub(handler, base):
                return "maybe"
            return "no"
        return "yes" if self.is_sub(exc, handler) else "no"


class State:
    __slots__ = ("env", "heap", "ghost", "pc", "version", "trace", "meta")

    def __init__(self):
        self.env, self.heap, self.ghost = {}, {}, {}
        self.pc = []
        self.version = 0
        self.trace = ()
        self.meta = {}

    def copy(self):
        n = State()
        n.env, n.heap, n.ghost = dict(self.env), dict(self.heap), dict(self.ghost)
        n.pc = list(self.pc)
        n.version = self.version
        n.trace = self.trace
        n.meta = dict(self.meta)
        return n

    def assume(self, b):
        t = b.t if isinstance(b, V) else b
        if z3.is_true(t):
            return self
        self.pc.append(t)
        return self

    def touch(self):
        self.version += 1


class ObjView:
    """`c.self` in a spec lambda: attribute access reads the heap."""

    def __init__(self, eng, st, ref):
        object.__setattr__(self, "_e", eng)
        object.__setattr__(self, "_st", st)
        object.__setattr__(self, "_ref", ref)

    def __getattr__(self, f):
        v = self._e.read_field(self._st, self._ref, f, create=True)
        if isinstance(v.s, S.Obj):
            return ObjView(self._e, self._st, v)
        return v

    def __eq__(self, other):
        """Field-wise equality of the declared fields (used for `s == old`)."""
        if not isinstance(other, ObjView):
            return NotImplemented
        decl = self._e.spec.classes.get(self._ref.s.cls)
        parts = []
        for f, so in decl.fields.items():
            a, b = getattr(self, f), getattr(other, f)
            if isinstance(a, ObjView):
                parts.append(a == b)
            else:
                parts.append(S.eq(a, b))
        return S.And(*parts)

    __hash__ = None


class GhostView:
    def __init__(self, st):
        object.__setattr__(self, "_st", st)

    def __getattr__(self, n):
        try:
            return self._st.ghost[n]
        except KeyError:
            raise EngineError("spec refers to undeclared ghost variable %r" % n)

    def __eq__(self, other):
        return S.And(*[S.eq(v, other._st.ghost[k]) for k, v in self._st.ghost.items()])

    __hash__ = None


class Ctx:
    """Argument of every spec lambda.

    c.<name>      local variable or parameter in the current state
    c.self.<f>    field of the receiver;  c.g.<x> ghost variable
    c.old         Ctx of the pre-state (function entry / call entry)
    c.pre         Ctx of the state at loop entry (loop invariants only)
    c.result      return value;  c.args / c.kw at call sites
    c.trace       tuple of (label, line) effect calls executed on this path (Python side)
    """

    def __init__(self, eng, st, old=None, result=None, args=None, kw=None, pre=None, recv=None, exc=None, extra=None):
        d = object.__setattr__
        d(self, "_e", eng), d(self, "_st", st), d(self, "_old", old), d(self, "result", result)
        d(self, "args", args or []), d(self, "kw", kw or {}), d(self, "_pre", pre), d(self, "_recv", recv)
        d(self, "exc", exc), d(self, "_extra", extra or {}), d(self, "arg_text", [])

    @property
    def old(self):
        if self._old is None:
            raise EngineError("no old state in this context")
        cx = Ctx(self._e, self._old, recv=self._recv, args=self.args, kw=self.kw, extra=self._extra)
        object.__setattr__(cx, "arg_text", self.arg_text)
        return cx

    @property
    def pre(self):
        if self._pre is None:
            raise EngineError("no loop-entry state in this context")
        return Ctx(self._e, self._pre, recv=self._recv, extra=self._extra)

    @property
    def g(self):
        return GhostView(self._st)

    @property
    def trace(self):
        return self._st.trace

    def labels(self):
        return [t[0] for t in self._st.trace]

    def calls(self, label, failed=None):
        """Number of calls to a contract label on this path (python int). failed: None both, True only raising, False only normal."""
        n = 0
        for l, _ in self._st.trace:
            if l == label and failed in (None, False):
                n += 1
            elif l == label + "!raise" and failed in (None, True):
                n += 1
        return n

    def calls_in_iteration(self, label, failed=None):
        """Like calls(), counting only what happened since the innermost loop head on this path."""
        tr = list(self._st.trace)
        idx = max([i for i, (l, _) in enumerate(tr) if l == "loop*"] or [-1])
        n = 0
        for l, _ in tr[idx + 1:]:
            if l == label and failed in (None, False):
                n += 1
            elif l == label + "!raise" and failed in (None, True):
                n += 1
        return n

    def before(self, a, b):
        """Every call labelled `a` on this path happens before every call labelled `b` (python bool)."""
        ia = [i for i, (l, _) in enumerate(self._st.trace) if l in (a, a + "!raise")]
        ib = [i for i, (l, _) in enumerate(self._st.trace) if l in (b, b + "!raise")]
        return not ia or not ib or max(ia) < min(ib)

    def labels_matching(self, regex):
        import re
        return [l for l, _ in self._st.trace if re.search(regex, l)]

    def fold_unit(self, fold, x):
        """Definitional instance of a fold at a one-element sequence: F([x]) == f(x) (always true; a proof hint)."""
        x = S.lift(x, fold.sort.elem)
        return S.V(S.BOOL, fold.f(z3.Unit(x.t)) == S.lift(fold.elem(x)).t)

    def rev_hints(self, a, b=None):
        """Axiom instances of list reversal (always true; proof hints): Rev(Rev(a)) == a, |Rev(a)| == |a|,
        and with b: Rev(a ++ b) == Rev(b) ++ Rev(a)."""
        rv = self._e.spec.rev.get(a.s.name)
        if rv is None:
            raise EngineError("no use_rev() for %s" % a.s)
        facts = [rv(rv(a.t)) == a.t, z3.Length(rv(a.t)) == z3.Length(a.t),
                 z3.Implies(z3.Length(a.t) == 0, rv(a.t) == a.t)]
        if b is not None:
            facts += [rv(z3.Concat(a.t, b.t)) == z3.Concat(rv(b.t), rv(a.t)), rv(rv(b.t)) == b.t,
                      z3.Implies(z3.Length(b.t) == 0, rv(b.t) == b.t)]
        return S.V(S.BOOL, z3.And(*facts))

    def in_loop(self):
        return any(l == "loop*" for l, _ in self._st.trace)

    @property
    def self(self):
        ref = self._recv if self._recv is not None else self._st.env.get("self")
        if ref is None:
            raise EngineError("no receiver in this context")
        if not isinstance(ref.s, S.Obj):
            return ref          # `self` modelled as a plain value (e.g. a list subclass as its list)
        return ObjView(self._e, self._st, ref)

    def view(self, v):
        """Field access on an object-valued expression (e.g. c.view(c.result).field)."""
        if isinstance(v, ObjView):
            return v
        if isinstance(v.s, S.Opt) and isinstance(v.s.inner, S.Obj):
            v = v.s.val(v)
        if not isinstance(v.s, S.Obj):
            raise EngineError("view() of a value of sort %s" % v.s)
        return ObjView(self._e, self._st, v)

    def has(self, n):
        return n in self._st.env

    def var(self, n):
        """A program variable whose name collides with a Ctx attribute (result, args, old, ...)."""
        if n not in self._st.env:
            raise SpecDrift("spec refers to variable %r which does not exist at this point" % n)
        return self._st.env[n]

    def __getattr__(self, n):
        if n in self._extra:
            v = self._extra[n]
            if isinstance(v, S.V) and isinstance(v.s, S.Obj):
                return ObjView(self._e, self._st, v)
            return v
        st = self._st
        if n in st.env:
            v = st.env[n]
            if isinstance(v.s, S.Obj):
                return ObjView(self._e, st, v)
            return v
        raise SpecDrift("spec refers to variable %r which does not exist at this point" % n)
