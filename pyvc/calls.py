"""Calls: contracts, encoded builtins, opaque calls (mixin)."""
import ast
import z3

from . import sorts as S
from .sorts import V, INT, BOOL, STR, BYTES, NONE, ANY, Seq, Tup, Opt, SetS, MapS, Opaque, Enum, Obj, PySide, EXC, FUNC
from .state import EngineError, SpecDrift, Ctx
from .engine import GLOB, POLY_LIST, POLY_DICT, POLY_SET, ITER, LValue, exc_value, imp_value, LOGGING_CALLS, EXC_NAME

_ufuncs = {}


def ufunc(name, *sorts):
    key = (name,) + tuple(s.name for s in sorts)
    if key not in _ufuncs:
        _ufuncs[key] = z3.Function("%s_%d" % (name, len(_ufuncs)), *[s.z3() for s in sorts])
    return _ufuncs[key]


class CallMixin:
    # ---------------------------------------------------------------- entry
    def ev_Call(self, e, st, exc, expect):
        if any(isinstance(a, ast.Starred) for a in e.args) and not any(k.arg is None for k in e.keywords):
            # f(*t) where t is a tuple of known arity: the same call with t[0], ..., t[n-1]
            new_args, ok_ = [], True
            for a in e.args:
                if not isinstance(a, ast.Starred):
                    new_args.append(a)
                    continue
                probe = self.ev(a.value, st.copy(), [])
                if len(probe) == 1 and isinstance(probe[0][1].s, Tup) and isinstance(a.value, (ast.Name, ast.Attribute)):
                    for k_ in range(len(probe[0][1].s.elems)):
                        sub = ast.Subscript(value=a.value, slice=ast.Constant(value=k_), ctx=ast.Load())
                        ast.copy_location(sub, a)
                        ast.fix_missing_locations(sub)
                        new_args.append(sub)
                else:
                    ok_ = False
            if ok_:
                e2 = ast.Call(func=e.func, args=new_args, keywords=e.keywords)
                ast.copy_location(e2, e)
                return self.ev_Call(e2, st, exc, expect)
        if any(isinstance(a, ast.Starred) for a in e.args) or any(k.arg is None for k in e.keywords):
            return self.opaque_call(e, st, exc, expect, star=True)
        if isinstance(e.func, ast.Name) and e.func.id in st.env and st.env[e.func.id].s == FUNC \
                and isinstance(st.env[e.func.id].t, tuple) and st.env[e.func.id].t[0] == "alias":
            e2 = ast.Call(func=st.env[e.func.id].t[1], args=e.args, keywords=e.keywords)
            ast.copy_location(e2, e)
            ast.fix_missing_locations(e2)
            return self.ev_Call(e2, st, exc, expect)
        text = ast.unparse(e.func)
        # 1. contract by source text
        c = self.find_contract_text(text)
        if c is not None:
            # the callee expression is not evaluated for a text contract, but its root name must be bound
            root = e.func
            while isinstance(root, (ast.Attribute, ast.Subscript, ast.Call)):
                root = root.value if not isinstance(root, ast.Call) else root.func
            if isinstance(root, ast.Name) and root.id not in st.env:
                r = self.ev_Name(root, st, exc, None)
                if not r:
                    return []
            return self.call_with_contract(c, e, st, exc, None, expect)
        if text in ("contextlib.ExitStack", "ExitStack") and not e.args:
            return self.bi_ExitStack(e, st, exc, expect)
        # 2. logging / tracing: no effect, no exception
        if LOGGING_CALLS.match(text):
            res = []
            for s1, _ in self.ev_args(e, st, exc):
                res.append((s1, S.NONEV()))
            return res
        # 3. builtin functions
        if isinstance(e.func, ast.Name) and e.func.id not in st.env:
            m = getattr(self, "bi_" + e.func.id, None)
            if m is not None:
                return m(e, st, exc, expect)
            if EXC_NAME.search(e.func.id) or e.func.id in self.spec.exc_parents:
                return self.make_exception(e, e.func.id, st, exc)
        # 4. method calls
        if isinstance(e.func, ast.Attribute):
            if (EXC_NAME.search(e.func.attr) or e.func.attr in self.spec.exc_parents) and isinstance(e.func.value, ast.Name) and e.func.value.id not in st.env:
                return self.make_exception(e, e.func.attr, st, exc)
            return self.method_call(e, st, exc, expect)
        if isinstance(e.func, ast.Name) and e.func.id in st.env:
            fv = st.env[e.func.id]
            if fv.s == FUNC and fv.t[0] == "bound":
                c = self.find_contract_method(fv.t[1].s.cls, fv.t[2])
                if c is not None:
                    return self.call_with_contract(c, e, st, exc, fv.t[1], expect)
        return self.opaque_call(e, st, exc, expect)

    def make_exception(self, e, name, st, exc):
        res = []
        for s1, _ in self.ev_args(e, st, exc):
            res.append((s1, exc_value(name, e.lineno)))
        return res

    def ev_args(self, e, st, exc, expects=None):
        """-> [(st, (args, kw))]"""
        exprs = list(e.args) + [k.value for k in e.keywords]
        res = []
        for s1, vals in self.ev_seq(exprs, st, exc, expects):
            n = len(e.args)
            res.append((s1, (vals[:n], dict((k.arg, v) for k, v in zip(e.keywords, vals[n:])))))
        return res

    def find_contract_text(self, text):
        for c in list(self.target.local_contracts) + self.spec.contracts:
            if not isinstance(c.key, tuple) and c.matches(text):
                return c
        return None

    def find_contract_method(self, cls, meth):
        for c in list(self.target.local_contracts) + self.spec.contracts:
            if isinstance(c.key, tuple) and c.key == (cls, meth):
                return c
        return None

    # ---------------------------------------------------------------- contracts
    def bind_params(self, c, args, kw, node):
        extra = {}
        if c.params:
            names = list(c.params)
            for i, a in enumerate(args):
                if i < len(names):
                    extra[_pname(names[i])] = a
            for k, v in kw.items():
                extra[k] = v
            for p in names:
                nm = _pname(p)
                if nm not in extra:
                    extra[nm] = S.lift(p[1]) if isinstance(p, tuple) else S.NONEV()
        return extra

    def havoc_names(self, st, names, recv):
        for n in names:
            if n.startswith("g."):
                old = st.ghost.get(n[2:])
                if old is None:
                    raise EngineError("modifies names undeclared ghost %s" % n)
                st.ghost[n[2:]] = self.fresh(old.s, "g_" + n[2:], st)
            elif n.startswith("self."):
                if recv is None:
                    recv = st.env.get("self")
                if recv is None:
                    raise EngineError("modifies %s without a receiver" % n)
                f = n[5:]
                if f == "*":
                    self.havoc_object(st, recv)
                    continue
                ref = recv
                parts = f.split(".")
                for p in parts[:-1]:
                    ref = self.read_field(st, ref, p)
                cur = self.read_field(st, ref, parts[-1])
                if isinstance(cur.s, Obj):
                    self.havoc_object(st, cur)
                else:
                    st.heap.pop((ref.t, parts[-1]), None)
                    self.read_field(st, ref, parts[-1])
            else:
                if n in st.env and not st.env[n].s.pyside:
                    st.env[n] = self.fresh(st.env[n].s, n, st)
                elif n in st.env and isinstance(st.env[n].s, Obj):
                    self.havoc_object(st, st.env[n])
        st.touch()

    def call_with_contract(self, c, e, st, exc, recv, expect):
        res = []
        if recv is None and isinstance(c.key, tuple):
            raise EngineError("method contract without receiver")
        for s1, (args, kw) in self.ev_args(e, st, exc):
            res.extend(self.apply_contract(c, e, s1, exc, recv, args, kw, expect))
        return res

    def apply_contract(self, c, node, st, exc, recv, args, kw, expect=None):
        line = getattr(node, "lineno", 0)
        self.used_contracts[c.label] = c
        extra = self.bind_params(c, args, kw, node)
        arg_text = [ast.unparse(a) for a in getattr(node, "args", [])] if isinstance(node, ast.Call) else []
        from .state import Ctx as _Ctx

        def Ctx(*a_, **k_):          # every context of this call site knows the source text of the arguments
            cx = _Ctx(*a_, **k_)
            object.__setattr__(cx, "arg_text", arg_text)
            return cx
        pre_ctx = Ctx(self, st, args=args, kw=kw, recv=recv, extra=extra)
        if c.requires is not None:
            self.emit("call.pre", node, st, c.requires(pre_ctx), tag=c.label)
        old = st.copy()
        # exceptional exits
        raises = dict(c.raises)
        if not raises and not c.no_raise and not c.pure:
            raises = {"Exception": "unchanged"}
        for cls, post in raises.items():
            s3 = old.copy()
            if post != "unchanged":
                self.havoc_names(s3, c.modifies, recv)
                if post is not None:
                    s3.assume(S.lift(post(Ctx(self, s3, old=old, args=args, kw=kw, recv=recv, extra=extra))))
            if not c.pure:
                s3.trace = s3.trace + ((c.label + "!raise", line),)
            if self.feasible(s3):
                self.crash_point(s3, node, c.label + "!raise")
                ev_ = exc_value(cls + "*" if cls in ("Exception", "BaseException") else cls, line, c.label)
                # the generic clause of a contract stands for "any other" exception: not the classes listed beside it
                ev_.x["excludes"] = [k for k in raises if k != cls]
                exc.append((s3, ev_))
        # normal exit
        if not c.pure:
            st.trace = st.trace + ((c.label, line),)
        self.havoc_names(st, c.modifies, recv)
        for i in c.mutates_args:
            pass
        post_ctx = Ctx(self, st, old=old, args=args, kw=kw, recv=recv, extra=extra)
        if c.returns is not None:
            result = c.returns(post_ctx)
            if hasattr(result, "_ref") and not isinstance(result, V):
                result = result._ref          # an ObjView: the callee returns a declared object
            result = S.lift(result)
        else:
            rs = c.result if c.result is not None else (expect if expect is not None and not expect.pyside else ANY)
            result = S.NONEV() if rs == NONE else self.fresh(rs, "ret_" + _short(c.label), st)
        post_ctx = Ctx(self, st, old=old, args=args, kw=kw, recv=recv, result=result, extra=extra)
        if c.ensures is not None:
            st.assume(S.lift(c.ensures(post_ctx)))
        if not self.feasible(st):
            return []
        if not c.pure:
            self.crash_point(st, node, c.label)
        return [(st, result)]

    def crash_point(self, st, node, label):
        t = self.target
        if t.crash_inv is not None:
            self.emit("crash", node, st, t.crash_inv(Ctx(self, st, old=self.entry_state)), tag=label)

    # ---------------------------------------------------------------- opaque
    def opaque_call(self, e, st, exc, expect, star=False):
        text = ast.unparse(e.func)
        line = e.lineno
        exprs = [a.value if isinstance(a, ast.Starred) else a for a in e.args] + [k.value for k in e.keywords]
        res = []
        for s1, vals in self.ev_seq(exprs, st, exc):
            if text in self.spec.pure_calls or any(hasattr(p, "fullmatch") and p.fullmatch(text) for p in self.spec.pure_calls):
                res.append((s1, (expect if expect is not None and not expect.pyside else ANY).fresh("pure_" + _short(text))))
                continue
            self.opaque_calls.setdefault(text, []).append(line)
            # may raise, changing nothing we track beyond what the normal exit changes
            s_exc = s1.copy()
            self.opaque_effects(s_exc, e, text, vals)
            s_exc.trace = s_exc.trace + (("?" + text + "!raise", line),)
            exc.append((s_exc, exc_value(self.target.faults + "*", line, text)))
            self.opaque_effects(s1, e, text, vals)
            s1.trace = s1.trace + (("?" + text, line),)
            rs = expect if expect is not None and not expect.pyside else ANY
            res.append((s1, self.fresh(rs, "op_" + _short(text), s1)))
        return res

    def opaque_effects(self, st, e, text, vals):
        """Conservative frame of a call without a contract."""
        me = st.env.get("self")
        touches_self = False
        f = e.func
        if isinstance(f, ast.Attribute) and isinstance(f.value, ast.Name) and f.value.id == "self":
            touches_self = True
            decl = self.class_decl(me.s.cls) if me is not None and isinstance(me.s, Obj) else None
            if decl and f.attr in decl.pure_methods:
                touches_self = False
        if isinstance(f, ast.Attribute) and isinstance(f.value, ast.Call) and ast.unparse(f.value.func) == "super":
            touches_self = True
        for a in list(e.args) + [k.value for k in e.keywords]:
            a = a.value if isinstance(a, ast.Starred) else a
            if isinstance(a, ast.Name):
                if a.id == "self":
                    touches_self = True
                elif a.id in st.env and isinstance(st.env[a.id].s, (Seq, SetS, MapS)):
                    # a mutable container passed to unknown code
                    st.env[a.id] = self.fresh(st.env[a.id].s, a.id, st)
                elif a.id in st.env and isinstance(st.env[a.id].s, Obj):
                    self.havoc_object(st, st.env[a.id])
        if touches_self and me is not None and isinstance(me.s, Obj):
            self.havoc_object(st, me)
        st.touch()

    # ---------------------------------------------------------------- methods
    def method_call(self, e, st, exc, expect):
        f = e.func
        attr = f.attr
        # receiver as lvalue (so that mutators can write back), else as value
        res = []
        for s1, recv in self.ev(f.value, st, exc):
            if recv.s.pyside and getattr(recv.s, "kind", "") == "exitstack" and attr == "callback" and e.args:
                # ExitStack.callback(fn, *args, **kw): remembered, run in reverse order when the stack is left
                for s2, (args, kw) in self.ev_args(ast.Call(func=e.func, args=e.args[1:], keywords=e.keywords), s1, exc):
                    s2.meta[recv.t] = tuple(s2.meta.get(recv.t, ())) + ((e.args[0], list(args), dict(kw), None),)
                    res.append((s2, S.NONEV()))
                continue
            if isinstance(recv.s, Obj):
                c = self.find_contract_method(recv.s.cls, attr)
                if c is not None:
                    res.extend(self.call_with_contract(c, e, s1, exc, recv, expect))
                    continue
                decl_ = self.class_decl(recv.s.cls)
                if decl_ and isinstance(decl_.fields.get(attr), Enum):
                    # a field holding one of the object's own bound methods (state machines): one case per method it may name
                    cur = self.read_field(s1, recv, attr)
                    for name_ in decl_.fields[attr].values:
                        sv, _ = self.branch(s1.copy(), S.eq(cur, decl_.fields[attr].lit(name_)))
                        if sv is None:
                            continue
                        c2 = self.find_contract_method(recv.s.cls, name_)
                        if c2 is None:
                            raise EngineError("state method %s.%s has no contract" % (recv.s.cls, name_))
                        res.extend(self.call_with_contract(c2, e, sv, exc, recv, expect))
                    continue
                fld = self.class_decl(recv.s.cls)
                res.extend(self.opaque_call(e, s1, exc, expect))
                continue
            was_opt = None
            if isinstance(recv.s, Opt) and not isinstance(recv.s.inner, Obj):
                s1 = self.raise_if(s1, recv.is_none, "AttributeError", e, exc, "method of None: " + ast.unparse(f))
                if s1 is None:
                    continue
                was_opt = recv.s
                recv = recv.s.val(recv)
            m = None
            if isinstance(recv.s, Seq) or recv.s == POLY_LIST:
                m = getattr(self, "seq_" + attr, None)
            elif isinstance(recv.s, S._Str):
                m = getattr(self, "str_" + attr, None)
            elif isinstance(recv.s, SetS) or recv.s == POLY_SET:
                m = getattr(self, "set_" + attr, None)
            elif isinstance(recv.s, MapS) or recv.s == POLY_DICT:
                m = getattr(self, "map_" + attr, None)
            if m is None:
                if isinstance(recv.s, (Seq, S._Str, SetS, MapS)) or recv.s in (POLY_LIST, POLY_SET, POLY_DICT):
                    raise EngineError("method %s of %s is not encoded (L%d)" % (attr, recv.s, e.lineno))
                res.extend(self.opaque_call(e, s1, exc, expect))
                continue
            lv = self._unwrap_lv(self.lvalue(f.value, s1, exc), was_opt)
            expects = None
            if isinstance(recv.s, Seq):
                expects = {"append": [recv.s.elem], "extend": [recv.s], "insert": [INT, recv.s.elem],
                           "remove": [recv.s.elem], "index": [recv.s.elem], "count": [recv.s.elem]}.get(attr)
            elif isinstance(recv.s, SetS):
                expects = {"add": [recv.s.elem], "discard": [recv.s.elem], "remove": [recv.s.elem]}.get(attr)
            elif isinstance(recv.s, MapS):
                expects = {"get": [recv.s.key, None], "pop": [recv.s.key, None], "setdefault": [recv.s.key, recv.s.val]}.get(attr)
            if expects is not None:
                n_exprs = len(e.args) + len(e.keywords)
                expects = (expects + [None] * n_exprs)[:n_exprs]
            for s2, (args, kw) in self.ev_args(e, s1, exc, expects):
                if lv is not None and s2 is not s1:
                    lv = self._unwrap_lv(self.lvalue(f.value, s2, exc), was_opt)
                res.extend(m(recv if lv is None else lv.get(), lv, args, kw, s2, e, exc))
        return res

    @staticmethod
    def _unwrap_lv(lv, opt):
        """An lvalue holding Optional[container], seen as the container (the None case was split off before)."""
        if lv is None or opt is None:
            return lv
        return LValue(lambda: opt.val(lv.get()), lambda v: lv.set(opt.some(v)), lv.desc)

    def setrecv(self, node, st, exc, value):
        """Write `value` back to the receiver of the method call `node`, resolved in the *current* state."""
        lv = self.lvalue(node.func.value, st, exc)
        if lv is None:
            raise EngineError("mutation of a temporary container (L%d): %s" % (node.lineno, ast.unparse(node)))
        cur = lv.get()
        if isinstance(cur.s, Opt) and not isinstance(value.s, Opt):
            value = cur.s.some(value)
        lv.set(value)

    def _mut(self, lv, node):
        if lv is None:
            raise EngineError("mutation of a temporary container (L%d): %s" % (node.lineno, ast.unparse(node)))
        return lv

    # --- list methods
    def seq_append(self, recv, lv, args, kw, st, node, exc):
        lv = self._mut(lv, node)
        x = args[0]
        if recv.s == POLY_LIST:
            if x.s.pyside:
                raise EngineError("append of %s to an untyped list (L%d): declare the local's sort" % (x.s, node.lineno))
            so = Seq(x.s)
            recv = V(so, z3.Empty(so.z3()))
        xx = self.coerce(x, recv.s.elem)
        if xx is None:
            raise EngineError("append of %s to %s (L%d)" % (x.s, recv.s, node.lineno))
        nv = self.fresh(recv.s, "app", None)
        self.note_concat(st, nv, [("seq", recv), ("unit", xx)])
        self.setrecv(node, st, exc, nv)
        return [(st, S.NONEV())]

    def seq_extend(self, recv, lv, args, kw, st, node, exc):
        lv = self._mut(lv, node)
        x = args[0]
        if x.s == POLY_LIST:
            return [(st, S.NONEV())]
        if recv.s == POLY_LIST:
            recv = V(x.s, z3.Empty(x.s.z3()))
        xx = self.coerce(x, recv.s)
        if xx is None:
            raise EngineError("extend of %s with %s (L%d)" % (recv.s, x.s, node.lineno))
        nv = self.fresh(recv.s, "ext", None)
        self.note_concat(st, nv, [("seq", recv), ("seq", xx)])
        if isinstance(node, ast.AugAssign):
            # list += iterable (in-place extend): write through the lvalue of the target
            cur_ = lv.get()
            lv.set(cur_.s.some(nv) if isinstance(cur_.s, Opt) and not isinstance(nv.s, Opt) else nv)
        else:
            self.setrecv(node, st, exc, nv)
        return [(st, S.NONEV())]

    def seq_insert(self, recv, lv, args, kw, st, node, exc):
        lv = self._mut(lv, node)
        i, x = args
        if not (z3.is_int_value(i.t) and i.t.as_long() == 0):
            raise EngineError("insert at non-zero index (L%d)" % node.lineno)
        if recv.s == POLY_LIST:
            recv = V(Seq(x.s), z3.Empty(Seq(x.s).z3()))
        xx = self.coerce(x, recv.s.elem)
        nv = self.fresh(recv.s, "ins", None)
        self.note_concat(st, nv, [("unit", xx), ("seq", recv)])
        self.setrecv(node, st, exc, nv)
        return [(st, S.NONEV())]

    def seq_pop(self, recv, lv, args, kw, st, node, exc):
        lv = self._mut(lv, node)
        if recv.s == POLY_LIST:
            exc.append((st, imp_value("IndexError", node.lineno, "pop from empty list")))
            return []
        st = self.raise_if(st, S.Len(recv) == 0, "IndexError", node, exc, "pop from empty list")
        if st is None:
            return []
        nv = self.fresh(recv.s, "rest", None)
        if args and z3.is_int_value(args[0].t) and args[0].t.as_long() == 0:
            x = V(recv.s.elem, recv.t[0])
            st.assume(nv.t == z3.SubSeq(recv.t, 1, z3.Length(recv.t) - 1))
            self.note_concat(st, recv, [("unit", x), ("seq", nv)])
        elif not args or (z3.is_int_value(args[0].t) and args[0].t.as_long() == -1):
            x = V(recv.s.elem, recv.t[z3.Length(recv.t) - 1])
            st.assume(nv.t == z3.SubSeq(recv.t, 0, z3.Length(recv.t) - 1))
            self.note_concat(st, recv, [("seq", nv), ("unit", x)])
        else:
            raise EngineError("pop at a general index (L%d)" % node.lineno)
        self.setrecv(node, st, exc, nv)
        return [(st, x)]

    def seq_sort(self, recv, lv, args, kw, st, node, exc):
        lv = self._mut(lv, node)
        if recv.s == POLY_LIST:
            return [(st, S.NONEV())]
        nv = self.fresh(recv.s, "sorted", st)
        self.assume_perm(st, recv, nv)
        self.setrecv(node, st, exc, nv)
        return [(st, S.NONEV())]

    seq_reverse = seq_sort

    def assume_perm(self, st, a, b):
        """b is a permutation of a: same length, same value of every fold (sum / all), same members."""
        st.assume(z3.Length(a.t) == z3.Length(b.t))
        for f in self.folds_for(a.s):
            if f.kind != "cat":      # sums and conjunctions do not depend on order; concatenations do
                st.assume(f.f(a.t) == f.f(b.t))
        perm = ufunc("Perm", a.s, a.s, BOOL)
        st.assume(perm(a.t, b.t))
        st.meta.setdefault("perms", [])
        st.meta["perms"] = st.meta["perms"] + [(a, b)]

    def seq_index(self, recv, lv, args, kw, st, node, exc):
        x = self.coerce(args[0], recv.s.elem)
        if x is None:
            exc.append((st, imp_value("ValueError", node.lineno)))
            return []
        st = self.raise_if(st, S.Not(S.In(x, recv)), "ValueError", node, exc)
        if st is None:
            return []
        i = INT.fresh("idx")
        st.assume(z3.And(i.t >= 0, i.t < z3.Length(recv.t), recv.t[i.t] == x.t))
        return [(st, i)]

    def seq_copy(self, recv, lv, args, kw, st, node, exc):
        return [(st, recv)]

    def seq_count(self, recv, lv, args, kw, st, node, exc):
        c = INT.fresh("count")
        st.assume(z3.And(c.t >= 0, c.t <= z3.Length(recv.t)))
        x = self.coerce(args[0], recv.s.elem)
        if x is not None:
            st.assume((c.t > 0) == S.In(x, recv).t)
        return [(st, c)]

    def seq_remove(self, recv, lv, args, kw, st, node, exc):
        lv = self._mut(lv, node)
        x = self.coerce(args[0], recv.s.elem)
        st = self.raise_if(st, S.Not(S.In(x, recv)), "ValueError", node, exc)
        if st is None:
            return []
        pre, post, nv = self.fresh(recv.s, "pre", None), self.fresh(recv.s, "post", None), self.fresh(recv.s, "rem", None)
        st.assume(z3.Not(z3.Contains(pre.t, z3.Unit(x.t))))
        self.note_concat(st, recv, [("seq", pre), ("unit", x), ("seq", post)])
        self.note_concat(st, nv, [("seq", pre), ("seq", post)])
        self.setrecv(node, st, exc, nv)
        return [(st, S.NONEV())]

    # --- str / bytes methods
    def str_startswith(self, recv, lv, args, kw, st, node, exc):
        a = args[0]
        if isinstance(a.s, Opt) and isinstance(a.s.inner, S._Str):
            st = self.raise_if(st, a.is_none, "TypeError", node, exc, "startswith(None)")
            if st is None:
                return []
            a = a.s.val(a)
        if isinstance(a.s, Tup):
            return [(st, S.Or(*[V(BOOL, z3.PrefixOf(a.s.get(a, i).t, recv.t)) for i in range(len(a.s.elems))]))]
        if not isinstance(a.s, S._Str):
            return [(st, BOOL.fresh("startswith"))]
        return [(st, V(BOOL, z3.PrefixOf(a.t, recv.t)))]

    def str_endswith(self, recv, lv, args, kw, st, node, exc):
        a = args[0]
        if isinstance(a.s, Opt) and isinstance(a.s.inner, S._Str):
            st = self.raise_if(st, a.is_none, "TypeError", node, exc, "endswith(None)")
            if st is None:
                return []
            a = a.s.val(a)
        if isinstance(a.s, Tup):
            return [(st, S.Or(*[V(BOOL, z3.SuffixOf(a.s.get(a, i).t, recv.t)) for i in range(len(a.s.elems))]))]
        if not isinstance(a.s, S._Str):
            return [(st, BOOL.fresh("endswith"))]
        return [(st, V(BOOL, z3.SuffixOf(a.t, recv.t)))]

    def str_find(self, recv, lv, args, kw, st, node, exc):
        if len(args) == 1:
            return [(st, V(INT, z3.IndexOf(recv.t, args[0].t, 0)))]
        if len(args) == 2:
            start = args[1]
            n = z3.Length(recv.t)
            s0 = z3.If(start.t < 0, z3.If(start.t + n < 0, 0, start.t + n), start.t)
            return [(st, V(INT, z3.IndexOf(recv.t, args[0].t, s0)))]
        return [(st, INT.fresh("find"))]

    def str_join(self, recv, lv, args, kw, st, node, exc):
        a = args[0]
        r = recv.s.fresh("join")
        if isinstance(a.s, Seq) and isinstance(a.s.elem, S._Str):
            jf = ufunc("Join", recv.s, a.s, recv.s)
            st.assume(r.t == jf(recv.t, a.t))
            st.assume(z3.Implies(z3.Length(a.t) == 0, z3.Length(r.t) == 0))
            st.assume(z3.Implies(z3.Length(a.t) == 1, r.t == a.t[0]))
        return [(st, r)]

    def _str_opaque(name, rs=None):
        def m(self, recv, lv, args, kw, st, node, exc):
            so = rs or recv.s
            f = ufunc("str_" + name, recv.s, *([a.s for a in args if not a.s.pyside] + [so]))
            return [(st, V(so, f(recv.t, *[a.t for a in args if not a.s.pyside])))]
        return m

    str_strip = _str_opaque("strip")
    str_rstrip = _str_opaque("rstrip")
    str_lstrip = _str_opaque("lstrip")
    str_lower = _str_opaque("lower")
    str_upper = _str_opaque("upper")
    str_isdigit = _str_opaque("isdigit", BOOL)
    str_isspace = _str_opaque("isspace", BOOL)
    str_isalnum = _str_opaque("isalnum", BOOL)
    str_count = _str_opaque("count", INT)
    str_rfind = _str_opaque("rfind", INT)
    str_format = _str_opaque("format")
    str_splitlines = _str_opaque("splitlines", Seq(STR))

    def str_replace(self, recv, lv, args, kw, st, node, exc):
        a, b = args[0], args[1]
        if len(args) == 2:
            return [(st, V(recv.s, z3.ReplaceAll(recv.t, a.t, b.t) if hasattr(z3, "ReplaceAll") else ufunc("replace_all", recv.s, recv.s, recv.s, recv.s)(recv.t, a.t, b.t)))]
        return [(st, recv.s.fresh("replace"))]

    def str_encode(self, recv, lv, args, kw, st, node, exc):
        f, g = ufunc("encode", STR, BYTES), ufunc("decode", BYTES, STR)
        r = V(BYTES, f(recv.t))
        st.assume(g(r.t) == recv.t)
        exc.append((st.copy(), exc_value("UnicodeEncodeError", node.lineno)))
        return [(st, r)]

    def str_decode(self, recv, lv, args, kw, st, node, exc):
        f, g = ufunc("encode", STR, BYTES), ufunc("decode", BYTES, STR)
        r = V(STR, g(recv.t))
        exc.append((st.copy(), exc_value("UnicodeDecodeError", node.lineno)))
        st.assume(f(r.t) == recv.t)
        return [(st, r)]

    def str_split(self, recv, lv, args, kw, st, node, exc):
        so = Seq(recv.s)
        r = self.fresh(so, "split", st)
        st.assume(z3.Length(r.t) >= 1)
        if args and isinstance(args[0].s, S._Str):
            jf = ufunc("Join", recv.s, so, recv.s)
            if len(args) == 1:
                st.assume(jf(args[0].t, r.t) == recv.t)
            else:
                st.assume(z3.Length(r.t) <= args[1].t + 1)
                st.assume(jf(args[0].t, r.t) == recv.t)
                if z3.is_int_value(args[1].t) and args[1].t.as_long() == 1:
                    i = z3.IndexOf(recv.t, args[0].t, 0)
                    st.assume(z3.If(i < 0, z3.And(z3.Length(r.t) == 1, r.t[0] == recv.t),
                                    z3.And(z3.Length(r.t) == 2, r.t[0] == z3.SubSeq(recv.t, 0, i),
                                           r.t[1] == z3.SubSeq(recv.t, i + z3.Length(args[0].t), z3.Length(recv.t)))))
        return [(st, r)]

    # --- set methods
    def _set_sort_from(self, recv, x):
        if recv.s == POLY_SET:
            if x.s.pyside:
                raise EngineError("element of %s added to an untyped set: declare the local's sort" % x.s)
            return SetS(x.s).empty()
        return recv

    def set_add(self, recv, lv, args, kw, st, node, exc):
        lv = self._mut(lv, node)
        recv = self._set_sort_from(recv, args[0])
        x = self.coerce(args[0], recv.s.elem)
        if x is None:
            raise EngineError("set.add of %s to %s (L%d)" % (args[0].s, recv.s, node.lineno))
        self.setrecv(node, st, exc, V(recv.s, z3.Store(recv.t, x.t, True)))
        return [(st, S.NONEV())]

    def set_discard(self, recv, lv, args, kw, st, node, exc):
        lv = self._mut(lv, node)
        if recv.s == POLY_SET:
            return [(st, S.NONEV())]
        x = self.coerce(args[0], recv.s.elem)
        if x is not None:
            self.setrecv(node, st, exc, V(recv.s, z3.Store(recv.t, x.t, False)))
        return [(st, S.NONEV())]

    def set_remove(self, recv, lv, args, kw, st, node, exc):
        lv = self._mut(lv, node)
        if recv.s == POLY_SET:
            exc.append((st, imp_value("KeyError", node.lineno)))
            return []
        x = self.coerce(args[0], recv.s.elem)
        st = self.raise_if(st, S.Not(S.In(x, recv)), "KeyError", node, exc)
        if st is None:
            return []
        self.setrecv(node, st, exc, V(recv.s, z3.Store(recv.t, x.t, False)))
        return [(st, S.NONEV())]

    def _as_set(self, v, so, st):
        """Convert an iterable value to a set of sort `so` (Seq -> its member set)."""
        if v.s == so:
            return v
        if v.s in (POLY_SET, POLY_LIST, POLY_DICT):
            return so.empty()
        if isinstance(v.s, Seq) and v.s.elem == so.elem:
            r = so.fresh("setof")
            mem = ufunc("SetOf", v.s, so)
            st.assume(r.t == mem(v.t))
            x = so.elem.fresh("m")
            st.assume(z3.ForAll([x.t], z3.Select(r.t, x.t) == z3.Contains(v.t, z3.Unit(x.t))))
            return r
        if isinstance(v.s, MapS) and v.s.key == so.elem:
            return V(so, v.s.dom(v))
        return None

    def _set_binop(opname):
        def m(self, recv, lv, args, kw, st, node, exc):
            if recv.s == POLY_SET:
                if opname in ("union", "update") and args and isinstance(args[0].s, SetS):
                    recv = args[0].s.empty()
                else:
                    if opname in ("update", "difference_update", "intersection_update"):
                        return [(st, S.NONEV())]
                    return [(st, recv)]
            cur = recv
            for a in args:
                b = self._as_set(a, recv.s, st)
                if b is None:
                    raise EngineError("set.%s with %s (L%d)" % (opname, a.s, node.lineno))
                if opname in ("union", "update"):
                    cur = cur | b
                elif opname in ("difference", "difference_update"):
                    cur = cur - b
                elif opname in ("intersection", "intersection_update"):
                    cur = cur & b
                elif opname == "symmetric_difference":
                    cur = (cur - b) | (b - cur)
            if opname.endswith("update"):
                self.setrecv(node, st, exc, cur)
                return [(st, S.NONEV())]
            return [(st, cur)]
        return m

    set_union = _set_binop("union")
    set_update = _set_binop("update")
    set_difference = _set_binop("difference")
    set_difference_update = _set_binop("difference_update")
    set_intersection = _set_binop("intersection")
    set_intersection_update = _set_binop("intersection_update")
    set_symmetric_difference = _set_binop("symmetric_difference")

    def set_copy(self, recv, lv, args, kw, st, node, exc):
        return [(st, recv)]

    def set_issubset(self, recv, lv, args, kw, st, node, exc):
        b = self._as_set(args[0], recv.s, st)
        return [(st, V(BOOL, z3.IsSubset(recv.t, b.t)))]

    def set_pop(self, recv, lv, args, kw, st, node, exc):
        lv = self._mut(lv, node)
        if recv.s == POLY_SET:
            exc.append((st, imp_value("KeyError", node.lineno)))
            return []
        st = self.raise_if(st, S.Not(S.truthy(recv)), "KeyError", node, exc, "pop from an empty set")
        if st is None:
            return []
        x = recv.s.elem.fresh("popped")
        st.assume(z3.Select(recv.t, x.t))
        self.setrecv(node, st, exc, V(recv.s, z3.Store(recv.t, x.t, False)))
        return [(st, x)]

    # --- dict methods
    def map_get(self, recv, lv, args, kw, st, node, exc):
        if recv.s == POLY_DICT:
            return [(st, args[1] if len(args) > 1 else S.NONEV())]
        k = self.coerce(args[0], recv.s.key)
        dflt = args[1] if len(args) > 1 else S.NONEV()
        if k is None:
            return [(st, dflt)]
        val = recv[k]
        cond = S.In(k, recv)
        m = self._merge_vals(cond, val, dflt)
        if m is None:
            a, b = self.branch(st, cond)
            return ([(a, val)] if a is not None else []) + ([(b, dflt)] if b is not None else [])
        return [(st, m)]

    def map_pop(self, recv, lv, args, kw, st, node, exc):
        lv = self._mut(lv, node)
        if recv.s == POLY_DICT:
            if len(args) > 1:
                return [(st, args[1])]
            exc.append((st, imp_value("KeyError", node.lineno)))
            return []
        k = self.coerce(args[0], recv.s.key)
        res = []
        has, hasnt = self.branch(st, S.In(k, recv))
        if has is not None:
            self.setrecv(node, has, exc, recv.s.mk(z3.Store(recv.s.dom(recv), k.t, False), recv.s.vals(recv)))
            res.append((has, recv[k]))
        if hasnt is not None:
            if len(args) > 1:
                res.append((hasnt, args[1]))
            else:
                exc.append((hasnt, imp_value("KeyError", node.lineno)))
        return res

    def map_setdefault(self, recv, lv, args, kw, st, node, exc):
        lv = self._mut(lv, node)
        if recv.s == POLY_DICT:
            recv = MapS(args[0].s, args[1].s).empty()
        k = self.coerce(args[0], recv.s.key)
        d = self.coerce(args[1] if len(args) > 1 else S.NONEV(), recv.s.val)
        if k is None or d is None:
            raise EngineError("setdefault sort mismatch (L%d)" % node.lineno)
        has = S.In(k, recv)
        newvals = z3.If(has.t, recv.s.vals(recv), z3.Store(recv.s.vals(recv), k.t, d.t))
        nm = recv.s.mk(z3.Store(recv.s.dom(recv), k.t, True), newvals)
        self.setrecv(node, st, exc, nm)
        return [(st, nm[k])]

    def map_keys(self, recv, lv, args, kw, st, node, exc):
        if recv.s == POLY_DICT:
            return [(st, V(POLY_SET, "set()"))]
        return [(st, V(SetS(recv.s.key), recv.s.dom(recv)))]

    def map_copy(self, recv, lv, args, kw, st, node, exc):
        return [(st, recv)]

    def map_clear(self, recv, lv, args, kw, st, node, exc):
        self._mut(lv, node)
        self.setrecv(node, st, exc, recv.s.empty())
        return [(st, S.NONEV())]

    def set_clear(self, recv, lv, args, kw, st, node, exc):
        self._mut(lv, node)
        self.setrecv(node, st, exc, recv.s.empty())
        return [(st, S.NONEV())]

    def map_items(self, recv, lv, args, kw, st, node, exc):
        return [(st, V(ITER, ("items", recv)))]

    def map_values(self, recv, lv, args, kw, st, node, exc):
        return [(st, V(ITER, ("values", recv)))]

    def map_update(self, recv, lv, args, kw, st, node, exc):
        lv = self._mut(lv, node)
        o = args[0]
        if o.s == POLY_DICT:
            return [(st, S.NONEV())]
        if recv.s == POLY_DICT:
            self.setrecv(node, st, exc, o)
            return [(st, S.NONEV())]
        if o.s != recv.s:
            raise EngineError("dict.update with %s (L%d)" % (o.s, node.lineno))
        k = recv.s.key.fresh("k")
        nm = self.fresh(recv.s, "upd", None)
        st.assume(z3.ForAll([k.t], z3.And(
            z3.Select(nm.s.dom(nm), k.t) == z3.Or(z3.Select(recv.s.dom(recv), k.t), z3.Select(o.s.dom(o), k.t)),
            z3.Select(nm.s.vals(nm), k.t) == z3.If(z3.Select(o.s.dom(o), k.t), z3.Select(o.s.vals(o), k.t), z3.Select(recv.s.vals(recv), k.t)))))
        self.setrecv(node, st, exc, nm)
        return [(st, S.NONEV())]

    # ---------------------------------------------------------------- builtin functions
    def _args1(self, e, st, exc, expects=None):
        return [(s1, a, kw) for s1, (a, kw) in self.ev_args(e, st, exc, expects)]

    def bi_len(self, e, st, exc, expect):
        res = []
        for s1, a, kw in self._args1(e, st, exc):
            v = a[0]
            s1, v = self.unwrap(v, s1, e, exc)
            if s1 is None:
                continue
            if isinstance(v.s, (Seq, S._Str)):
                res.append((s1, S.Len(v)))
            elif v.s in (POLY_LIST, POLY_DICT, POLY_SET):
                res.append((s1, S.lift(0)))
            elif isinstance(v.s, Tup):
                res.append((s1, S.lift(len(v.s.elems))))
            elif isinstance(v.s, (SetS, MapS)):
                card = ufunc("Card", SetS(v.s.elem if isinstance(v.s, SetS) else v.s.key), INT)
                t = v.t if isinstance(v.s, SetS) else v.s.dom(v)
                r = V(INT, card(t))
                es = (v.s.elem if isinstance(v.s, SetS) else v.s.key).z3()
                s1.assume(r.t >= 0)
                s1.assume((r.t == 0) == (t == z3.K(es, z3.BoolVal(False))))
                # Wit(s) is a chosen element of a non-empty set; cardinality one means s == {Wit(s)}
                wit = ufunc("Wit", SetS(v.s.elem if isinstance(v.s, SetS) else v.s.key), v.s.elem if isinstance(v.s, SetS) else v.s.key)
                s1.assume(z3.Implies(r.t > 0, z3.Select(t, wit(t))))
                s1.assume((r.t == 1) == (t == z3.Store(z3.K(es, z3.BoolVal(False)), wit(t), True)))
                res.append((s1, r))
            else:
                n = INT.fresh("len")
                s1.assume(n.t >= 0)
                res.append((s1, n))
        return res

    def bi_bool(self, e, st, exc, expect):
        return [(s1, S.truthy(a[0])) for s1, a, kw in self._args1(e, st, exc)]

    def bi_isinstance(self, e, st, exc, expect):
        res = []
        for s1, v in self.ev(e.args[0], st, exc):
            names = [ast.unparse(x) for x in (e.args[1].elts if isinstance(e.args[1], ast.Tuple) else [e.args[1]])]
            r = self.isinstance_of(v, names)
            res.append((s1, r if r is not None else BOOL.fresh("isinstance")))
        return res

    def isinstance_of(self, v, names):
        def one(n):
            n = n.split(".")[-1]
            if v.s == INT:
                return n in ("int",)
            if v.s == BOOL:
                return n in ("bool", "int")
            if v.s == STR:
                return n == "str"
            if v.s == BYTES:
                return n == "bytes"
            if isinstance(v.s, Seq):
                return n == "list"
            if isinstance(v.s, Tup):
                return n in ("tuple", "list")
            if isinstance(v.s, SetS):
                return n in ("set", "frozenset")
            if isinstance(v.s, MapS):
                return n == "dict"
            if v.s == NONE:
                return False
            if v.s == EXC:
                return self.hier.is_sub(v.t, n)
            if isinstance(v.s, Opaque) and n in self.spec.instances.get(v.s.oname, ()):
                return True          # declared by the spec: values of this opaque sort are instances of that class
            if isinstance(v.s, Opaque) and n in getattr(self.spec, "class_tests", {}).get(v.s.oname, ()):
                # declared by the spec: membership in this class is a (deterministic) predicate of the value
                return V(BOOL, ufunc("isinstance_" + n, v.s, BOOL)(v.t))
            return None
        rs = [one(n) for n in names]
        if rs and all(r is not None for r in rs) and any(isinstance(r, V) for r in rs):
            return S.Or(*[r if isinstance(r, V) else (S.TRUE if r else S.FALSE) for r in rs])
        if any(r is None for r in rs):
            if isinstance(v.s, Opt):
                inner = self.isinstance_of(v.s.val(v), names)
                if inner is not None:
                    return S.And(S.Not(v.is_none), inner)
            return None
        return S.lift(any(rs))

    def bi_int(self, e, st, exc, expect):
        res = []
        for s1, a, kw in self._args1(e, st, exc):
            v = a[0]
            if v.s == INT:
                res.append((s1, v))
            elif v.s == BOOL:
                res.append((s1, S.coerce(v, INT)))
            elif isinstance(v.s, S._Str) and len(a) == 1:
                # canonical decimal numerals only: anything else may raise ValueError
                n = z3.StrToInt(v.t)
                bad, ok = self.branch(s1, V(BOOL, n < 0))
                f = ufunc("IntOf", v.s, INT)
                if bad is not None:
                    bad2 = bad.copy()
                    exc.append((bad2, imp_value("ValueError", e.lineno, "int() of a non-numeral")))
                    # "-12", " 12", "+1" etc. are accepted by Python but not by str.to_int: uninterpreted value
                    res.append((bad, V(INT, f(v.t))))
                if ok is not None:
                    res.append((ok, V(INT, n)))
            elif isinstance(v.s, S._Str):
                f = ufunc("IntOfBase", v.s, INT, INT)
                exc.append((s1.copy(), imp_value("ValueError", e.lineno, "int() with base")))
                res.append((s1, V(INT, f(v.t, a[1].t))))
            else:
                exc.append((s1.copy(), exc_value("Exception*", e.lineno, "int() of opaque")))
                res.append((s1, INT.fresh("int")))
        return res

    def bi_str(self, e, st, exc, expect):
        res = []
        for s1, a, kw in self._args1(e, st, exc):
            v = a[0] if a else S.lift("")
            if v.s == STR:
                res.append((s1, v))
            elif v.s == INT:
                t = z3.If(v.t >= 0, z3.IntToStr(v.t), z3.Concat(z3.StringVal("-"), z3.IntToStr(-v.t)))
                res.append((s1, V(STR, t)))
            else:
                res.append((s1, STR.fresh("str")))
        return res

    bi_repr = bi_str

    def bi_min(self, e, st, exc, expect):
        return self._minmax(e, st, exc, True)

    def bi_max(self, e, st, exc, expect):
        return self._minmax(e, st, exc, False)

    def _minmax(self, e, st, exc, is_min):
        res = []
        for s1, a, kw in self._args1(e, st, exc):
            if len(a) >= 2 and all(x.s == INT for x in a):
                cur = a[0]
                for x in a[1:]:
                    cur = S.If((x < cur) if is_min else (x > cur), x, cur)
                res.append((s1, cur))
            elif len(a) == 1 and isinstance(a[0].s, Seq) and a[0].s.elem == INT:
                s1 = self.raise_if(s1, S.Len(a[0]) == 0, "ValueError", e, exc)
                if s1 is None:
                    continue
                m, i, j = INT.fresh("m"), INT.fresh("i"), INT.fresh("j")
                sq = a[0].t
                s1.assume(z3.And(i.t >= 0, i.t < z3.Length(sq), sq[i.t] == m.t))
                s1.assume(z3.ForAll([j.t], z3.Implies(z3.And(j.t >= 0, j.t < z3.Length(sq)), (sq[j.t] >= m.t) if is_min else (sq[j.t] <= m.t))))
                res.append((s1, m))
            else:
                exc.append((s1.copy(), exc_value("Exception*", e.lineno, "min/max")))
                res.append((s1, ANY.fresh("minmax")))
        return res

    def bi_abs(self, e, st, exc, expect):
        return [(s1, S.If(a[0] < 0, -a[0], a[0]) if a[0].s == INT else ANY.fresh("abs")) for s1, a, kw in self._args1(e, st, exc)]

    def bi_sorted(self, e, st, exc, expect):
        res = []
        for s1, a, kw in self._args1(e, st, exc):
            v = a[0]
            if isinstance(v.s, Seq):
                nv = self.fresh(v.s, "sorted", s1)
                self.assume_perm(s1, v, nv)
                kf = kw.get("key")
                if kf is not None and kf.s == FUNC and kf.t[0] == "lambda" and len(kf.t[1].args.args) == 1:
                    self.sorted_by_key(s1, nv, kf.t[1], kw.get("reverse"), exc)
                if v.s.elem in (INT, STR, BYTES):
                    # same members (a permutation), and for integers (without key=/reverse=) the ends are the extremes
                    x = v.s.elem.fresh("m")
                    s1.assume(z3.ForAll([x.t], z3.Contains(v.t, z3.Unit(x.t)) == z3.Contains(nv.t, z3.Unit(x.t))))
                    if v.s.elem == INT and not kw:
                        n_ = z3.Length(nv.t)
                        s1.assume(z3.ForAll([x.t], z3.Implies(z3.Contains(nv.t, z3.Unit(x.t)),
                                                              z3.And(nv.t[0] <= x.t, x.t <= nv.t[n_ - 1]))))
                        s1.assume(z3.Implies(n_ > 0, z3.And(z3.Contains(nv.t, z3.Unit(nv.t[n_ - 1])),
                                                            z3.Contains(nv.t, z3.Unit(nv.t[0])))))
                res.append((s1, nv))
            elif isinstance(v.s, SetS):
                so = Seq(v.s.elem)
                nv = self.fresh(so, "sorted", s1)
                x = v.s.elem.fresh("m")
                s1.assume(z3.ForAll([x.t], z3.Select(v.t, x.t) == z3.Contains(nv.t, z3.Unit(x.t))))
                res.append((s1, nv))
            elif isinstance(v.s, MapS) and not kw:
                # sorted(dict): the keys
                so = Seq(v.s.key)
                nv = self.fresh(so, "sorted", s1)
                x = v.s.key.fresh("m")
                s1.assume(z3.ForAll([x.t], z3.Select(v.s.dom(v), x.t) == z3.Contains(nv.t, z3.Unit(x.t))))
                res.append((s1, nv))
            elif v.s == POLY_LIST:
                res.append((s1, v))
            else:
                exc.append((s1.copy(), exc_value("Exception*", e.lineno, "sorted")))
                res.append((s1, (expect or ANY).fresh("sorted")))
        return res

    def sorted_by_key(self, st, nv, lam, reverse, exc):
        """sorted(seq, key=lambda x: body[, reverse=True]): the result is ordered by the key. The lambda body is evaluated on the
        elements at two quantified positions i <= j; keys are integers, strings or tuples of those (compared lexicographically)."""
        rev = reverse is not None and z3.is_true(S.truthy(reverse).t)
        if reverse is not None and not (z3.is_true(S.truthy(reverse).t) or z3.is_false(S.truthy(reverse).t)):
            return
        i, j = z3.Int(S.fresh_name("si")), z3.Int(S.fresh_name("sj"))
        keys = []
        for idx in (i, j):
            s2 = st.copy()
            s2.env = dict(s2.env)
            s2.env[lam.args.args[0].arg] = V(nv.s.elem, nv.t[idx])
            outs = self.ev(lam.body, s2, [])
            if len(outs) != 1:
                return
            keys.append(outs[0][1])
        le = self.key_le(keys[1], keys[0]) if rev else self.key_le(keys[0], keys[1])
        if le is None:
            return
        st.assume(z3.ForAll([i, j], z3.Implies(z3.And(0 <= i, i <= j, j < z3.Length(nv.t)), le.t)))

    def key_le(self, a, b):
        if a.s != b.s:
            return None
        if a.s == INT:
            return V(BOOL, a.t <= b.t)
        if isinstance(a.s, S._Str):
            return V(BOOL, z3.Or(a.t == b.t, a.t < b.t))
        if isinstance(a.s, Opt) and isinstance(a.s.inner, S._Str):
            return None
        if isinstance(a.s, Tup):
            res = S.TRUE
            for k in range(len(a.s.elems) - 1, -1, -1):
                x, y = a.s.get(a, k), b.s.get(b, k)
                lt = self.key_lt(x, y)
                if lt is None:
                    return None
                res = S.Or(lt, S.And(S.eq(x, y), res))
            return res
        return None

    def key_lt(self, a, b):
        if a.s == INT:
            return V(BOOL, a.t < b.t)
        if isinstance(a.s, S._Str):
            return V(BOOL, a.t < b.t)
        return None

    def bi_list(self, e, st, exc, expect):
        res = []
        for s1, a, kw in self._args1(e, st, exc):
            if not a:
                res.append((s1, V(POLY_LIST, "[]") if not isinstance(expect, Seq) else V(expect, z3.Empty(expect.z3()))))
                continue
            v = a[0]
            if isinstance(v.s, Seq) or v.s == POLY_LIST:
                res.append((s1, v))
            elif isinstance(v.s, SetS):
                so = Seq(v.s.elem)
                nv = self.fresh(so, "aslist", s1)
                x = v.s.elem.fresh("m")
                s1.assume(z3.ForAll([x.t], z3.Select(v.t, x.t) == z3.Contains(nv.t, z3.Unit(x.t))))
                res.append((s1, nv))
            elif isinstance(v.s, Tup) and len(set(x.name for x in v.s.elems)) == 1:
                so = Seq(v.s.elems[0])
                nv = self.fresh(so, "aslist", None)
                self.note_concat(s1, nv, [("unit", v.s.get(v, i)) for i in range(len(v.s.elems))])
                res.append((s1, nv))
            else:
                exc.append((s1.copy(), exc_value("Exception*", e.lineno, "list() of opaque iterable")))
                res.append((s1, self.fresh(expect if isinstance(expect, Seq) else Seq(ANY), "aslist", s1)))
        return res

    def bi_tuple(self, e, st, exc, expect):
        return self.bi_list(e, st, exc, expect)

    def bi_set(self, e, st, exc, expect):
        res = []
        for s1, a, kw in self._args1(e, st, exc):
            if not a:
                res.append((s1, expect.empty() if isinstance(expect, SetS) else V(POLY_SET, "set()")))
                continue
            v = a[0]
            if isinstance(v.s, SetS):
                res.append((s1, v))
            elif isinstance(v.s, Seq):
                res.append((s1, self._as_set(v, SetS(v.s.elem), s1)))
            elif isinstance(v.s, MapS):
                res.append((s1, V(SetS(v.s.key), v.s.dom(v))))
            elif v.s in (POLY_LIST, POLY_SET, POLY_DICT):
                res.append((s1, expect.empty() if isinstance(expect, SetS) else V(POLY_SET, "set()")))
            elif isinstance(v.s, Tup) and len(set(x.name for x in v.s.elems)) == 1:
                so = SetS(v.s.elems[0])
                t = so.empty().t
                for i in range(len(v.s.elems)):
                    t = z3.Store(t, v.s.get(v, i).t, True)
                res.append((s1, V(so, t)))
            else:
                exc.append((s1.copy(), exc_value("Exception*", e.lineno, "set() of opaque iterable")))
                res.append((s1, self.fresh(expect if isinstance(expect, SetS) else SetS(ANY), "asset", s1)))
        return res

    bi_frozenset = bi_set

    def bi_dict(self, e, st, exc, expect):
        res = []
        for s1, a, kw in self._args1(e, st, exc):
            if not a and not kw:
                res.append((s1, expect.empty() if isinstance(expect, MapS) else V(POLY_DICT, "{}")))
            elif a and isinstance(a[0].s, MapS):
                res.append((s1, a[0]))
            else:
                exc.append((s1.copy(), exc_value("Exception*", e.lineno, "dict()")))
                res.append((s1, self.fresh(expect if isinstance(expect, MapS) else ANY, "asdict", s1)))
        return res

    def bi_getattr(self, e, st, exc, expect):
        if isinstance(e.args[1], ast.Constant) and isinstance(e.args[1].value, str):
            res = []
            for s1, v in self.ev(e.args[0], st, exc):
                sub_exc = []
                r = self.get_attr(v, e.args[1].value, s1, e, sub_exc)
                if len(e.args) == 3:
                    r2 = self.ev(e.args[2], s1.copy(), exc)
                    declared = ("%s.%s" % (getattr(v.s, "oname", v.s.name), e.args[1].value)) in self.spec.attr_sorts
                    if isinstance(v.s, Obj) or declared:
                        res.extend(r)       # declared object / declared attribute (None modelled by its Opt sort)
                    else:
                        res.extend(r + r2)  # opaque: either
                else:
                    exc.extend(sub_exc)
                    res.extend(r)
            return res
        # a name that evaluates to a concrete string (e.g. the variable of an unrolled literal loop)
        r0 = self.ev(e.args[1], st, [])
        if len(r0) == 1 and z3.is_string_value(r0[0][1].t):
            import copy
            e2 = copy.copy(e)
            e2.args = [e.args[0], ast.copy_location(ast.Constant(value=r0[0][1].t.as_string()), e.args[1])] + list(e.args[2:])
            return self.bi_getattr(e2, st, exc, expect)
        raise EngineError("getattr with a computed name (L%d)" % e.lineno)

    def bi_hasattr(self, e, st, exc, expect):
        return [(s1, BOOL.fresh("hasattr")) for s1, a, kw in self._args1(e, st, exc)]

    def bi_callable(self, e, st, exc, expect):
        return [(s1, BOOL.fresh("callable")) for s1, a, kw in self._args1(e, st, exc)]

    def bi_id(self, e, st, exc, expect):
        return [(s1, INT.fresh("id")) for s1, a, kw in self._args1(e, st, exc)]

    def bi_type(self, e, st, exc, expect):
        return [(s1, ANY.fresh("type")) for s1, a, kw in self._args1(e, st, exc)]

    def bi_sum(self, e, st, exc, expect):
        res = []
        for s1, a, kw in self._args1(e, st, exc):
            r = INT.fresh("sum")
            v = a[0]
            if isinstance(v.s, Seq) and v.s.elem == INT:
                for f in self.folds_for(v.s):
                    if f.kind == "sum" and getattr(f, "identity", False):
                        s1.assume(r.t == f.f(v.t))
            res.append((s1, r))
        return res

    def bi_super(self, e, st, exc, expect):
        return [(st, V(PySide("super"), "super"))]

    def bi_range(self, e, st, exc, expect):
        res = []
        for s1, a, kw in self._args1(e, st, exc):
            lo, hi = (S.lift(0), a[0]) if len(a) == 1 else (a[0], a[1])
            if len(a) == 3:
                raise EngineError("range with a step (L%d)" % e.lineno)
            res.append((s1, V(ITER, ("range", lo, hi))))
        return res

    def bi_enumerate(self, e, st, exc, expect):
        return [(s1, V(ITER, ("enumerate", a[0], a[1] if len(a) > 1 else kw.get("start", S.lift(0))))) for s1, a, kw in self._args1(e, st, exc)]

    def bi_zip(self, e, st, exc, expect):
        return [(s1, V(ITER, ("zip",) + tuple(a))) for s1, a, kw in self._args1(e, st, exc)]

    def bi_reversed(self, e, st, exc, expect):
        res = []
        for s1, a, kw in self._args1(e, st, exc):
            v = a[0]
            if isinstance(v.s, Opt) and isinstance(v.s.inner, Seq):
                s1 = self.raise_if(s1, v.is_none, "TypeError", e, exc, "reversed(None)")
                if s1 is None:
                    continue
                v = v.s.val(v)
            if isinstance(v.s, Seq):
                nv = self.fresh(v.s, "rev", s1)
                self.assume_perm(s1, v, nv)
                rv = self.spec.rev.get(v.s.name)
                if rv is not None:
                    s1.assume(nv.t == rv(v.t))
                    s1.assume(rv(nv.t) == v.t)
                i = INT.fresh("i")
                s1.assume(z3.ForAll([i.t], z3.Implies(z3.And(i.t >= 0, i.t < z3.Length(v.t)),
                                                      nv.t[i.t] == v.t[z3.Length(v.t) - 1 - i.t])))
                res.append((s1, nv))
            else:
                res.append((s1, V(ITER, ("opaque", ANY.fresh("rev")))))
        return res

    def bi_next(self, e, st, exc, expect):
        """next(it) for a one-shot iterator held in a local variable and modelled by the sequence of items still to come:
        yields its head and rebinds the variable to the tail; StopIteration when nothing is left (exact for generators)."""
        if len(e.args) != 1 or not isinstance(e.args[0], ast.Name) or e.args[0].id not in st.env \
                or not isinstance(st.env[e.args[0].id].s, Seq):
            return self.opaque_call(e, st, exc, expect)
        name = e.args[0].id
        cur = st.env[name]
        ok = self.raise_if(st, S.Len(cur) == 0, "StopIteration", e, exc, "next() on an exhausted iterator")
        if ok is None:
            return []
        head = V(cur.s.elem, cur.t[0])
        rest = self.fresh(cur.s, name + "_rest", ok)
        ok.assume(rest.t == z3.SubSeq(cur.t, 1, z3.Length(cur.t) - 1))
        self.note_concat(ok, cur, [("unit", head), ("seq", rest)])
        ok.env[name] = rest
        ok.touch()
        return [(ok, head)]

    def bi_iter(self, e, st, exc, expect):
        return [(s1, a[0]) for s1, a, kw in self._args1(e, st, exc)]


def _short(text):
    return "".join(ch if ch.isalnum() else "_" for ch in text)[-30:]


def _pname(p):
    return p[0] if isinstance(p, tuple) else p
