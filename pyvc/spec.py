"""Spec DSL: what a sidecar file in /verif/specs may say.

A spec file is executed with the names exported here. It registers classes,
ghost variables, contracts (assumed or verified), targets, loops, folds and
lemmas on the current Spec object. It must not use the solver API directly
(the check greps for `import z3`).
"""
import re
import z3
from .sorts import *  # noqa: F401,F403
from . import sorts as S


class ClassDecl:
    def __init__(self, name, fields, pure_methods=(), path=None):
        self.name, self.fields, self.pure_methods, self.path = name, dict(fields), set(pure_methods), path


class Contract:
    """Contract of a callee as seen at a call site.

    key: source text of the callee expression (`self._real_lock.unlock`), a
    compiled regex on that text, or ("Class", "method") for typed receivers.
    Lambdas take one argument, a Ctx (see engine.Ctx).
    """

    def __init__(self, key, kind, requires=None, ensures=None, raises=None, modifies=(),
                 result=None, returns=None, label=None, pure=False, params=None, note=None,
                 no_raise=False, mutates_args=()):
        self.key, self.kind = key, kind
        self.requires, self.ensures = requires, ensures
        self.raises = dict(raises or {})
        self.modifies = tuple(modifies)
        self.result, self.returns = result, returns
        self.label = label or (key if isinstance(key, str) else (key.pattern if hasattr(key, "pattern") else ".".join(key)))
        self.pure = pure
        self.params = params
        self.note = note
        self.no_raise = no_raise
        self.mutates_args = tuple(mutates_args)

    def matches(self, text):
        if isinstance(self.key, str):
            return self.key == text
        if hasattr(self.key, "pattern"):
            return self.key.fullmatch(text) is not None
        return False


class Loop:
    def __init__(self, anchor, inv, decreases=None, index=None, done=None, modifies=(), note=None, prefix=None, body_post=None,
                 hints=None):
        self.anchor, self.inv, self.decreases = anchor, inv, decreases
        self.hints = hints              # instances of stated axioms/definitions, assumed at the loop head (listed as trusted)
        self.body_post = body_post      # checked at the end of every iteration (trace-based: c.calls_in_iteration)
        self.index, self.done, self.modifies, self.note, self.prefix = index, done, tuple(modifies), note, prefix


class Target:
    def __init__(self, ref, **kw):
        self.ref = ref
        path, qual = ref.split("::")
        self.path, self.qualname = path.strip(), qual.strip()
        self.cls = kw.pop("cls", None)
        contract = kw.pop("contract", None)
        self.contract = contract
        if contract is not None:
            kw.setdefault("requires", contract.requires)
            kw.setdefault("ensures", contract.ensures)
            if contract.raises or contract.no_raise:
                kw.setdefault("raises", dict(contract.raises))
            kw.setdefault("modifies", list(contract.modifies))
            if contract.result is not None:
                kw.setdefault("result", contract.result)
        self.params = dict(kw.pop("params", {}))
        self.locals = dict(kw.pop("locals", {}))
        self.requires = kw.pop("requires", None)
        self.ensures = kw.pop("ensures", None)          # lambda c -> Bool, or dict name->lambda
        self.raises = kw.pop("raises", None)            # dict cls -> lambda c | None (None: no exception may escape)
        self.modifies = kw.pop("modifies", None)        # None: no frame check
        self.loops = dict(kw.pop("loops", {}))
        self.canary = kw.pop("canary", None)
        self.raise_canary = kw.pop("raise_canary", None)
        self.crash_inv = kw.pop("crash_inv", None)
        self.result = kw.pop("result", None)
        self.block = kw.pop("block", None)              # (first_line_regex, last_line_regex)
        self.contract_key = kw.pop("contract_key", None)
        self.equivalent_mutants = dict(kw.pop("equivalent_mutants", {}))
        self.skip_mutants = kw.pop("skip_mutants", False)
        self.quick_mutants = kw.pop("quick_mutants", 10)     # mutants per quick run (heavy targets lower it)
        self.partial = kw.pop("partial", False)
        self.generator = kw.pop("generator", None)
        self.faults = kw.pop("faults", "Exception")
        self.note = kw.pop("note", None)
        self.nested = kw.pop("nested", None)
        self.hints = kw.pop("hints", None)              # instances of stated axioms/definitions, assumed at every exit
        self.variant = kw.pop("variant", None)          # second contract on the same function (e.g. under interference)
        self.local_contracts = list(kw.pop("local_contracts", ()))   # callee contracts that hold for this target only
        self.display = self.qualname + ("[%s]" % self.variant if self.variant else "")
        if self.variant:
            self.ref = self.ref + "[%s]" % self.variant
        self.extra = kw
        if kw:
            raise TypeError("unknown target options: %s" % ", ".join(kw))


class Fold:
    """sum: Int-valued, all: Bool-valued, cat: sequence-valued homomorphism over concatenation."""

    def __init__(self, name, sort, elem, kind, rsort=None):
        self.name, self.sort, self.elem, self.kind = name, sort, elem, kind
        self.rsort = rsort if kind == "cat" else (S.INT if kind == "sum" else S.BOOL)
        self.f = z3.Function(name, sort.z3(), self.rsort.z3())

    def __call__(self, v):
        v = S.lift(v, self.sort)
        return S.V(self.rsort, self.f(v.t))

    def unit(self):
        """value at the empty sequence (z3 term)"""
        if self.kind == "sum":
            return z3.IntVal(0)
        if self.kind == "all":
            return z3.BoolVal(True)
        return z3.Empty(self.rsort.z3())

    def combine(self, vals):
        if not vals:
            return self.unit()
        if len(vals) == 1:
            return vals[0]
        if self.kind == "sum":
            return z3.Sum(*vals)
        if self.kind == "all":
            return z3.And(*vals)
        return z3.Concat(*vals)


class SeqLemma:
    def __init__(self, name, sort, stmt):
        self.name, self.sort, self.stmt = name, sort, stmt


class Lemma:
    def __init__(self, name, consts, hyps, goal, note=None):
        self.name, self.consts, self.hyps, self.goal, self.note = name, consts, hyps, goal, note


class Spec:
    def __init__(self, prop):
        self.prop = prop
        self.classes = {}
        self.ghosts = {}
        self.contracts = []
        self.local_contracts = []
        self.instances = {}
        self.exc_attrs = {}
        self.targets = []
        self.folds = []
        self.seq_lemmas = []
        self.lemmas = []
        self.exc_parents = {}
        self.attr_sorts = {}
        self.class_tests = {}
        self.consts = {}
        self.assumptions = []
        self.undecided = []
        self.pure_calls = set()
        self.known = []
        self.extra_checks = []
        self.funcs = {}
        self.rev = {}

    # ---- registration API (exposed to spec files)
    def api(self):
        sp = self

        def cls(name, fields=None, pure_methods=(), path=None, **kw):
            d = ClassDecl(name, fields or kw, pure_methods, path)
            sp.classes[name] = d
            return S.Obj(name)

        def ghost(**kw):
            sp.ghosts.update(kw)

        def assumed(key, local=False, **kw):
            c = Contract(key, "assumed", **kw)
            if local:
                sp.local_contracts.append(c)
            else:
                sp.contracts.append(c)
            return c

        def verified(key, local=False, **kw):
            c = Contract(key, "verified", **kw)
            if local:
                sp.local_contracts.append(c)
            else:
                sp.contracts.append(c)
            return c

        def target(ref, **kw):
            t = Target(ref, **kw)
            sp.targets.append(t)
            return t

        def loop(anchor, inv, **kw):
            return Loop(anchor, inv, **kw)

        def fold_sum(name, sort, elem):
            f = Fold(sp.prop + "_" + name, sort, elem, "sum")
            sp.folds.append(f)
            return f

        def fold_all(name, sort, pred):
            f = Fold(sp.prop + "_" + name, sort, pred, "all")
            sp.folds.append(f)
            return f

        def fold_cat(name, sort, rsort, elem):
            f = Fold(sp.prop + "_" + name, sort, elem, "cat", rsort)
            sp.folds.append(f)
            return f

        def use_rev(sort):
            """Reversal as a spec function with its operation lemmas (Rev(a++b) = Rev(b)++Rev(a), Rev(Rev(x)) = x)."""
            f = z3.Function("Rev_" + S._mangle(sort.name), sort.z3(), sort.z3())
            sp.rev[sort.name] = f
            return lambda v: S.V(sort, f(S.lift(v, sort).t))

        def fold_unit(fold, x):
            """Definitional instance F([x]) == f(x) (always true): a proof hint usable in lemmas."""
            x = S.lift(x, fold.sort.elem)
            return S.V(S.BOOL, fold.f(z3.Unit(x.t)) == S.lift(fold.elem(x)).t)

        def rev_hints(a, b=None):
            """Axiom instances of list reversal: Rev(Rev(a)) == a, |Rev(a)| == |a|, Rev(a ++ b) == Rev(b) ++ Rev(a)."""
            rv = sp.rev[a.s.name]
            facts = [rv(rv(a.t)) == a.t, z3.Length(rv(a.t)) == z3.Length(a.t), z3.Implies(z3.Length(a.t) == 0, rv(a.t) == a.t)]
            if b is not None:
                facts += [rv(z3.Concat(a.t, b.t)) == z3.Concat(rv(b.t), rv(a.t)), rv(rv(b.t)) == b.t,
                          z3.Implies(z3.Length(b.t) == 0, rv(b.t) == b.t)]
            return S.V(S.BOOL, z3.And(*facts))

        def attr(v, name):
            """The attribute `name` of an opaque value, as the engine reads it (a function of the value)."""
            from .expr import attr_func
            key = "%s.%s" % (getattr(v.s, "oname", v.s.name), name)
            rs = sp.attr_sorts.get(key) or sp.attr_sorts.get("*." + name) or S.ANY
            return S.V(rs, attr_func(name, v.s, rs)(v.t))

        def seq_lemma(name, sort, stmt):
            l = SeqLemma(name, sort, stmt)
            sp.seq_lemmas.append(l)
            return l

        def lemma(name, consts, hyps, goal, note=None):
            l = Lemma(name, consts, hyps, goal, note)
            sp.lemmas.append(l)
            return l

        def exceptions(**parents):
            sp.exc_parents.update(parents)

        def instance_of(sort, *classes):
            """Values of the opaque sort are instances of the named classes (isinstance answers True)."""
            sp.instances.setdefault(sort.oname, set()).update(classes)
            sp.assumptions.append("values of sort %s are instances of %s" % (sort.oname, ", ".join(classes)))

        def always_truthy(sort, why):
            """Values of this opaque sort are plain objects without __bool__/__len__ (stated assumption)."""
            S.ALWAYS_TRUTHY.add(sort.oname)
            sp.assumptions.append("objects of sort %s are always truthy: %s" % (sort.oname, why))

        def Card(v):
            """len() of a set or dict as the engine encodes it (uninterpreted cardinality of the set / key set)."""
            from .calls import ufunc as _cu
            v = S.lift(v)
            so = S.SetS(v.s.elem if isinstance(v.s, S.SetS) else v.s.key)
            t = v.t if isinstance(v.s, S.SetS) else v.s.dom(v)
            return S.V(S.INT, _cu("Card", so, S.INT)(t))

        def StartsWith(s_, p_):
            s_, p_ = S.lift(s_), S.lift(p_)
            return S.V(S.BOOL, z3.PrefixOf(p_.t, s_.t))

        def EndsWith(s_, p_):
            s_, p_ = S.lift(s_), S.lift(p_)
            return S.V(S.BOOL, z3.SuffixOf(p_.t, s_.t))

        def exc_attr(name, fn):
            """The attribute `name` of a caught exception object reads as fn(ctx) (e.g. a ghost holding the last errno)."""
            sp.exc_attrs[name] = fn

        def class_tests(sort, names):
            """isinstance(value of this opaque sort, <one of names>) is a deterministic predicate IsA(value, name) (spec side: is_a)."""
            sp.class_tests.setdefault(sort.oname, set()).update(names)

        def is_a(v, name):
            from .calls import ufunc as _cu
            v = S.lift(v)
            return S.V(S.BOOL, _cu("isinstance_" + name, v.s, S.BOOL)(v.t))

        def Rep(s_, n_):
            """s * n for a symbolic count, as the engine encodes it (uninterpreted repetition)."""
            from .calls import ufunc as _cu
            s_, n_ = S.lift(s_), S.lift(n_)
            return S.V(s_.s, _cu("StrRep_" + s_.s.name, s_.s, S.INT, s_.s)(s_.t, n_.t))

        def alias(expr_text):
            """Sort marker for a block input that is bound to a container's method, e.g. params=dict(a=alias("r.append"))."""
            return ("alias", expr_text)

        def attr_sort(name, sort):
            sp.attr_sorts[name] = sort

        def const(name, value):
            sp.consts[name] = value

        def assume_note(text):
            sp.assumptions.append(text)

        def undecided(text):
            sp.undecided.append(text)

        def pure(*names):
            sp.pure_calls.update(names)

        def ufunc(name, *sorts):
            """Uninterpreted spec function: sorts = arg sorts..., result sort."""
            f = z3.Function(sp.prop + "_" + name, *[s.z3() for s in sorts])
            rs = sorts[-1]

            def call(*args):
                args = [S.lift(a, s) for a, s in zip(args, sorts[:-1])]
                def _fit(a, s):      # Optional[T] read as T
                    if a.s == s:
                        return a
                    c_ = S.coerce(a, s)
                    return a if c_ is None else c_
                args = [_fit(a, s) for a, s in zip(args, sorts[:-1])]
                return S.V(rs, f(*[a.t for a in args]))
            sp.funcs[name] = call
            return call

        def forall(sorts_, body, patterns=None):
            vs = [s.fresh("q") for s in sorts_]
            b = S.lift(body(*vs))
            return S.V(S.BOOL, z3.ForAll([v.t for v in vs], b.t))

        def exists(sorts_, body):
            vs = [s.fresh("q") for s in sorts_]
            b = S.lift(body(*vs))
            return S.V(S.BOOL, z3.Exists([v.t for v in vs], b.t))

        def extra_check(fn):
            sp.extra_checks.append(fn)
            return fn

        def census(method, files, expected, why):
            """Call-site census: every call `<x>.method(...)` in the given files must be one of `expected`
            [(file, enclosing qualname)]; a new caller is spec drift (it needs a contract first)."""
            import ast as _ast
            import os as _os
            from .state import SpecDrift

            def run(repo):
                found = []
                for f in files:
                    tree = _ast.parse(open(_os.path.join(repo, f)).read())

                    def walk(node, qual):
                        for ch in _ast.iter_child_nodes(node):
                            q = qual
                            if isinstance(ch, (_ast.FunctionDef, _ast.ClassDef)):
                                q = (qual + "." if qual else "") + ch.name
                            if isinstance(ch, _ast.Call) and isinstance(ch.func, _ast.Attribute) and ch.func.attr == method:
                                found.append((f, qual))
                            walk(ch, q)
                    walk(tree, "")
                extra = sorted(set(found) - set(expected))
                if extra:
                    raise SpecDrift("new caller of %s without a contract: %s (%s)" % (method, extra, why))
            sp.extra_checks.append(run)
            sp.assumptions.append("census: %s is called only from %s" % (method, expected))

        def include(name):
            """Execute another spec fragment (specs/<name>) in this spec's namespace (shared models)."""
            import os as _os
            pth = _os.path.join(_os.path.dirname(_os.path.dirname(_os.path.abspath(__file__))), "specs", name)
            src = open(pth).read()
            if re.search(r"^\s*(import|from)\s+z3\b", src, re.M):
                raise RuntimeError("spec fragment %s uses the solver API directly" % name)
            exec(compile(src, pth, "exec"), ns)

        ns = dict(cls=cls, ghost=ghost, assumed=assumed, verified=verified, target=target, loop=loop,
                  fold_sum=fold_sum, fold_all=fold_all, fold_cat=fold_cat, use_rev=use_rev, fold_unit=fold_unit, rev_hints=rev_hints, attr=attr, seq_lemma=seq_lemma, lemma=lemma,
                  exceptions=exceptions, attr_sort=attr_sort, Rep=Rep, alias=alias, class_tests=class_tests, is_a=is_a, instance_of=instance_of, exc_attr=exc_attr, StartsWith=StartsWith, EndsWith=EndsWith, Card=Card, always_truthy=always_truthy, const=const, assume_note=assume_note,
                  undecided=undecided, pure=pure, ufunc=ufunc, forall=forall, exists=exists,
                  extra_check=extra_check, census=census, include=include, rx=re.compile, SPEC=sp)
        for k in ("INT BOOL STR BYTES NONE ANY Seq Tup Opt SetS MapS Opaque Enum Obj V If And Or Not Implies "
                  "Len In TRUE FALSE lift eq truthy mkset mapstore mapdel mapeq").split():
            ns[k] = getattr(S, k)
        return ns


def load_spec(path, prop):
    sp = Spec(prop)
    src = open(path).read()
    if re.search(r"^\s*(import|from)\s+z3\b", src, re.M):
        raise RuntimeError("spec %s uses the solver API directly" % path)
    ns = sp.api()
    ns["__file__"] = path
    exec(compile(src, path, "exec"), ns)
    sp.ns = ns
    return sp
