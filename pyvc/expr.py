"""Expression evaluation (mixin for the engine)."""
import ast
import z3

from . import sorts as S
from .sorts import V, INT, BOOL, STR, BYTES, NONE, ANY, Seq, Tup, Opt, SetS, MapS, Opaque, Enum, Obj, PySide, EXC, FUNC
from .state import EngineError, SpecDrift
from .engine import GLOB, POLY_LIST, POLY_DICT, POLY_SET, ITER, LValue, exc_value, imp_value, LOGGING_CALLS, EXC_NAME

_attr_funcs = {}


def attr_func(name, arg_sort, res_sort):
    key = (name, arg_sort.name, res_sort.name)
    if key not in _attr_funcs:
        _attr_funcs[key] = z3.Function("attr_%s_%d" % (name, len(_attr_funcs)), arg_sort.z3(), res_sort.z3())
    return _attr_funcs[key]


class ExprMixin:
    # ---------------------------------------------------------------- helpers
    def ev1(self, e, st, exc, expect=None):
        """Evaluate an expression that must not fork on the normal path."""
        r = self.ev(e, st, exc, expect)
        if len(r) != 1:
            raise EngineError("expression forks where a single value is needed: %s (L%d)" % (ast.unparse(e), e.lineno))
        return r[0]

    def ev_seq(self, exprs, st, exc, expects=None):
        outs = [(st, [])]
        for i, e in enumerate(exprs):
            nxt = []
            for s0, vals in outs:
                for s1, v in self.ev(e, s0, exc, expects[i] if expects else None):
                    nxt.append((s1, vals + [v]))
            outs = nxt
        return outs

    def raise_if(self, st, cond, cls, node, exc, note=None):
        """Fork an implicit exception when `cond` may hold; returns the state where it does not (or None)."""
        bad, ok = self.branch(st, cond)
        if bad is not None:
            exc.append((bad, imp_value(cls, getattr(node, "lineno", 0), note or ast.unparse(node))))
        return ok

    def unwrap(self, v, st, node, exc):
        """Opt(T) used where T is needed: fork TypeError/AttributeError on None."""
        if isinstance(v.s, Opt):
            ok = self.raise_if(st, v.is_none, "TypeError", node, exc, "None used as a value: " + ast.unparse(node))
            return ok, v.s.val(v)
        return st, v

    # ---------------------------------------------------------------- dispatcher
    def ev(self, e, st, exc, expect=None):
        m = getattr(self, "ev_" + type(e).__name__, None)
        if m is None:
            return self.ev_unsupported(e, st, exc, expect)
        outs = m(e, st, exc, expect)
        if expect is not None:
            res = []
            for s1, v in outs:
                c = self.coerce(v, expect)
                res.append((s1, c if c is not None else v))
            return res
        return outs

    def ev_unsupported(self, e, st, exc, expect):
        for n in ast.walk(e):
            if isinstance(n, (ast.Call, ast.Await, ast.Yield, ast.YieldFrom, ast.NamedExpr)):
                raise EngineError("unsupported expression with possible effects: %s (L%d)" % (ast.unparse(e), e.lineno))
        self.notes.append("opaque expression L%d: %s" % (e.lineno, ast.unparse(e)[:80]))
        return [(st, (expect or ANY).fresh("expr"))]

    def ev_Constant(self, e, st, exc, expect):
        c = e.value
        if c is Ellipsis:
            return [(st, ANY.fresh("ellipsis"))]
        if isinstance(c, float):
            return [(st, ANY.fresh("float"))]
        hint = expect
        if isinstance(c, (str, bytes)) and not (isinstance(hint, Enum) or (isinstance(hint, Opt) and isinstance(hint.inner, Enum))):
            hint = None
        return [(st, S.lift(c, hint))]

    def ev_Name(self, e, st, exc, expect):
        n = e.id
        if n in st.env:
            return [(st, st.env[n])]
        if n in self.spec.consts:
            return [(st, S.lift(self.spec.consts[n], expect))]
        if n == "True":
            return [(st, S.TRUE)]
        if n == "False":
            return [(st, S.FALSE)]
        if n == "None":
            return [(st, S.NONEV())]
        if n in self.local_names and n not in self.global_reads:
            # read of a local before assignment on this path
            exc.append((st, imp_value("UnboundLocalError", e.lineno, n)))
            return []
        if n not in self.module_names:
            exc.append((st, imp_value("NameError", e.lineno, n)))
            return []
        return [(st, V(GLOB, n))]

    def ev_Attribute(self, e, st, exc, expect):
        text = ast.unparse(e)
        if text in self.spec.consts:
            return [(st, S.lift(self.spec.consts[text], expect))]
        res = []
        for s1, base in self.ev(e.value, st, exc):
            res.extend(self.get_attr(base, e.attr, s1, e, exc))
        return res

    def get_attr(self, base, attr, st, node, exc):
        if isinstance(base.s, Obj):
            decl = self.class_decl(base.s.cls)
            if decl and attr not in decl.fields and (("%s.%s" % (base.s.cls, attr)) in self.method_names):
                return [(st, V(FUNC, ("bound", base, attr)))]
            return [(st, self.read_field(st, base, attr))]
        if base.s == GLOB:
            return [(st, V(GLOB, base.t + "." + attr))]
        if isinstance(base.s, Opt):
            ok = self.raise_if(st, base.is_none, "AttributeError", node, exc, "attribute of None: " + ast.unparse(node))
            if ok is None:
                return []
            return self.get_attr(base.s.val(base), attr, ok, node, exc)
        if base.s == NONE:
            exc.append((st, imp_value("AttributeError", node.lineno, ast.unparse(node))))
            return []
        if base.s == EXC and attr in self.spec.exc_attrs:
            from .state import Ctx
            return [(st, S.lift(self.spec.exc_attrs[attr](Ctx(self, st))))]
        if base.s.pyside:
            return [(st, V(FUNC, ("attr", base, attr)))]
        key = "%s.%s" % (getattr(base.s, "oname", base.s.name), attr)
        rs = self.spec.attr_sorts.get(key) or self.spec.attr_sorts.get("*." + attr) or ANY
        if key in self.spec.mutable_attrs if hasattr(self.spec, "mutable_attrs") else False:
            return [(st, rs.fresh(attr))]
        return [(st, V(rs, attr_func(attr, base.s, rs)(base.t)))]

    # ---------------------------------------------------------------- operators
    def ev_UnaryOp(self, e, st, exc, expect):
        res = []
        for s1, v in self.ev(e.operand, st, exc):
            if isinstance(e.op, ast.Not):
                res.append((s1, S.Not(S.truthy(v))))
            elif isinstance(e.op, ast.USub):
                s1, v = self.unwrap(v, s1, e, exc)
                if s1 is None:
                    continue
                if v.s != INT:
                    res.append((s1, ANY.fresh("neg")))
                else:
                    res.append((s1, -v))
            elif isinstance(e.op, ast.UAdd):
                res.append((s1, v))
            else:
                res.append((s1, ANY.fresh("unary")))
        return res

    def ev_BinOp(self, e, st, exc, expect):
        res = []
        for s1, (a, b) in self.ev_seq([e.left, e.right], st, exc):
            res.extend(self.binop(e.op, a, b, s1, e, exc))
        return res

    def binop(self, op, a, b, st, node, exc):
        st, a = self.unwrap(a, st, node, exc)
        if st is None:
            return []
        st, b = self.unwrap(b, st, node, exc)
        if st is None:
            return []
        if a.s == BOOL and b.s == INT:
            a = S.coerce(a, INT)
        if b.s == BOOL and a.s == INT:
            b = S.coerce(b, INT)
        if a.s == INT and b.s == INT:
            if isinstance(op, ast.Add):
                return [(st, a + b)]
            if isinstance(op, ast.Sub):
                return [(st, a - b)]
            if isinstance(op, ast.Mult):
                return [(st, a * b)]
            if isinstance(op, (ast.FloorDiv, ast.Mod)):
                st = self.raise_if(st, b == 0, "ZeroDivisionError", node, exc)
                if st is None:
                    return []
                # Python floor semantics; z3 div/mod are Euclidean (agree for b > 0)
                q, r = a.t / b.t, a.t % b.t
                if isinstance(op, ast.FloorDiv):
                    # for b < 0: floor(a/b) = -ceil(a/-b); encode exactly
                    nb = -b.t
                    qn, rn = a.t / nb, a.t % nb          # a = qn*nb + rn, 0<=rn<nb
                    floor_neg = z3.If(rn == 0, -qn, -qn - 1)
                    return [(st, V(INT, z3.If(b.t > 0, q, floor_neg)))]
                nb = -b.t
                rn = a.t % nb
                mod_neg = z3.If(rn == 0, 0, rn - nb)
                return [(st, V(INT, z3.If(b.t > 0, r, mod_neg)))]
            if isinstance(op, ast.Pow):
                if z3.is_int_value(b.t) and 0 <= b.t.as_long() <= 4:
                    r = S.lift(1)
                    for _ in range(b.t.as_long()):
                        r = r * a
                    return [(st, r)]
                f = self.spec.funcs.get("Pow")
                if f is not None:
                    return [(st, f(a, b))]
                return [(st, INT.fresh("pow"))]
            return [(st, INT.fresh("intop"))]
        if isinstance(a.s, (Seq, S._Str)) and isinstance(op, ast.Add):
            if b.s == POLY_LIST:
                return [(st, a)]
            bb = self.coerce(b, a.s)
            if bb is None:
                if isinstance(a.s, S._Str):
                    exc.append((st, imp_value("TypeError", node.lineno, "concat " + ast.unparse(node))))
                    return []
                raise EngineError("concatenation of %s and %s (L%d)" % (a.s, b.s, node.lineno))
            r = a + bb
            if isinstance(a.s, Seq):
                nv = self.fresh(a.s, "cat", None)
                self.note_concat(st, nv, [("seq", a), ("seq", bb)])
                return [(st, nv)]
            return [(st, r)]
        if a.s == POLY_LIST and isinstance(op, ast.Add):
            return [(st, b)]
        if isinstance(a.s, S._Str) and isinstance(op, ast.Mod):
            r = self.format_percent(a, b, node)
            return [(st, r if r is not None else a.s.fresh("fmt"))]
        if isinstance(a.s, S._Str) and isinstance(op, ast.Mult) and b.s == INT:
            if z3.is_string_value(a.t) and z3.is_int_value(b.t) and 0 <= b.t.as_long() <= 64:
                n_ = b.t.as_long()        # literal * small literal: exact
                return [(st, V(a.s, z3.StringVal("")) if n_ == 0 else V(a.s, a.t if n_ == 1 else z3.Concat(*([a.t] * n_))))]
            # symbolic repetition: a deterministic (uninterpreted) function of string and count - the spec side is Rep(s, n)
            from .calls import ufunc as _cu
            return [(st, V(a.s, _cu("StrRep_" + a.s.name, a.s, INT, a.s)(a.t, b.t)))]
        if isinstance(a.s, SetS):
            bb = self.coerce(b, a.s)
            if bb is not None:
                if isinstance(op, ast.Sub):
                    return [(st, a - bb)]
                if isinstance(op, ast.BitOr):
                    return [(st, a | bb)]
                if isinstance(op, ast.BitAnd):
                    return [(st, a & bb)]
                if isinstance(op, ast.BitXor):
                    return [(st, (a - bb) | (bb - a))]
        if a.s == ANY or b.s == ANY or isinstance(a.s, Opaque) or isinstance(b.s, Opaque) or a.s == FUNC or b.s == FUNC \
                or a.s == GLOB or b.s == GLOB:
            # arithmetic on opaque values (floats, paths): unconstrained result, may raise TypeError
            return [(st, ANY.fresh("binop"))]
        raise EngineError("unsupported operator %s on %s, %s (L%d)" % (type(op).__name__, a.s, b.s, node.lineno))

    def format_percent(self, a, b, node):
        """`literal % args` where every directive is %s applied to a value of the same string type (bytes % bytes,
        str % str) or %d applied to an int with str(int) available: exact concatenation. Anything else: None (unconstrained)."""
        if not z3.is_string_value(a.t):
            return None
        fmt = a.t.as_string()
        if "\\u{" in fmt or "\\x" in fmt:
            return None
        args = []
        if isinstance(b.s, Tup):
            args = [b.s.get(b, i) for i in range(len(b.s.elems))]
        else:
            args = [b]
        parts, i, k = [], 0, 0
        lit = ""
        while i < len(fmt):
            ch = fmt[i]
            if ch == "%":
                if i + 1 < len(fmt) and fmt[i + 1] == "%":
                    lit += "%"
                    i += 2
                    continue
                if i + 1 < len(fmt) and fmt[i + 1] == "s" and k < len(args) and isinstance(args[k].s, S._Str) and args[k].s == a.s:
                    if lit:
                        parts.append(z3.StringVal(lit))
                        lit = ""
                    parts.append(args[k].t)
                    k += 1
                    i += 2
                    continue
                return None
            lit += ch
            i += 1
        if k != len(args):
            return None
        if lit:
            parts.append(z3.StringVal(lit))
        if not parts:
            return V(a.s, z3.StringVal(""))
        return V(a.s, parts[0] if len(parts) == 1 else z3.Concat(*parts))

    def ev_BoolOp(self, e, st, exc, expect):
        is_and = isinstance(e.op, ast.And)
        outs = self.ev(e.values[0], st, exc)
        for nxt in e.values[1:]:
            new = []
            for s1, a in outs:
                ta = S.truthy(a)
                cont, stop = self.branch(s1, ta if is_and else S.Not(ta))
                # `cont`: the next operand is evaluated; `stop`: a is the result
                sub = []
                if cont is not None:
                    ver = cont.version
                    ntrace = cont.trace
                    sub_exc = []
                    sub = self.ev(nxt, cont, sub_exc)
                    pure = (not sub_exc) and len(sub) == 1 and sub[0][0].version == ver and sub[0][0].trace == ntrace
                    if pure and stop is not None:
                        b = sub[0][1]
                        merged = self._merge_vals(ta if is_and else S.Not(ta), b, a)
                        if merged is not None:
                            # keep facts learnt while evaluating b only under the guard
                            extra = sub[0][0].pc[len(cont.pc):]
                            for fct in extra:
                                s1.assume(z3.Implies((ta if is_and else S.Not(ta)).t, fct))
                            new.append((s1, merged))
                            continue
                    exc.extend(sub_exc)
                new.extend(sub)
                if stop is not None:
                    new.append((stop, a))
            outs = new
        return outs

    def _merge_vals(self, cond, x, y):
        if x.s.pyside or y.s.pyside:
            return None
        if x.s == y.s:
            return V(x.s, z3.If(cond.t, x.t, y.t))
        if x.s == BOOL or y.s == BOOL:
            # mixed truthiness values: only the truth value is kept (sound for use in conditions)
            return V(BOOL, z3.If(cond.t, S.truthy(x).t, S.truthy(y).t))
        for tgt in (x.s, y.s):
            if isinstance(tgt, Opt):
                cx, cy = self.coerce(x, tgt), self.coerce(y, tgt)
                if cx is not None and cy is not None:
                    return V(tgt, z3.If(cond.t, cx.t, cy.t))
        if x.s == NONE and not isinstance(y.s, Opt) and not y.s.pyside:
            o = Opt(y.s)
            return V(o, z3.If(cond.t, o.none().t, o.some(y).t))
        if y.s == NONE and not isinstance(x.s, Opt) and not x.s.pyside:
            o = Opt(x.s)
            return V(o, z3.If(cond.t, o.some(x).t, o.none().t))
        return None

    def ev_IfExp(self, e, st, exc, expect):
        res = []
        for s1, c in self.ev(e.test, st, exc):
            a, b = self.branch(s1, S.truthy(c))
            if a is not None:
                res.extend(self.ev(e.body, a, exc, expect))
            if b is not None:
                res.extend(self.ev(e.orelse, b, exc, expect))
        if len(res) == 2 and res[0][0].version == res[1][0].version == st.version and res[0][0].trace == res[1][0].trace:
            # pure conditional: merge to keep the path count down
            (sa, va), (sb, vb) = res
            cond = V(BOOL, sa.pc[len(st.pc)]) if len(sa.pc) > len(st.pc) else None
            if cond is not None:
                m = self._merge_vals(cond, va, vb)
                if m is not None and len(sa.pc) == len(st.pc) + 1 and len(sb.pc) == len(st.pc) + 1:
                    return [(st, m)]
        return res

    def ev_Compare(self, e, st, exc, expect):
        res = []
        for s1, vals in self.ev_seq([e.left] + list(e.comparators), st, exc):
            acc = None
            ok = True
            cur = s1
            for op, a, b in zip(e.ops, vals, vals[1:]):
                r = self.compare(op, a, b, cur, e, exc)
                if r is None:
                    ok = False
                    break
                cur, c = r
                acc = c if acc is None else S.And(acc, c)
            if ok:
                res.append((cur, acc))
        return res

    def compare(self, op, a, b, st, node, exc):
        if isinstance(op, (ast.Is, ast.IsNot)):
            if b.s == NONE or a.s == NONE:
                o = a if b.s == NONE else b
                r = o.is_none if isinstance(o.s, Opt) else S.lift(o.s == NONE)
            elif a.s.pyside and b.s.pyside:
                r = S.lift(a.s == b.s and _pyeq(a.t, b.t))
            elif a.s == b.s and a.s in (BOOL,) or isinstance(a.s, (Enum, Opaque)) and a.s == b.s:
                r = S.eq(a, b)
            elif a.s != b.s and not (isinstance(a.s, Opt) or isinstance(b.s, Opt)):
                r = S.FALSE
            else:
                r = S.eq(a, b)
            return st, (r if isinstance(op, ast.Is) else S.Not(r))
        if isinstance(op, (ast.Eq, ast.NotEq)):
            if a.s in (POLY_LIST, POLY_SET, POLY_DICT) or b.s in (POLY_LIST, POLY_SET, POLY_DICT):
                p, o = (a, b) if a.s in (POLY_LIST, POLY_SET, POLY_DICT) else (b, a)
                c = self.coerce(p, o.s)
                r = S.eq(c, o) if c is not None else S.FALSE
            elif a.s.pyside and b.s.pyside:
                r = S.lift(a.s == b.s and _pyeq(a.t, b.t))
            else:
                r = S.eq(a, b)
            return st, (r if isinstance(op, ast.Eq) else S.Not(r))
        if isinstance(op, (ast.In, ast.NotIn)):
            if b.s in (POLY_LIST, POLY_SET, POLY_DICT):
                r = S.FALSE
            elif isinstance(b.s, Opt):
                st2 = self.raise_if(st, b.is_none, "TypeError", node, exc)
                if st2 is None:
                    return None
                return self.compare(op, a, b.s.val(b), st2, node, exc)
            elif isinstance(b.s, (SetS, MapS, Seq, S._Str)):
                es = b.s.elem if isinstance(b.s, (SetS, Seq)) else (b.s.key if isinstance(b.s, MapS) else b.s)
                aa = self.coerce(a, es)
                if aa is None:
                    r = S.FALSE if not (a.s == ANY) else BOOL.fresh("in")
                else:
                    r = S.In(aa, b)
            elif isinstance(b.s, Tup):
                r = S.Or(*[S.eq(a, b.s.get(b, i)) for i in range(len(b.s.elems))])
            else:
                r = BOOL.fresh("in")
            return st, (r if isinstance(op, ast.In) else S.Not(r))
        # ordering
        st, a = self.unwrap(a, st, node, exc)
        if st is None:
            return None
        st, b = self.unwrap(b, st, node, exc)
        if st is None:
            return None
        if a.s == BOOL:
            a = S.coerce(a, INT)
        if b.s == BOOL:
            b = S.coerce(b, INT)
        if a.s == INT and b.s == INT:
            f = {ast.Lt: lambda: a < b, ast.LtE: lambda: a <= b, ast.Gt: lambda: a > b, ast.GtE: lambda: a >= b}[type(op)]
            return st, f()
        if isinstance(a.s, S._Str) and isinstance(b.s, S._Str):
            f = {ast.Lt: lambda: V(BOOL, a.t < b.t), ast.LtE: lambda: V(BOOL, a.t <= b.t),
                 ast.Gt: lambda: V(BOOL, b.t < a.t), ast.GtE: lambda: V(BOOL, b.t <= a.t)}[type(op)]
            return st, f()
        return st, BOOL.fresh("cmp")

    # ---------------------------------------------------------------- containers
    def ev_Tuple(self, e, st, exc, expect):
        return self._ev_seqlit(e, st, exc, expect, is_tuple=True)

    def ev_List(self, e, st, exc, expect):
        return self._ev_seqlit(e, st, exc, expect, is_tuple=False)

    def _ev_seqlit(self, e, st, exc, expect, is_tuple):
        if any(isinstance(x, ast.Starred) for x in e.elts):
            raise EngineError("starred element in literal (L%d)" % e.lineno)
        if isinstance(expect, Opt):
            expect = expect.inner
        if not e.elts:
            if isinstance(expect, Seq):
                return [(st, V(expect, z3.Empty(expect.z3())))]
            if is_tuple:
                return [(st, Tup().mk())]
            return [(st, V(POLY_LIST, "[]"))]
        if isinstance(expect, Seq):
            exps = [expect.elem] * len(e.elts)
        elif isinstance(expect, Tup) and len(expect.elems) == len(e.elts):
            exps = list(expect.elems)
        else:
            exps = None
        res = []
        for s1, vals in self.ev_seq(e.elts, st, exc, exps):
            if isinstance(expect, Seq):
                cv = [self.coerce(v, expect.elem) for v in vals]
                if any(c is None for c in cv):
                    raise EngineError("list literal element sort mismatch (L%d): %s vs %s" % (e.lineno, [v.s for v in vals], expect.elem))
                nv = self.fresh(expect, "lit", None)
                self.note_concat(s1, nv, [("unit", c) for c in cv])
                res.append((s1, nv))
                continue
            if any(v.s.pyside and not isinstance(v.s, Obj) for v in vals) or any(isinstance(v.s, Obj) for v in vals):
                res.append((s1, V(PySide("pytuple"), tuple(vals))))
                continue
            sorts = [v.s for v in vals]
            if not is_tuple and len(set(s.name for s in sorts)) == 1 and not isinstance(expect, Tup):
                so = Seq(sorts[0])
                nv = self.fresh(so, "lit", None)
                self.note_concat(s1, nv, [("unit", v) for v in vals])
                res.append((s1, nv))
            else:
                tp = expect if isinstance(expect, Tup) and len(expect.elems) == len(vals) else Tup(*sorts)
                cv = [self.coerce(v, es) for v, es in zip(vals, tp.elems)]
                if any(c is None for c in cv):
                    raise EngineError("tuple literal sort mismatch (L%d)" % e.lineno)
                res.append((s1, tp.mk(*cv)))
        return res

    def ev_Set(self, e, st, exc, expect):
        res = []
        for s1, vals in self.ev_seq(e.elts, st, exc, [expect.elem] * len(e.elts) if isinstance(expect, SetS) else None):
            so = expect if isinstance(expect, SetS) else SetS(vals[0].s)
            t = so.empty().t
            for v in vals:
                t = z3.Store(t, self.coerce(v, so.elem).t, True)
            res.append((s1, V(so, t)))
        return res

    def ev_Dict(self, e, st, exc, expect):
        if not e.keys:
            if isinstance(expect, MapS):
                return [(st, expect.empty())]
            return [(st, V(POLY_DICT, "{}"))]
        if any(k is None for k in e.keys):
            raise EngineError("dict unpacking in literal (L%d)" % e.lineno)
        res = []
        for s1, vals in self.ev_seq(list(e.keys) + list(e.values), st, exc):
            n = len(e.keys)
            ks, vs = vals[:n], vals[n:]
            if isinstance(expect, MapS):
                so = expect
            elif all(not v.s.pyside for v in ks + vs) and len(set(v.s.name for v in vs)) == 1 and len(set(k.s.name for k in ks)) == 1:
                so = MapS(ks[0].s, vs[0].s)
            else:
                res.append((s1, V(PySide("pydict"), dict((_pykey(k), v) for k, v in zip(ks, vs)))))
                continue
            m = so.empty()
            dom, arr = so.dom(m), so.vals(m)
            for k, v in zip(ks, vs):
                kk, vv = self.coerce(k, so.key), self.coerce(v, so.val)
                dom, arr = z3.Store(dom, kk.t, True), z3.Store(arr, kk.t, vv.t)
            res.append((s1, so.mk(dom, arr)))
        return res

    def ev_JoinedStr(self, e, st, exc, expect):
        exprs = [v.value for v in e.values if isinstance(v, ast.FormattedValue)]
        res = []
        fvs = [v for v in e.values if isinstance(v, ast.FormattedValue)]
        for s1, vals in self.ev_seq(exprs, st, exc):
            # exact when every interpolated value is a str (or a known-present Optional[str]) without conversion / format spec
            parts, ok, k = [], True, 0
            for v in e.values:
                if isinstance(v, ast.Constant):
                    parts.append(z3.StringVal(str(v.value)))
                    continue
                val = vals[k]
                fv = fvs[k]
                k += 1
                if isinstance(val.s, Opt) and val.s.inner == STR:
                    cond = self.feasible(s1, val.is_none.t)
                    if not cond:
                        val = val.s.val(val)
                if val.s == STR and fv.conversion == -1 and fv.format_spec is None:
                    parts.append(val.t)
                else:
                    ok = False
            if ok and parts:
                res.append((s1, V(STR, parts[0] if len(parts) == 1 else z3.Concat(*parts))))
            else:
                res.append((s1, STR.fresh("fstr")))
        return res

    def ev_Lambda(self, e, st, exc, expect):
        return [(st, V(FUNC, ("lambda", e)))]

    def ev_Starred(self, e, st, exc, expect):
        raise EngineError("starred expression (L%d)" % e.lineno)


    # ---------------------------------------------------------------- comprehensions
    def ev_ListComp(self, e, st, exc, expect):
        return self._comprehension(e, st, exc, expect, "list")

    def ev_SetComp(self, e, st, exc, expect):
        return self._comprehension(e, st, exc, expect, "set")

    def ev_GeneratorExp(self, e, st, exc, expect):
        return self._comprehension(e, st, exc, expect, "list")

    def ev_DictComp(self, e, st, exc, expect):
        return self._comprehension(e, st, exc, expect, "dict")

    def _comprehension(self, e, st, exc, expect, kind):
        if len(e.generators) != 1 or e.generators[0].is_async:
            return self.ev_unsupported(e, st, exc, expect)
        g = e.generators[0]
        res = []
        for s1, src in self.ev(g.iter, st, exc):
            if isinstance(src.s, Opt):
                s1 = self.raise_if(s1, src.is_none, "TypeError", e, exc)
                if s1 is None:
                    continue
                src = src.s.val(src)
            if src.s in (POLY_LIST, POLY_SET, POLY_DICT):
                res.append((s1, V(POLY_LIST if kind == "list" else POLY_SET, "[]")))
                continue
            if src.s == ITER and src.t[0] in ("items", "values"):
                m = src.t[1]
                dom = V(SetS(m.s.key), m.s.dom(m))
                k = m.s.key.fresh("q")
                member = lambda q_: z3.Select(dom.t, q_)     # noqa
                elemv = Tup(m.s.key, m.s.val).mk(k, m[k]) if src.t[0] == "items" else m[k]
                q, is_seq, srcv = k, False, None
            elif isinstance(src.s, Seq):
                q = src.s.elem.fresh("q")
                member = lambda q_: z3.Contains(src.t, z3.Unit(q_))     # noqa
                elemv, is_seq, srcv = q, True, src
            elif isinstance(src.s, SetS):
                q = src.s.elem.fresh("q")
                member = lambda q_: z3.Select(src.t, q_)     # noqa
                elemv, is_seq, srcv = q, False, None
            elif isinstance(src.s, MapS):
                q = src.s.key.fresh("q")
                member = lambda q_: z3.Select(src.s.dom(src), q_)     # noqa
                elemv, is_seq, srcv = q, False, None
            else:
                # opaque iterable: the body may have effects we cannot see
                for n in ast.walk(e.elt):
                    if isinstance(n, ast.Call):
                        raise EngineError("comprehension over an opaque iterable with calls (L%d)" % e.lineno)
                exc.append((s1.copy(), exc_value("Exception*", e.lineno, "iteration of opaque value")))
                so = expect if isinstance(expect, (Seq, SetS)) else (Seq(ANY) if kind == "list" else SetS(ANY))
                res.append((s1, self.fresh(so, "comp", s1)))
                continue
            sub = s1.copy()
            sub_exc = []
            subs = self.assign(g.target, elemv, sub, sub_exc)
            if len(subs) != 1:
                raise EngineError("comprehension target forks (L%d)" % e.lineno)
            sub = subs[0]
            ver = sub.version
            cond = S.TRUE
            for c in g.ifs:
                base_pc_len = len(sub.pc)
                r = self.ev(c, sub.copy(), sub_exc)
                if len(r) != 1:
                    # a short-circuit and/or of effect-free tests: the alternatives differ in their path conditions only; the
                    # condition is the disjunction of (path condition and value) over the alternatives
                    if not r or any(s_.env.keys() != sub.env.keys() or any(s_.env[k_] is not sub.env[k_] for k_ in sub.env)
                                    or s_.trace != sub.trace for s_, _ in r):
                        raise EngineError("comprehension condition forks (L%d)" % e.lineno)
                    alts = []
                    for s_, v_ in r:
                        extra_ = [f_ for f_ in s_.pc[base_pc_len:]]
                        alts.append(S.And(*([V(BOOL, f_) for f_ in extra_] + [S.truthy(v_)])))
                    cond = S.And(cond, S.Or(*alts))
                    continue
                sub, cv = r[0]
                cond = S.And(cond, S.truthy(cv))
            base_len = len(s1.pc)
            if kind == "dict":
                rk = self.ev(e.key, sub, sub_exc)
                if len(rk) != 1:
                    raise EngineError("comprehension key forks (L%d)" % e.lineno)
                sub, keyv = rk[0]
                r = self.ev(e.value, sub, sub_exc)
            else:
                r = self.ev(e.elt, sub, sub_exc)
            if len(r) != 1:
                raise EngineError("comprehension body forks (L%d): %s" % (e.lineno, ast.unparse(e)[:60]))
            if sub_exc:
                # an element computation may raise: one generic exceptional exit of the whole comprehension
                exc.append((s1.copy(), exc_value(sub_exc[0][1].t, e.lineno, "inside comprehension")))
            sub, val = r[0]
            # facts learnt while evaluating the body hold for every element: keep them universally quantified
            learnt = [f for f in sub.pc[base_len:] if not (len(s1.pc) > base_len and any(f is g for g in s1.pc[base_len:]))]
            learnt = [f for f in learnt if not z3.is_true(f)]
            if learnt and z3.is_expr(q.t):
                s1.assume(z3.ForAll([q.t], z3.And(*learnt) if len(learnt) > 1 else learnt[0]))
            if kind == "dict":
                if val.s.pyside or keyv.s.pyside:
                    raise EngineError("dict comprehension of python-side values (L%d)" % e.lineno)
                so = expect if isinstance(expect, MapS) else MapS(keyv.s, val.s)
                kk, vv = self.coerce(keyv, so.key), self.coerce(val, so.val)
                if kk is None or vv is None:
                    # key/value of an unexpected sort (e.g. through an uncontracted call): an unconstrained dictionary
                    res.append((s1, self.fresh(so, "dcomp", s1)))
                    continue
                keyv, val = kk, vv
                out = self.fresh(so, "dcomp", None)
                y = so.key.fresh("y")
                q2 = q.s.fresh("q2")
                sub2 = lambda t: z3.substitute(t, (q.t, q2.t))     # noqa
                s1.assume(z3.ForAll([y.t], z3.Select(so.dom(out), y.t) ==
                                    z3.Exists([q.t], z3.And(member(q.t), cond.t, y.t == keyv.t))))
                # the value stored under key(q) is the value of SOME element with that key (the last one wins in Python)
                s1.assume(z3.ForAll([q.t], z3.Implies(z3.And(member(q.t), cond.t),
                                                      z3.Exists([q2.t], z3.And(member(q2.t), sub2(cond.t), sub2(keyv.t) == keyv.t,
                                                                               z3.Select(so.vals(out), keyv.t) == sub2(val.t))))))
                res.append((s1, out))
                continue
            if val.s.pyside:
                raise EngineError("comprehension of python-side values (L%d)" % e.lineno)
            identity = val.t is elemv.t or (z3.is_expr(val.t) and z3.is_expr(elemv.t) and val.t.eq(elemv.t))
            always = z3.is_true(z3.simplify(cond.t))
            if kind == "list":
                so = Seq(val.s)
                out = self.fresh(so, "comp", s1)
                if is_seq and identity and always:
                    s1.assume(out.t == srcv.t)
                elif is_seq and identity:
                    s1.assume(z3.ForAll([q.t], z3.Contains(out.t, z3.Unit(q.t)) == z3.And(member(q.t), cond.t)))
                    s1.assume(z3.Length(out.t) <= z3.Length(srcv.t))
                elif is_seq and always:
                    i = INT.fresh("i")
                    s1.assume(z3.Length(out.t) == z3.Length(srcv.t))
                    s1.assume(z3.ForAll([i.t], z3.Implies(z3.And(i.t >= 0, i.t < z3.Length(srcv.t)),
                                                          out.t[i.t] == z3.substitute(val.t, (q.t, srcv.t[i.t])))))
                    # the same fact in membership form (sequence theory does not link indices and containment by itself)
                    # (image direction only: every element's value is contained; the converse needs an existential under the
                    #  quantifier, which made unrelated obligations time out)
                    if self.spec.ns.get("COMPREHENSION_IMAGE", False):      # opt-in per spec: it slows unrelated proofs
                        s1.assume(z3.ForAll([q.t], z3.Implies(member(q.t), z3.Contains(out.t, z3.Unit(val.t)))))
                else:
                    y = val.s.fresh("y")
                    s1.assume(z3.ForAll([y.t], z3.Contains(out.t, z3.Unit(y.t)) ==
                                        z3.Exists([q.t], z3.And(member(q.t), cond.t, y.t == val.t))))
                    if is_seq:
                        s1.assume(z3.Length(out.t) <= z3.Length(srcv.t))
                res.append((s1, out))
            else:
                so = SetS(val.s)
                out = so.fresh("comp")
                if identity:
                    s1.assume(z3.ForAll([q.t], z3.Select(out.t, q.t) == z3.And(member(q.t), cond.t)))
                else:
                    y = val.s.fresh("y")
                    s1.assume(z3.ForAll([y.t], z3.Select(out.t, y.t) ==
                                        z3.Exists([q.t], z3.And(member(q.t), cond.t, y.t == val.t))))
                res.append((s1, out))
        return res

    # ---------------------------------------------------------------- subscripts
    def ev_Subscript(self, e, st, exc, expect):
        res = []
        for s1, base in self.ev(e.value, st, exc):
            res.extend(self.subscript(base, e.slice, s1, e, exc))
        return res

    def ev_index_expr(self, sl, st, exc):
        """-> list of (st, ('idx', V) | ('slice', lo|None, hi|None))"""
        if isinstance(sl, ast.Slice):
            if sl.step is not None:
                raise EngineError("slice step (L%d)" % sl.lineno)
            exprs = [x for x in (sl.lower, sl.upper) if x is not None]
            res = []
            for s1, vals in self.ev_seq(exprs, st, exc):
                vals = list(vals)
                lo = vals.pop(0) if sl.lower is not None else None
                hi = vals.pop(0) if sl.upper is not None else None
                res.append((s1, ("slice", lo, hi)))
            return res
        return [(s1, ("idx", v)) for s1, v in self.ev(sl, st, exc)]

    def slice_bounds(self, seq, lo, hi):
        """Python slice clamping -> (start, length) as z3 ints."""
        n = z3.Length(seq.t)

        def clamp(x, default):
            if x is None:
                return default
            if isinstance(x.s, Opt):
                inner = x.s.val(x).t
                adj = z3.If(inner < 0, z3.If(inner + n < 0, 0, inner + n), z3.If(inner > n, n, inner))
                return z3.If(x.s.is_none(x), default, adj)
            if x.s == NONE:
                return default
            t = x.t
            return z3.If(t < 0, z3.If(t + n < 0, 0, t + n), z3.If(t > n, n, t))
        a = clamp(lo, z3.IntVal(0))
        b = clamp(hi, n)
        return a, z3.If(b >= a, b - a, 0)

    def subscript(self, base, sl, st, node, exc):
        if isinstance(base.s, Opt):
            st = self.raise_if(st, base.is_none, "TypeError", node, exc, "subscript of None")
            if st is None:
                return []
            base = base.s.val(base)
        res = []
        for s1, ix in self.ev_index_expr(sl, st, exc):
            if isinstance(base.s, (Seq, S._Str)):
                if ix[0] == "slice":
                    a, ln = self.slice_bounds(base, ix[1], ix[2])
                    r = V(base.s, z3.SubSeq(base.t, a, ln))
                    if isinstance(base.s, Seq):
                        nv = self.fresh(base.s, "slice", None)
                        s1.assume(nv.t == r.t)
                        self.track(s1, nv)
                        # decomposition base = pre ++ slice ++ post gives the fold facts
                        pre = self.fresh(base.s, "pre", None)
                        post = self.fresh(base.s, "post", None)
                        s1.assume(pre.t == z3.SubSeq(base.t, 0, a))
                        s1.assume(post.t == z3.SubSeq(base.t, a + ln, z3.Length(base.t) - a - ln))
                        self.note_concat(s1, base, [("seq", pre), ("seq", nv), ("seq", post)])
                        r = nv
                    res.append((s1, r))
                    continue
                i = ix[1]
                s1, i = self.unwrap(i, s1, node, exc)
                if s1 is None:
                    continue
                if i.s != INT:
                    raise EngineError("non-integer index (L%d)" % node.lineno)
                n = S.Len(base)
                s1 = self.raise_if(s1, S.Or(i >= n, i < -n), "IndexError", node, exc)
                if s1 is None:
                    continue
                j = S.norm_index(i, base)
                if isinstance(base.s, Seq):
                    x = V(base.s.elem, base.t[j.t])
                    if self.folds_for(base.s):
                        # element facts of the folds: base = pre ++ [x] ++ post
                        pre_, post_ = self.fresh(base.s, "pre", None), self.fresh(base.s, "post", None)
                        s1.assume(pre_.t == z3.SubSeq(base.t, 0, j.t))
                        s1.assume(post_.t == z3.SubSeq(base.t, j.t + 1, z3.Length(base.t) - j.t - 1))
                        self.note_concat(s1, base, [("seq", pre_), ("unit", x), ("seq", post_)])
                    res.append((s1, x))
                else:
                    if base.s == BYTES:
                        res.append((s1, V(INT, z3.StrToCode(z3.SubSeq(base.t, j.t, 1)))))
                    else:
                        res.append((s1, V(base.s, z3.SubSeq(base.t, j.t, 1))))
                continue
            if isinstance(base.s, Tup):
                if ix[0] == "slice":
                    lo_, hi_ = ix[1], ix[2]
                    n_ = len(base.s.elems)

                    def _const(v_, default):
                        if v_ is None:
                            return default
                        if isinstance(v_, V) and v_.s == INT and z3.is_int_value(z3.simplify(v_.t)):
                            k_ = z3.simplify(v_.t).as_long()
                            return max(0, n_ + k_) if k_ < 0 else min(k_, n_)
                        return None
                    a_, b_ = _const(lo_, 0), _const(hi_, n_)
                    if a_ is None or b_ is None:
                        raise EngineError("slice of tuple with symbolic bounds (L%d)" % node.lineno)
                    elems_ = [base.s.get(base, k_) for k_ in range(a_, max(a_, b_))]
                    so_ = Tup(*[e_.s for e_ in elems_])
                    res.append((s1, so_.mk(*elems_)))
                    continue
                i = ix[1]
                if not z3.is_int_value(i.t):
                    # symbolic index into a homogeneous tuple: a case per position (non-negative indices), IndexError otherwise
                    if i.s != INT or len(set(e_.name for e_ in base.s.elems)) != 1:
                        raise EngineError("symbolic tuple index (L%d)" % node.lineno)
                    n_ = len(base.s.elems)
                    s1 = self.raise_if(s1, S.Or(i < -n_, i >= n_), "IndexError", node, exc)
                    if s1 is None:
                        continue
                    val = base.s.get(base, n_ - 1)
                    for k_ in range(n_ - 2, -1, -1):
                        val = S.If(S.Or(i == k_, i == k_ - n_), base.s.get(base, k_), val)
                    res.append((s1, val))
                    continue
                k = i.t.as_long()
                if k < 0:
                    k += len(base.s.elems)
                if not 0 <= k < len(base.s.elems):
                    exc.append((s1, imp_value("IndexError", node.lineno)))
                    continue
                res.append((s1, base.s.get(base, k)))
                continue
            if isinstance(base.s, MapS):
                k = self.coerce(ix[1], base.s.key)
                if k is None:
                    exc.append((s1, imp_value("KeyError", node.lineno)))
                    continue
                s1 = self.raise_if(s1, S.Not(S.In(k, base)), "KeyError", node, exc)
                if s1 is None:
                    continue
                res.append((s1, base[k]))
                continue
            if base.s.pyside and base.s.kind == "pytuple" and ix[0] == "idx" and z3.is_int_value(ix[1].t):
                res.append((s1, base.t[ix[1].t.as_long()]))
                continue
            if base.s == ANY or isinstance(base.s, Opaque) or base.s == GLOB:
                exc.append((s1.copy(), exc_value("Exception*", node.lineno, "subscript of opaque value")))
                res.append((s1, ANY.fresh("item")))
                continue
            raise EngineError("subscript of %s (L%d)" % (base.s, node.lineno))
        return res

    # ---------------------------------------------------------------- lvalues
    def lvalue(self, e, st, exc):
        """Resolve an expression to an LValue in state st (no forking allowed inside)."""
        if isinstance(e, ast.Name):
            n = e.id
            if n not in st.env and n in self.spec.consts:
                return None          # a declared module constant: a value, not a variable

            def get():
                if n not in st.env:
                    raise EngineError("mutation of unbound/global name %s (L%d)" % (n, e.lineno))
                return st.env[n]

            def set_(v):
                decl = self.target.locals.get(n) or self.target.params.get(n)
                if decl is not None and not (isinstance(decl, Obj)):
                    c = self.coerce(v, decl)
                    if c is None:
                        raise EngineError("cannot assign %s to %s : %s (L%d)" % (v.s, n, decl, e.lineno))
                    v = c
                st.env[n] = v
                st.touch()
            return LValue(get, set_, n)
        if isinstance(e, ast.Attribute):
            s1, base = self.ev1(e.value, st, exc)
            if s1 is not st:
                raise EngineError("lvalue base forks (L%d)" % e.lineno)
            if isinstance(base.s, Obj):
                return LValue(lambda: self.read_field(st, base, e.attr), lambda v: self.write_field(st, base, e.attr, v),
                              ast.unparse(e))
            return None
        if isinstance(e, ast.Subscript):
            inner = self.lvalue(e.value, st, exc)
            if inner is None:
                return None
            r = self.ev_index_expr(e.slice, st, exc)
            if len(r) != 1 or r[0][0] is not st:
                raise EngineError("lvalue index forks (L%d)" % e.lineno)
            ix = r[0][1]

            def get():
                rr = self.subscript(inner.get(), e.slice, st, e, [])
                if len(rr) != 1:
                    raise EngineError("nested lvalue read forks (L%d): prove the index in range first" % e.lineno)
                return rr[0][1]

            def set_(v):
                inner.set(self.store_index(inner.get(), ix, v, st, e))
            return LValue(get, set_, ast.unparse(e))
        return None

    def store_index(self, base, ix, v, st, node):
        """Functional update base[ix] = v (index assumed in range: the caller forks IndexError)."""
        if isinstance(base.s, Seq):
            if ix[0] == "slice":
                a, ln = self.slice_bounds(base, ix[1], ix[2])
                vv = self.coerce(v, base.s)
                if vv is None:
                    raise EngineError("slice assignment of %s (L%d)" % (v.s, node.lineno))
                pre, post, nv = self.fresh(base.s, "pre", None), self.fresh(base.s, "post", None), self.fresh(base.s, "upd", None)
                mid = self.fresh(base.s, "mid", None)
                st.assume(pre.t == z3.SubSeq(base.t, 0, a))
                st.assume(mid.t == z3.SubSeq(base.t, a, ln))
                st.assume(post.t == z3.SubSeq(base.t, a + ln, z3.Length(base.t) - a - ln))
                self.note_concat(st, base, [("seq", pre), ("seq", mid), ("seq", post)])
                self.note_concat(st, nv, [("seq", pre), ("seq", vv), ("seq", post)])
                return nv
            i = S.norm_index(ix[1], base)
            vv = self.coerce(v, base.s.elem)
            if vv is None:
                raise EngineError("cannot store %s into %s (L%d)" % (v.s, base.s, node.lineno))
            pre, post, nv = self.fresh(base.s, "pre", None), self.fresh(base.s, "post", None), self.fresh(base.s, "upd", None)
            st.assume(pre.t == z3.SubSeq(base.t, 0, i.t))
            st.assume(post.t == z3.SubSeq(base.t, i.t + 1, z3.Length(base.t) - i.t - 1))
            old = V(base.s.elem, base.t[i.t])
            self.note_concat(st, base, [("seq", pre), ("unit", old), ("seq", post)])
            self.note_concat(st, nv, [("seq", pre), ("unit", vv), ("seq", post)])
            return nv
        if isinstance(base.s, Tup):
            k = ix[1].t.as_long()
            if k < 0:
                k += len(base.s.elems)
            parts = [base.s.get(base, j) for j in range(len(base.s.elems))]
            c = self.coerce(v, base.s.elems[k])
            if c is None:
                raise EngineError("cannot store %s into field %d of %s (L%d)" % (v.s, k, base.s, node.lineno))
            parts[k] = c
            return base.s.mk(*parts)
        if isinstance(base.s, MapS):
            k, vv = self.coerce(ix[1], base.s.key), self.coerce(v, base.s.val)
            if k is None or vv is None:
                raise EngineError("dict store sort mismatch (L%d): %s[%s]=%s" % (node.lineno, base.s, ix[1].s, v.s))
            return base.s.mk(z3.Store(base.s.dom(base), k.t, True), z3.Store(base.s.vals(base), k.t, vv.t))
        if base.s == POLY_DICT:
            so = MapS(ix[1].s, v.s)
            return self.store_index(so.empty(), ix, v, st, node)
        raise EngineError("item assignment on %s (L%d)" % (base.s, node.lineno))


def _pyeq(a, b):
    try:
        return bool(a == b)
    except Exception:
        return a is b


def _pykey(k):
    if z3.is_string_value(k.t):
        return k.t.as_string()
    if z3.is_int_value(k.t):
        return k.t.as_long()
    return str(k.t)
