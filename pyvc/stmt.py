"""Statement execution: control flow, loops with invariants, exceptions (mixin)."""
import ast
import re
import z3

from . import sorts as S
from .sorts import V, INT, BOOL, STR, BYTES, NONE, ANY, Seq, Tup, Opt, SetS, MapS, Opaque, Enum, Obj, PySide, EXC, FUNC
from .state import EngineError, SpecDrift, Ctx
from .engine import GLOB, POLY_LIST, POLY_DICT, POLY_SET, ITER, Out, exc_value, imp_value, LOGGING_CALLS, EXC_NAME

MAX_PATHS = 4000


class StmtMixin:
    # ---------------------------------------------------------------- blocks
    def exec_block(self, stmts, st):
        """-> list of Out. `normal` outcomes have run off the end of the block."""
        live = [st]
        done = []
        for s in stmts:
            nxt = []
            for s0 in live:
                for o in self.exec_stmt(s, s0):
                    if o.kind == "normal":
                        nxt.append(o.st)
                    else:
                        done.append(o)
            live = nxt
            if len(live) + len(done) > MAX_PATHS:
                raise EngineError("path explosion (> %d paths) at L%d" % (MAX_PATHS, s.lineno))
            if not live:
                break
        return done + [Out("normal", s0) for s0 in live]

    def exec_stmt(self, s, st):
        m = getattr(self, "st_" + type(s).__name__, None)
        if m is None:
            raise EngineError("unsupported statement %s (L%d)" % (type(s).__name__, s.lineno))
        exc = []
        outs = m(s, st, exc)
        for s1, ev in exc:
            outs.append(Out("raise", s1, ev))
        return outs

    # ---------------------------------------------------------------- simple statements
    def st_Pass(self, s, st, exc):
        return [Out("normal", st)]

    def st_Expr(self, s, st, exc):
        if isinstance(s.value, ast.Constant):
            return [Out("normal", st)]
        if isinstance(s.value, (ast.Yield, ast.YieldFrom)):
            return self.do_yield(s.value, st, exc)
        return [Out("normal", s1) for s1, _ in self.ev(s.value, st, exc)]

    def do_yield(self, y, st, exc):
        g = self.target.generator
        if g is None:
            raise EngineError("yield in a target not declared as generator (L%d)" % y.lineno)
        outs = []
        if isinstance(y, ast.YieldFrom):
            raise EngineError("yield from (L%d)" % y.lineno)
        for s1, v in (self.ev(y.value, st, exc, g) if y.value is not None else [(st, S.NONEV())]):
            cur = s1.ghost["yielded"]
            vv = self.coerce(v, cur.s.elem)
            if vv is None:
                raise EngineError("yield of %s into %s (L%d)" % (v.s, cur.s, y.lineno))
            nv = self.fresh(cur.s, "yielded", None)
            self.note_concat(s1, nv, [("seq", cur), ("unit", vv)])
            s1.ghost["yielded"] = nv
            s1.trace = s1.trace + (("yield", y.lineno),)
            s1.touch()
            outs.append(Out("normal", s1))
        return outs

    def st_Assign(self, s, st, exc):
        outs = []
        expect = None
        if len(s.targets) == 1 and isinstance(s.targets[0], ast.Name):
            expect = self.target.locals.get(s.targets[0].id)
        elif len(s.targets) == 1 and isinstance(s.targets[0], ast.Attribute):
            expect = self.field_sort(s.targets[0], st)
        if isinstance(s.value, (ast.Yield,)):
            raise EngineError("value of a yield expression used (L%d)" % s.lineno)
        if (len(s.targets) == 1 and isinstance(s.targets[0], ast.Name) and isinstance(s.value, ast.Attribute)
                and isinstance(s.value.value, ast.Name) and s.value.value.id in st.env
                and isinstance(st.env[s.value.value.id].s, (S.Seq, S.SetS, S.MapS))
                and s.value.attr in ("append", "add", "extend", "update", "discard", "remove")):
            # a = r.append : an alias of a container's bound method; a(x) is executed as r.append(x) (the container variable must
            # not be rebound in between: checked where the alias is called)
            st = st.copy()
            st.env[s.targets[0].id] = V(FUNC, ("alias", s.value))
            st.touch()
            return [Out("normal", st)]
        for s1, v in self.ev(s.value, st, exc, expect):
            cur = [s1]
            for t in s.targets:
                cur = [s3 for s2 in cur for s3 in self.assign(t, v, s2, exc)]
            outs.extend(Out("normal", c) for c in cur)
        return outs

    def field_sort(self, attr_node, st):
        if isinstance(attr_node.value, ast.Name) and attr_node.value.id in st.env:
            b = st.env[attr_node.value.id]
            if isinstance(b.s, Obj):
                d = self.class_decl(b.s.cls)
                if d:
                    return d.fields.get(attr_node.attr)
        return None

    def st_AnnAssign(self, s, st, exc):
        if s.value is None:
            return [Out("normal", st)]
        outs = []
        expect = self.target.locals.get(s.target.id) if isinstance(s.target, ast.Name) else None
        for s1, v in self.ev(s.value, st, exc, expect):
            outs.extend(Out("normal", c) for c in self.assign(s.target, v, s1, exc))
        return outs

    def assign(self, t, v, st, exc):
        """-> list of states"""
        if isinstance(t, ast.Name):
            decl = self.target.locals.get(t.id)
            if decl is not None and not v.s.pyside or (decl is not None and v.s in (POLY_LIST, POLY_DICT, POLY_SET)):
                c = self.coerce(v, decl)
                if c is None:
                    raise EngineError("cannot assign %s to local %s : %s (L%d)" % (v.s, t.id, decl, t.lineno))
                v = c
            st.env[t.id] = v
            st.touch()
            return [st]
        if isinstance(t, ast.Attribute):
            r = []
            for s1, base in self.ev(t.value, st, exc):
                if isinstance(base.s, Obj):
                    self.write_field(s1, base, t.attr, v)
                else:
                    # attribute store on an opaque object: not tracked
                    self.notes.append("untracked attribute store L%d: %s" % (t.lineno, ast.unparse(t)))
                    s1.trace = s1.trace + (("setattr:" + ast.unparse(t), t.lineno),)
                r.append(s1)
            return r
        if isinstance(t, (ast.Tuple, ast.List)):
            n = len(t.elts)
            if any(isinstance(x, ast.Starred) for x in t.elts):
                raise EngineError("starred assignment target (L%d)" % t.lineno)
            if isinstance(v.s, Tup):
                if len(v.s.elems) != n:
                    exc.append((st, imp_value("ValueError", t.lineno, "unpack")))
                    return []
                parts = [v.s.get(v, i) for i in range(n)]
            elif v.s.pyside and getattr(v.s, "kind", "") == "pytuple":
                if len(v.t) != n:
                    exc.append((st, imp_value("ValueError", t.lineno, "unpack")))
                    return []
                parts = list(v.t)
            elif isinstance(v.s, Seq):
                st = self.raise_if(st, S.Len(v) != n, "ValueError", t, exc, "unpack")
                if st is None:
                    return []
                parts = [V(v.s.elem, v.t[i]) for i in range(n)]
            else:
                exc.append((st.copy(), exc_value("Exception*", t.lineno, "unpack of opaque value")))
                parts = [ANY.fresh("unpack") for _ in range(n)]
            cur = [st]
            for el, p in zip(t.elts, parts):
                cur = [s3 for s2 in cur for s3 in self.assign(el, p, s2, exc)]
            return cur
        if isinstance(t, ast.Subscript):
            r = []
            for s1, base in self.ev(t.value, st, exc):
                lv = self.lvalue(t.value, s1, exc)
                if lv is None:
                    if base.s == ANY or isinstance(base.s, Opaque) or base.s.pyside:
                        exc.append((s1.copy(), exc_value("Exception*", t.lineno, "item store on opaque")))
                        s1.trace = s1.trace + (("setitem:" + ast.unparse(t.value), t.lineno),)
                        r.append(s1)
                        continue
                    raise EngineError("item assignment on a temporary (L%d)" % t.lineno)
                for s2, ix in self.ev_index_expr(t.slice, s1, exc):
                    if s2 is not s1:
                        lv = self.lvalue(t.value, s2, exc)
                    cur = lv.get()
                    if isinstance(cur.s, Opt):
                        s2 = self.raise_if(s2, cur.is_none, "TypeError", t, exc)
                        if s2 is None:
                            continue
                        cur = cur.s.val(cur)
                        lv = self.lvalue(t.value, s2, exc)
                    if isinstance(cur.s, Seq) and ix[0] == "idx":
                        n = S.Len(cur)
                        s3 = self.raise_if(s2, S.Or(ix[1] >= n, ix[1] < -n), "IndexError", t, exc)
                        if s3 is None:
                            continue
                        if s3 is not s2:
                            lv = self.lvalue(t.value, s3, exc)
                        s2 = s3
                    lv.set(self.store_index(cur, ix, v, s2, t))
                    r.append(s2)
            return r
        raise EngineError("assignment target %s (L%d)" % (type(t).__name__, t.lineno))

    def st_AugAssign(self, s, st, exc):
        outs = []
        load = _as_load(s.target)
        for s1, (cur, v) in self.ev_seq([load, s.value], st, exc):
            if isinstance(cur.s, (Seq,)) and isinstance(s.op, ast.Add) or cur.s == POLY_LIST and isinstance(s.op, ast.Add):
                # list += iterable is extend (in place)
                lv = self.lvalue(s.target, s1, exc)
                r = self.seq_extend(cur, lv, [v], {}, s1, s, exc)
                outs.extend(Out("normal", x[0]) for x in r)
                continue
            if isinstance(cur.s, SetS) and isinstance(s.op, (ast.BitOr, ast.Sub, ast.BitAnd)):
                pass
            for s2, nv in self.binop(s.op, cur, v, s1, s, exc):
                outs.extend(Out("normal", c) for c in self.assign(s.target, nv, s2, exc))
        return outs

    def st_Delete(self, s, st, exc):
        cur = [st]
        for t in s.targets:
            nxt = []
            for s1 in cur:
                nxt.extend(self.delete(t, s1, exc))
            cur = nxt
        return [Out("normal", c) for c in cur]

    def delete(self, t, st, exc):
        if isinstance(t, ast.Name):
            st.env.pop(t.id, None)
            st.touch()
            return [st]
        if isinstance(t, ast.Subscript):
            lv = self.lvalue(t.value, st, exc)
            if lv is None:
                exc.append((st.copy(), exc_value("Exception*", t.lineno, "del item on opaque")))
                st.trace = st.trace + (("delitem:" + ast.unparse(t.value), t.lineno),)
                return [st]
            res = []
            for s1, ix in self.ev_index_expr(t.slice, st, exc):
                if s1 is not st:
                    lv = self.lvalue(t.value, s1, exc)
                cur = lv.get()
                if isinstance(cur.s, Seq):
                    if ix[0] == "slice":
                        a, ln = self.slice_bounds(cur, ix[1], ix[2])
                        pre, mid, post, nv = (self.fresh(cur.s, n, None) for n in ("pre", "mid", "post", "del"))
                        s1.assume(pre.t == z3.SubSeq(cur.t, 0, a))
                        s1.assume(mid.t == z3.SubSeq(cur.t, a, ln))
                        s1.assume(post.t == z3.SubSeq(cur.t, a + ln, z3.Length(cur.t) - a - ln))
                        self.note_concat(s1, cur, [("seq", pre), ("seq", mid), ("seq", post)])
                        self.note_concat(s1, nv, [("seq", pre), ("seq", post)])
                        lv.set(nv)
                        res.append(s1)
                        continue
                    i = ix[1]
                    n = S.Len(cur)
                    s2 = self.raise_if(s1, S.Or(i >= n, i < -n), "IndexError", t, exc)
                    if s2 is None:
                        continue
                    if s2 is not s1:
                        lv = self.lvalue(t.value, s2, exc)
                    j = S.norm_index(i, cur)
                    pre, post, nv = (self.fresh(cur.s, n_, None) for n_ in ("pre", "post", "del"))
                    s2.assume(pre.t == z3.SubSeq(cur.t, 0, j.t))
                    s2.assume(post.t == z3.SubSeq(cur.t, j.t + 1, z3.Length(cur.t) - j.t - 1))
                    self.note_concat(s2, cur, [("seq", pre), ("unit", V(cur.s.elem, cur.t[j.t])), ("seq", post)])
                    self.note_concat(s2, nv, [("seq", pre), ("seq", post)])
                    lv.set(nv)
                    res.append(s2)
                elif isinstance(cur.s, MapS):
                    k = self.coerce(ix[1], cur.s.key)
                    s2 = self.raise_if(s1, S.Not(S.In(k, cur)), "KeyError", t, exc)
                    if s2 is None:
                        continue
                    if s2 is not s1:
                        lv = self.lvalue(t.value, s2, exc)
                    lv.set(cur.s.mk(z3.Store(cur.s.dom(cur), k.t, False), cur.s.vals(cur)))
                    res.append(s2)
                else:
                    raise EngineError("del item of %s (L%d)" % (cur.s, t.lineno))
            return res
        if isinstance(t, ast.Attribute):
            st.trace = st.trace + (("delattr:" + ast.unparse(t), t.lineno),)
            return [st]
        raise EngineError("del target (L%d)" % t.lineno)

    def st_Return(self, s, st, exc):
        if s.value is None:
            return [Out("return", st, S.NONEV())]
        return [Out("return", s1, v) for s1, v in self.ev(s.value, st, exc, self.target.result)]

    def st_Raise(self, s, st, exc):
        if s.exc is None:
            cur = st.meta.get("handling")
            if cur is None:
                raise EngineError("bare raise outside a handler (L%d)" % s.lineno)
            return [Out("raise", st, cur)]
        outs = []
        for s1, v in self.ev(s.exc, st, exc):
            if v.s == EXC:
                ev = V(EXC, v.t, {"line": s.lineno, "note": "raise"})
            elif v.s == GLOB:
                ev = exc_value(v.t.split(".")[-1], s.lineno, "raise")
            elif isinstance(s.exc, ast.Call) and ast.unparse(s.exc.func).split(".")[-1] in self.hier.parent:
                # the constructor call is under a contract (e.g. it records its argument in ghost state): the class is still known
                ev = exc_value(ast.unparse(s.exc.func).split(".")[-1], s.lineno, "raise")
            else:
                ev = exc_value("Exception*", s.lineno, "raise of a computed value")
            outs.append(Out("raise", s1, ev))
        return outs

    def st_Assert(self, s, st, exc):
        outs = []
        for s1, c in self.ev(s.test, st, exc):
            ok, bad = self.branch(s1, S.truthy(c))
            if bad is not None:
                outs.append(Out("raise", bad, imp_value("AssertionError", s.lineno, ast.unparse(s.test))))
            if ok is not None:
                outs.append(Out("normal", ok))
        return outs

    def st_Break(self, s, st, exc):
        return [Out("break", st)]

    def st_Continue(self, s, st, exc):
        return [Out("continue", st)]

    def st_Import(self, s, st, exc):
        # a function-local import binds module-level names: they behave like the module's globals
        for a in getattr(s, "names", []):
            nm = (a.asname or a.name).split(".")[0]
            if nm != "*":
                self.module_names.add(nm)
        return [Out("normal", st)]

    st_ImportFrom = st_Import
    st_Global = st_Import
    st_Nonlocal = st_Import

    def st_FunctionDef(self, s, st, exc):
        st.env[s.name] = V(FUNC, ("def", s))
        return [Out("normal", st)]

    def st_ClassDef(self, s, st, exc):
        st.env[s.name] = V(FUNC, ("class", s))
        return [Out("normal", st)]

    # ---------------------------------------------------------------- if
    def st_If(self, s, st, exc):
        outs = []
        for s1, c in self.ev(s.test, st, exc):
            a, b = self.branch(s1, S.truthy(c))
            if a is not None:
                outs.extend(self.exec_block(s.body, a))
            if b is not None:
                outs.extend(self.exec_block(s.orelse, b) if s.orelse else [Out("normal", b)])
        return outs

    # ---------------------------------------------------------------- try
    def st_Try(self, s, st, exc):
        body_outs = self.exec_block(s.body, st)
        outs = []
        for o in body_outs:
            if o.kind == "normal" and s.orelse:
                outs.extend(self.exec_block(s.orelse, o.st))
            elif o.kind == "raise":
                outs.extend(self.dispatch_handlers(s.handlers, o))
            else:
                outs.append(o)
        if not s.finalbody:
            return outs
        final = []
        for o in outs:
            for fo in self.exec_block(s.finalbody, o.st):
                if fo.kind == "normal":
                    final.append(Out(o.kind, fo.st, o.val))
                else:
                    final.append(fo)       # finally overrides with its own return/raise/break
        return final

    def handler_names(self, h):
        if h.type is None:
            return ["BaseException"]
        if isinstance(h.type, ast.Tuple):
            return [ast.unparse(x).split(".")[-1] for x in h.type.elts]
        return [ast.unparse(h.type).split(".")[-1]]

    def dispatch_handlers(self, handlers, o):
        outs = []
        excv = o.val
        cls = excv.t
        st = o.st
        remaining = True
        for h in handlers:
            names = self.handler_names(h)
            ms = [self.match_exc(excv, n) for n in names]
            if "yes" in ms:
                outs.extend(self.run_handler(h, st, excv))
                remaining = False
                break
            if "maybe" in ms:
                n = names[ms.index("maybe")]
                refined = V(EXC, n + "*", excv.x)
                outs.extend(self.run_handler(h, st.copy(), refined))
                # and it may also not match: fall through to later handlers
        if remaining:
            outs.append(Out("raise", st, excv))
        return outs

    def match_exc(self, excv, handler):
        r = self.hier.match(excv.t, handler)
        if r == "maybe" and any(self.hier.is_sub(handler, x) for x in (excv.x or {}).get("excludes", ())):
            return "no"
        return r

    def run_handler(self, h, st, excv):
        prev = st.meta.get("handling")
        st.meta["handling"] = excv
        if h.name:
            st.env[h.name] = excv
        outs = self.exec_block(h.body, st)
        for o in outs:
            if prev is None:
                o.st.meta.pop("handling", None)
            else:
                o.st.meta["handling"] = prev
            if h.name:
                o.st.env.pop(h.name, None)
        return outs

    # ---------------------------------------------------------------- with
    def st_With(self, s, st, exc):
        return self.with_items(list(s.items), s.body, st, s)

    def with_items(self, items, body, st, node):
        if not items:
            return self.exec_block(body, st)
        it = items[0]
        text = ast.unparse(it.context_expr)
        exc = []
        outs = []
        ftext = ast.unparse(it.context_expr.func) if isinstance(it.context_expr, ast.Call) else text
        if ftext in ("contextlib.suppress", "suppress"):
            names = [ast.unparse(a).split(".")[-1] for a in it.context_expr.args]
            outs = []
            for o in self.with_items(items[1:], body, st, node):
                if o.kind == "raise":
                    ms = [self.match_exc(o.val, n) for n in names]
                    if "yes" in ms:
                        outs.append(Out("normal", o.st))
                        continue
                    if "maybe" in ms:
                        outs.append(Out("normal", o.st.copy()))
                outs.append(o)
            return outs
        for s1, cm in self.ev(it.context_expr, st, exc):
            # __enter__
            entered = [(s1, cm)]
            enter_c = self.find_contract_text(ftext + ".__enter__")
            if enter_c is not None:
                entered = self.apply_contract(enter_c, it.context_expr, s1, exc, None, [cm], {})
            for s2, val in entered:
                if it.optional_vars is not None:
                    sts = self.assign(it.optional_vars, val, s2, exc)
                else:
                    sts = [s2]
                for s3 in sts:
                    inner = self.with_items(items[1:], body, s3, node)
                    exit_c = self.find_contract_text(ftext + ".__exit__")
                    is_stack = cm.s.pyside and getattr(cm.s, "kind", "") == "exitstack"
                    for o in inner:
                        if is_stack:
                            outs.extend(self.run_exitstack(cm, o, node))
                        elif exit_c is not None:
                            exc2 = []
                            for s4, r in self.apply_contract(exit_c, it.context_expr, o.st, exc2, None, [cm], {}):
                                outs.append(Out(o.kind, s4, o.val))
                            for s4, ev in exc2:
                                outs.append(Out("raise", s4, ev))
                        else:
                            outs.append(o)
        for s1, ev in exc:
            outs.append(Out("raise", s1, ev))
        return outs

    def run_exitstack(self, cm, o, node):
        """contextlib.ExitStack: run registered callbacks in reverse order on every outcome."""
        key = cm.t
        cbs = list(o.st.meta.get(key, ()))
        cur = [o]
        for call_node, args, kw, recv in reversed(cbs):
            nxt = []
            for oo in cur:
                exc2 = []
                for s4, r in self.invoke_callable(call_node, args, kw, oo.st, exc2):
                    nxt.append(Out(oo.kind, s4, oo.val))
                for s4, ev in exc2:
                    nxt.append(Out("raise", s4, ev))
            cur = nxt
        return cur

    def invoke_callable(self, call_node, args, kw, st, exc):
        """Call the callable expression `call_node` (as registered with ExitStack.callback) with already evaluated arguments."""
        text = ast.unparse(call_node)
        if text == "setattr" and len(args) == 3 and isinstance(args[1].t if hasattr(args[1], "t") else None, object):
            name = self._const_str(args[1])
            if name is not None and isinstance(args[0].s, Obj):
                self.write_field(st, args[0], name, self._coerce_or(args[2], self.declared_field_sort(args[0], name)))
                st.touch()
                return [(st, S.NONEV())]
        c = self.find_contract_text(text)
        fake = ast.Call(func=call_node, args=[], keywords=[])
        ast.copy_location(fake, call_node)
        if c is not None:
            return self.apply_contract(c, fake, st, exc, None, list(args), dict(kw))
        # no contract: an opaque call (may raise, havocs self when it is a method of self)
        self.opaque_calls.setdefault(text, []).append(getattr(call_node, "lineno", 0))
        s_exc = st.copy()
        self.opaque_effects(s_exc, fake, text, list(args))
        s_exc.trace = s_exc.trace + (("?" + text + "!raise", getattr(call_node, "lineno", 0)),)
        exc.append((s_exc, exc_value(self.target.faults + "*", getattr(call_node, "lineno", 0), text)))
        self.opaque_effects(st, fake, text, list(args))
        st.trace = st.trace + (("?" + text, getattr(call_node, "lineno", 0)),)
        return [(st, ANY.fresh("cb"))]

    def _coerce_or(self, v, sort):
        c = self.coerce(v, sort)
        return v if c is None else c

    @staticmethod
    def _const_str(v):
        try:
            if z3.is_string_value(v.t):
                return v.t.as_string()
        except Exception:  # noqa
            pass
        return None

    def declared_field_sort(self, ref, name):
        decl = self.class_decl(ref.s.cls)
        return decl.fields.get(name, ANY) if decl else ANY

    def bi_ExitStack(self, e, st, exc, expect):
        return [(st, V(PySide("exitstack"), S.fresh_name("exitstack")))]

    # ---------------------------------------------------------------- loops
    def loop_spec(self, node):
        ordn = self.loop_ordinals[id(node)]
        ls = self.target.loops.get(ordn)
        if ls is None:
            raise EngineError("loop %d at L%d has no invariant in the spec" % (ordn, node.lineno))
        line = self.srcline(node)
        if ls.anchor and not re.search(ls.anchor, line):
            raise SpecDrift("loop %d anchor %r does not match L%d: %s" % (ordn, ls.anchor, node.lineno, line.strip()))
        return ordn, ls

    def modified_in(self, body, st):
        """Names and self-fields possibly modified by the statements (syntactic)."""
        names, fields, contracts = set(), set(), []
        for stmt in body:
            for n in self._walk_stmts([stmt]):
                if isinstance(n, ast.Name) and isinstance(n.ctx, (ast.Store, ast.Del)):
                    names.add(n.id)
                elif isinstance(n, (ast.Subscript, ast.Attribute)) and isinstance(n.ctx, (ast.Store, ast.Del)):
                    b = _base_name(n)
                    if b:
                        names.add(b[0]) if len(b) == 1 else fields.add(b)
                elif isinstance(n, ast.Call):
                    if isinstance(n.func, ast.Name) and n.func.id == "next" and n.args and isinstance(n.args[0], ast.Name):
                        names.add(n.args[0].id)      # next(it) consumes the iterator held in that variable
                    if isinstance(n.func, ast.Name) and n.func.id in st.env and st.env[n.func.id].s == FUNC \
                            and isinstance(st.env[n.func.id].t, tuple) and st.env[n.func.id].t[0] == "alias":
                        b_ = _base_name(st.env[n.func.id].t[1].value)
                        if b_ and len(b_) == 1:
                            names.add(b_[0])          # a(...) with a = r.append mutates r
                    if isinstance(n.func, ast.Attribute):
                        b = _base_name(n.func.value)
                        if b:
                            if len(b) == 1:
                                # a method call mutates only containers and declared objects; opaque values are
                                # immutable in the model (their attributes are functions of the value)
                                v = st.env.get(b[0])
                                # (declared objects: the effect of a method call is its contract's frame, or the
                                #  conservative whole-object havoc decided in havoc_loop for calls without a contract)
                                if v is None or isinstance(v.s, (Seq, SetS, MapS, Tup, Opt)) or v.s in (POLY_LIST, POLY_SET, POLY_DICT):
                                    names.add(b[0])
                            else:
                                fields.add(("@call",) + tuple(b))     # receiver of a method call: havocked only if mutable
                    contracts.append(n)
                elif isinstance(n, ast.AugAssign):
                    b = _base_name(n.target)
                    if b:
                        names.add(b[0]) if len(b) == 1 else fields.add(b)
        return names, fields, contracts

    def _walk_stmts(self, stmts):
        stack = list(reversed(stmts))
        while stack:
            n = stack.pop()
            yield n
            if isinstance(n, (ast.FunctionDef, ast.Lambda, ast.ClassDef)):
                continue
            stack.extend(reversed(list(ast.iter_child_nodes(n))))

    def havoc_loop(self, st, node, ls):
        body = list(node.body) + list(node.orelse)
        names, fields, calls = self.modified_in(body, st)
        if isinstance(node, ast.For):
            for n in ast.walk(node.target):
                if isinstance(n, ast.Name):
                    names.add(n.id)
        has_opaque_self = False
        ghost_mod = set()
        for c in calls:
            text = ast.unparse(c.func)
            k = self.find_contract_text(text)
            if k is None and isinstance(c.func, ast.Attribute):
                # typed receivers: havoc by declared modifies of every method contract with that name
                for cc in self.spec.contracts:
                    if isinstance(cc.key, tuple) and cc.key[1] == c.func.attr:
                        k = cc
            if k is not None:
                for m in k.modifies:
                    if m.startswith("g."):
                        ghost_mod.add(m[2:])
                    elif m.startswith("self."):
                        b = _base_name(c.func.value) if isinstance(c.func, ast.Attribute) else None
                        if isinstance(k.key, tuple) and b:
                            fields.add(tuple(b) + tuple(m[5:].split(".")))
                        else:
                            fields.add(("self",) + tuple(m[5:].split(".")))
            elif LOGGING_CALLS.match(text) or text in self.spec.pure_calls or EXC_NAME.search(text.split(".")[-1]):
                pass          # logging, declared-pure calls and exception constructors do not mutate self
            elif isinstance(c.func, ast.Attribute) and isinstance(c.func.value, ast.Name) and c.func.value.id == "self":
                has_opaque_self = True
            elif any(isinstance(a, ast.Name) and a.id == "self" for a in c.args):
                has_opaque_self = True
        for m in ls.modifies:
            if m.startswith("g."):
                ghost_mod.add(m[2:])
            elif "." in m:
                fields.add(tuple(m.split(".")))
            else:
                names.add(m)
        for n in sorted(names):
            if n in st.env:
                v = st.env[n]
                if isinstance(v.s, Obj):
                    self.havoc_object(st, v)
                elif v.s in (POLY_LIST, POLY_SET, POLY_DICT):
                    raise EngineError("local %s modified in loop at L%d has no declared sort" % (n, node.lineno))
                elif v.s.pyside:
                    st.env.pop(n)
                else:
                    st.env[n] = self.fresh(v.s, n, st)
        me = st.env.get("self")
        if has_opaque_self and me is not None and isinstance(me.s, Obj):
            self.havoc_object(st, me)
        for f in sorted(fields):
            via_call = f[0] == "@call"
            if via_call:
                f = f[1:]
                if f in fields:
                    continue
            base = st.env.get(f[0])
            if base is None or not isinstance(base.s, Obj):
                continue
            ref = base
            ok = True
            for p in f[1:-1]:
                ref = self.read_field(st, ref, p)
                if not isinstance(ref.s, Obj):
                    ok = False
                    break
            if not ok or len(f) < 2:
                continue
            cur = self.read_field(st, ref, f[-1])
            if via_call and not isinstance(cur.s, (Seq, SetS, MapS, Tup, Opt)):
                continue        # opaque values are immutable in the model; declared objects change through contracts
            if isinstance(cur.s, Obj):
                self.havoc_object(st, cur)
            else:
                st.heap.pop((ref.t, f[-1]), None)
                self.read_field(st, ref, f[-1])
        for g in sorted(ghost_mod):
            st.ghost[g] = self.fresh(st.ghost[g].s, "g_" + g, st)
        if self.target.generator is not None and any(isinstance(n, ast.Yield) for s_ in body for n in ast.walk(s_)):
            st.ghost["yielded"] = self.fresh(st.ghost["yielded"].s, "yielded", st)
        st.trace = st.trace + (("loop*", node.lineno),)
        st.touch()

    def inv_ctx(self, st, pre, extra):
        return Ctx(self, st, old=self.entry_state, pre=pre, extra=extra)

    def st_While(self, s, st, exc):
        ordn, ls = self.loop_spec(s)
        tag = "loop%d" % ordn
        self.emit(tag + ".inv.init", s, st, ls.inv(self.inv_ctx(st, st, {})))
        pre = st.copy()
        h = st.copy()
        self.havoc_loop(h, s, ls)
        h.assume(S.lift(ls.inv(self.inv_ctx(h, pre, {}))))
        outs = []
        if not self.feasible(h):
            # either the path reaching the loop is infeasible, or the invariant is contradictory; the second
            # case is caught after the run (a loop none of whose heads is satisfiable is an engine error)
            self.loop_heads.setdefault(ordn, [0, 0])[1] += 1
            return outs
        self.loop_heads.setdefault(ordn, [0, 0])[0] += 1
        exits = []
        for s1, c in self.ev(s.test, h, exc):
            t, f = self.branch(s1, S.truthy(c))
            if t is not None:
                dec0 = ls.decreases(self.inv_ctx(t, pre, {})) if ls.decreases else None
                for o in self.exec_block(s.body, t):
                    if o.kind in ("normal", "continue"):
                        self.emit(tag + ".inv.preserved", s, o.st, ls.inv(self.inv_ctx(o.st, pre, {})))
                        if ls.body_post is not None:
                            self.emit(tag + ".body", s, o.st, ls.body_post(self.inv_ctx(o.st, pre, {})))
                        if dec0 is not None:
                            d1 = ls.decreases(self.inv_ctx(o.st, pre, {}))
                            self.emit(tag + ".decreases", s, o.st, S.And(dec0 >= 0, d1 < dec0))
                    elif o.kind == "break":
                        exits.append(o.st)
                    else:
                        outs.append(o)
            if f is not None:
                if s.orelse:
                    for o in self.exec_block(s.orelse, f):
                        if o.kind == "normal":
                            exits.append(o.st)
                        else:
                            outs.append(o)
                else:
                    exits.append(f)
        outs.extend(Out("normal", e) for e in exits)
        return outs

    def st_For(self, s, st, exc):
        if isinstance(s.iter, (ast.Tuple, ast.List)) and s.iter.elts and not any(isinstance(x, ast.Starred) for x in s.iter.elts) \
                and self.target.loops.get(self.loop_ordinals[id(s)]) is None:
            # a literal tuple/list of expressions: exact unrolling, element by element
            return self.unroll_literal_for(s, st, exc)
        ordn, ls = self.loop_spec(s)
        tag = "loop%d" % ordn
        outs = []
        for s1, it in self.ev(s.iter, st, exc):
            outs.extend(self.for_over(s, s1, it, ordn, ls, tag, exc))
        return outs

    def unroll_literal_for(self, s, st, exc):
        """`for x in ("a", "b"):` over a literal tuple of constants: exact unrolling (not an approximation)."""
        live, outs = [st], []
        for elt in s.iter.elts:
            nxt = []
            for s0 in live:
                for s1, v in self.ev(elt, s0, exc):
                    for b1 in self.assign(s.target, v, s1, exc):
                        for o in self.exec_block(s.body, b1):
                            if o.kind in ("normal", "continue"):
                                nxt.append(o.st)
                            elif o.kind == "break":
                                outs.append(Out("normal", o.st))
                            else:
                                outs.append(o)
            live = nxt
        for s0 in live:
            if s.orelse:
                outs.extend(self.exec_block(s.orelse, s0))
            else:
                outs.append(Out("normal", s0))
        return outs

    def for_over(self, s, st, it, ordn, ls, tag, exc):
        """Loop over `it`. Sequence-like: ghost index; set-like: ghost `done` set."""
        kind, seqv, setv, elem_of = self.classify_iter(it, st, s)
        idx_name = ls.index or "_i%d" % ordn
        outs, exits = [], []
        pre = st.copy()
        if kind == "seq":
            n = S.Len(seqv) if seqv is not None else None

            def extra_for(i):
                d = {idx_name: i}
                if ls.prefix and seqv is not None:
                    d[ls.prefix] = V(seqv.s, z3.SubSeq(seqv.t, 0, i.t))
                return d
            i0 = S.lift(0)
            if it.s == ITER and it.t[0] == "range":
                i0 = it.t[1]
                n = it.t[2]
                n = S.If(n < i0, i0, n)
            if ls.prefix and seqv is not None:
                self.track(st, V(seqv.s, z3.SubSeq(seqv.t, 0, i0.t)))
            if ls.hints is not None:
                st.assume(S.lift(ls.hints(self.inv_ctx(st, pre, extra_for(i0)))))
            self.emit(tag + ".inv.init", s, st, ls.inv(self.inv_ctx(st, pre, extra_for(i0))))
            h = st.copy()
            self.havoc_loop(h, s, ls)
            i = INT.fresh(idx_name)
            h.assume(S.And(i >= i0, i <= n))
            if ls.prefix and seqv is not None:
                pv = self.fresh(seqv.s, "prefix", None)
                h.assume(pv.t == z3.SubSeq(seqv.t, 0, i.t))
                self.track(h, pv)
            h.assume(S.lift(ls.inv(self.inv_ctx(h, pre, extra_for(i)))))
            if ls.hints is not None:
                h.assume(S.lift(ls.hints(self.inv_ctx(h, pre, extra_for(i)))))
            if not self.feasible(h):
                self.loop_heads.setdefault(ordn, [0, 0])[1] += 1
                return outs
            self.loop_heads.setdefault(ordn, [0, 0])[0] += 1
            body_st, exit_st = self.branch(h, i < n)
            if body_st is not None:
                x = elem_of(i, body_st)
                if seqv is not None and isinstance(seqv.s, Seq):
                    p0_ = self.fresh(seqv.s, "before", None)
                    rest_ = self.fresh(seqv.s, "after", None)
                    body_st.assume(p0_.t == z3.SubSeq(seqv.t, 0, i.t))
                    body_st.assume(rest_.t == z3.SubSeq(seqv.t, i.t + 1, z3.Length(seqv.t) - i.t - 1))
                    self.note_concat(body_st, seqv, [("seq", p0_), ("unit", V(seqv.s.elem, seqv.t[i.t])), ("seq", rest_)])
                if ls.prefix and seqv is not None:
                    # prefix' = prefix ++ [x]
                    p0 = V(seqv.s, z3.SubSeq(seqv.t, 0, i.t))
                    p1 = self.fresh(seqv.s, "prefix1", None)
                    body_st.assume(p1.t == z3.SubSeq(seqv.t, 0, i.t + 1))
                    self.note_concat(body_st, p1, [("seq", p0), ("unit", V(seqv.s.elem, seqv.t[i.t]))])
                body_st.env[idx_name] = i if ls.index else body_st.env.get(idx_name, i)
                if not ls.index:
                    body_st.env.pop(idx_name, None)
                for b1 in self.assign(s.target, x, body_st, exc):
                    for o in self.exec_block(s.body, b1):
                        if o.kind in ("normal", "continue"):
                            self.emit(tag + ".inv.preserved", s, o.st, ls.inv(self.inv_ctx(o.st, pre, extra_for(i + 1))))
                            if ls.body_post is not None:
                                self.emit(tag + ".body", s, o.st, ls.body_post(self.inv_ctx(o.st, pre, extra_for(i + 1))))
                        elif o.kind == "break":
                            exits.append(o.st)
                        else:
                            outs.append(o)
            if exit_st is not None:
                # locals first bound by a leading plain assignment of the body are bound after the loop when it ran at least once
                if not self.feasible(exit_st, (i == i0).t):
                    for stmt_ in s.body:
                        if isinstance(stmt_, ast.Assign) and len(stmt_.targets) == 1 and isinstance(stmt_.targets[0], ast.Name):
                            nm_ = stmt_.targets[0].id
                            so_ = self.target.locals.get(nm_)
                            if nm_ not in exit_st.env and so_ is not None:
                                exit_st.env[nm_] = self.fresh(so_, nm_, exit_st)
                        elif not isinstance(stmt_, ast.Expr):
                            break
                if ls.prefix and seqv is not None:
                    exit_st.assume(z3.SubSeq(seqv.t, 0, i.t) == seqv.t)
                exit_st.meta["loop%d_exit_index" % ordn] = i
                self._for_else(s, exit_st, exits, outs)
        else:
            so = setv.s
            done_name = ls.done or "_done%d" % ordn
            d0 = so.empty()
            self.emit(tag + ".inv.init", s, st, ls.inv(self.inv_ctx(st, pre, {done_name: d0})))
            h = st.copy()
            self.havoc_loop(h, s, ls)
            d = so.fresh(done_name)
            h.assume(z3.IsSubset(d.t, setv.t))
            h.assume(S.lift(ls.inv(self.inv_ctx(h, pre, {done_name: d}))))
            if not self.feasible(h):
                self.loop_heads.setdefault(ordn, [0, 0])[1] += 1
                return outs
            self.loop_heads.setdefault(ordn, [0, 0])[0] += 1
            body_st, exit_st = self.branch(h, V(BOOL, d.t != setv.t))
            if body_st is not None:
                k = so.elem.fresh("k")
                body_st.assume(z3.And(z3.Select(setv.t, k.t), z3.Not(z3.Select(d.t, k.t))))
                x = elem_of(k, body_st)
                d1 = V(so, z3.Store(d.t, k.t, True))
                for b1 in self.assign(s.target, x, body_st, exc):
                    for o in self.exec_block(s.body, b1):
                        if o.kind in ("normal", "continue"):
                            self.emit(tag + ".inv.preserved", s, o.st, ls.inv(self.inv_ctx(o.st, pre, {done_name: d1})))
                            if ls.body_post is not None:
                                self.emit(tag + ".body", s, o.st, ls.body_post(self.inv_ctx(o.st, pre, {done_name: d1})))
                        elif o.kind == "break":
                            exits.append(o.st)
                        else:
                            outs.append(o)
            if exit_st is not None:
                self._for_else(s, exit_st, exits, outs)
        outs.extend(Out("normal", e) for e in exits)
        return outs

    def _for_else(self, s, exit_st, exits, outs):
        if s.orelse:
            for o in self.exec_block(s.orelse, exit_st):
                if o.kind == "normal":
                    exits.append(o.st)
                else:
                    outs.append(o)
        else:
            exits.append(exit_st)

    def classify_iter(self, it, st, node):
        """-> (kind, seq value|None, set value|None, elem_of(i_or_key, st) -> V)"""
        if isinstance(it.s, Opt):
            it = it.s.val(it)
        if isinstance(it.s, Seq):
            return "seq", it, None, lambda i, s_: V(it.s.elem, it.t[i.t])
        if isinstance(it.s, S._Str):
            if it.s == BYTES:
                return "seq", it, None, lambda i, s_: V(INT, z3.StrToCode(z3.SubSeq(it.t, i.t, 1)))
            return "seq", it, None, lambda i, s_: V(it.s, z3.SubSeq(it.t, i.t, 1))
        if it.s == POLY_LIST or it.s == POLY_SET or it.s == POLY_DICT:
            e = V(Seq(ANY), z3.Empty(Seq(ANY).z3()))
            return "seq", e, None, lambda i, s_: ANY.fresh("never")
        if isinstance(it.s, Tup):
            if len(set(x.name for x in it.s.elems)) == 1:
                so = Seq(it.s.elems[0])
                nv = self.fresh(so, "tupseq", None)
                self.note_concat(st, nv, [("unit", it.s.get(it, i)) for i in range(len(it.s.elems))])
                return "seq", nv, None, lambda i, s_: V(so.elem, nv.t[i.t])
            raise EngineError("iteration over a heterogeneous tuple (L%d)" % node.lineno)
        if isinstance(it.s, SetS):
            return "set", None, it, lambda k, s_: k
        if isinstance(it.s, MapS):
            return "set", None, V(SetS(it.s.key), it.s.dom(it)), lambda k, s_: k
        if it.s == ITER:
            tag = it.t[0]
            if tag == "range":
                return "seq", None, None, lambda i, s_: i
            if tag == "items":
                m = it.t[1]
                if m.s == POLY_DICT:
                    e = V(Seq(ANY), z3.Empty(Seq(ANY).z3()))
                    return "seq", e, None, lambda i, s_: ANY.fresh("never")
                tp = Tup(m.s.key, m.s.val)
                return "set", None, V(SetS(m.s.key), m.s.dom(m)), lambda k, s_: tp.mk(k, m[k])
            if tag == "values":
                m = it.t[1]
                return "set", None, V(SetS(m.s.key), m.s.dom(m)), lambda k, s_: m[k]
            if tag == "enumerate":
                kind, seqv, setv, eo = self.classify_iter(it.t[1], st, node)
                if kind != "seq" or seqv is None:
                    raise EngineError("enumerate over a non-sequence (L%d)" % node.lineno)
                start = it.t[2]
                return "seq", seqv, None, lambda i, s_: V(PySide("pytuple"), (i + start, eo(i, s_)))
            if tag == "zip":
                parts = [self.classify_iter(x, st, node) for x in it.t[1:]]
                if any(p[0] != "seq" or p[1] is None for p in parts):
                    raise EngineError("zip over non-sequences (L%d)" % node.lineno)
                ln = parts[0][1]
                zs = self.fresh(Seq(INT), "ziplen", None)
                m = S.Len(parts[0][1])
                for p in parts[1:]:
                    m = S.If(S.Len(p[1]) < m, S.Len(p[1]), m)
                st.assume(z3.Length(zs.t) == m.t)
                return "seq", zs, None, lambda i, s_: V(PySide("pytuple"), tuple(p[3](i, s_) for p in parts))
            if tag == "opaque":
                so = Seq(ANY)
                sq = self.fresh(so, "iter", st)
                return "seq", sq, None, lambda i, s_: V(ANY, sq.t[i.t])
        if it.s == ANY or isinstance(it.s, Opaque):
            es = self.spec.attr_sorts.get("iter:" + getattr(it.s, "oname", "Any")) or ANY
            so = Seq(es)
            f = z3.Function("IterSeq_%s_%s" % (getattr(it.s, "oname", "Any"), S._mangle(es.name)), it.s.z3(), so.z3())
            sq = V(so, f(it.t))
            self.track(st, sq)
            return "seq", sq, None, lambda i, s_: V(es, sq.t[i.t])
        raise EngineError("iteration over %s (L%d)" % (it.s, node.lineno))


def _as_load(t):
    import copy
    n = copy.deepcopy(t)
    for x in ast.walk(n):
        if hasattr(x, "ctx"):
            x.ctx = ast.Load()
    return n


def _base_name(n):
    """('x',) for x[..]/x.m ; ('self','f') for self.f[..] ; None otherwise."""
    path = []
    while True:
        if isinstance(n, ast.Subscript):
            n = n.value
        elif isinstance(n, ast.Attribute):
            path.append(n.attr)
            n = n.value
        elif isinstance(n, ast.Name):
            path.append(n.id)
            break
        else:
            return None
    path.reverse()
    if path[0] == "self" or len(path) > 1:
        return tuple(path[:2]) if path[0] == "self" and len(path) >= 2 else (path[0],)
    return (path[0],)
