"""Sort descriptors and symbolic values for pyvc.

A Python value is represented as V(sort, term): `sort` is one of the descriptor
objects below, `term` a z3 term of `sort.z3()` (or a Python-side handle for
object references, exceptions and bound methods, which never enter the solver).
"""
import itertools
import z3

_fresh = itertools.count()


def fresh_name(base):
    return "%s!%d" % (base, next(_fresh))


class Sort:
    name = "?"
    pyside = False  # True: value never becomes a z3 term

    def z3(self):
        raise NotImplementedError(self.name)

    def fresh(self, base="v"):
        return V(self, z3.Const(fresh_name(base), self.z3()))

    def __repr__(self):
        return self.name

    def __eq__(self, other):
        return isinstance(other, Sort) and self.name == other.name

    def __hash__(self):
        return hash(self.name)


class _Int(Sort):
    name = "Int"

    def z3(self):
        return z3.IntSort()


class _Bool(Sort):
    name = "Bool"

    def z3(self):
        return z3.BoolSort()


class _Str(Sort):
    """str and bytes both map to z3 strings (bytes: code points 0..255)."""

    def __init__(self, name):
        self.name = name

    def z3(self):
        return z3.StringSort()


class _None(Sort):
    name = "None"
    _s = None

    def z3(self):
        if _None._s is None:
            _None._s, (_None._v,) = z3.EnumSort("NoneT", ["none_v"])
        return _None._s

    def fresh(self, base="v"):
        return NONEV()


INT = _Int()
BOOL = _Bool()
STR = _Str("Str")
BYTES = _Str("Bytes")
NONE = _None()


def NONEV():
    NONE.z3()
    return V(NONE, _None._v)


_dt_cache = {}


class Seq(Sort):
    def __init__(self, elem):
        self.elem = elem
        self.name = "Seq(%s)" % elem.name

    def z3(self):
        return z3.SeqSort(self.elem.z3())


class Tup(Sort):
    """Fixed-arity heterogeneous product (Python tuple, or a list used as a record)."""

    def __init__(self, *elems):
        self.elems = tuple(elems)
        self.name = "Tup(%s)" % ",".join(e.name for e in elems)

    def _dt(self):
        if self.name not in _dt_cache:
            k = len(_dt_cache)
            d = z3.Datatype("T%d_%s" % (k, _mangle(self.name)))
            d.declare("mk%d" % k, *[("t%df%d" % (k, i), e.z3()) for i, e in enumerate(self.elems)])
            _dt_cache[self.name] = (d.create(), k)
        return _dt_cache[self.name][0]

    def z3(self):
        return self._dt()

    def mk(self, *vals):
        dt = self._dt()
        return V(self, getattr(dt, "mk%d" % _dt_cache[self.name][1])(*[v.t for v in vals]))

    def get(self, v, i):
        dt = self._dt()
        return V(self.elems[i], getattr(dt, "t%df%d" % (_dt_cache[self.name][1], i))(v.t))


class Opt(Sort):
    def __init__(self, inner):
        assert not isinstance(inner, Opt)
        self.inner = inner
        self.name = "Opt(%s)" % inner.name

    def _dt(self):
        if self.name not in _dt_cache:
            k = len(_dt_cache)
            d = z3.Datatype("O%d_%s" % (k, _mangle(self.name)))
            d.declare("none%d" % k)
            d.declare("some%d" % k, ("val%d" % k, self.inner.z3()))
            _dt_cache[self.name] = (d.create(), k)
        return _dt_cache[self.name][0]

    def _k(self):
        self._dt()
        return _dt_cache[self.name][1]

    def z3(self):
        return self._dt()

    def none(self):
        return V(self, getattr(self._dt(), "none%d" % self._k()))

    def some(self, v):
        v = lift(v, self.inner)
        return V(self, getattr(self._dt(), "some%d" % self._k())(v.t))

    def is_none(self, v):
        return getattr(self._dt(), "is_none%d" % self._k())(v.t)

    def val(self, v):
        return V(self.inner, getattr(self._dt(), "val%d" % self._k())(v.t))


class SetS(Sort):
    def __init__(self, elem):
        self.elem = elem
        self.name = "Set(%s)" % elem.name

    def z3(self):
        return z3.ArraySort(self.elem.z3(), z3.BoolSort())

    def empty(self):
        return V(self, z3.K(self.elem.z3(), z3.BoolVal(False)))


class MapS(Sort):
    """dict: domain set + value array, packed in one datatype so it nests."""

    def __init__(self, key, val):
        self.key, self.val = key, val
        self.name = "Map(%s,%s)" % (key.name, val.name)

    def _dt(self):
        if self.name not in _dt_cache:
            k = len(_dt_cache)
            d = z3.Datatype("M%d_%s" % (k, _mangle(self.name)))
            d.declare("mkmap%d" % k, ("dom%d" % k, z3.ArraySort(self.key.z3(), z3.BoolSort())),
                      ("vals%d" % k, z3.ArraySort(self.key.z3(), self.val.z3())))
            _dt_cache[self.name] = (d.create(), k)
        return _dt_cache[self.name][0]

    def _k(self):
        self._dt()
        return _dt_cache[self.name][1]

    def z3(self):
        return self._dt()

    def dom(self, v):
        return getattr(self._dt(), "dom%d" % self._k())(v.t)

    def vals(self, v):
        return getattr(self._dt(), "vals%d" % self._k())(v.t)

    def mk(self, dom, vals):
        return V(self, getattr(self._dt(), "mkmap%d" % self._k())(dom, vals))

    def empty(self):
        return self.mk(z3.K(self.key.z3(), z3.BoolVal(False)),
                       z3.Const(fresh_name("mapinit"), z3.ArraySort(self.key.z3(), self.val.z3())))


_opaque_cache = {}


class Opaque(Sort):
    def __init__(self, name):
        self.oname = name
        self.name = "Opaque(%s)" % name

    def z3(self):
        if self.oname not in _opaque_cache:
            _opaque_cache[self.oname] = z3.DeclareSort("U_" + self.oname)
        return _opaque_cache[self.oname]


ANY = Opaque("Any")

_enum_cache = {}


class Enum(Sort):
    def __init__(self, name, values):
        self.ename = name
        self.values = tuple(values)
        self.name = "Enum(%s)" % name

    def _mk(self):
        if self.ename not in _enum_cache:
            _enum_cache[self.ename] = z3.EnumSort("E_" + self.ename, ["%s_%s" % (self.ename, v) for v in self.values])
        return _enum_cache[self.ename]

    def z3(self):
        return self._mk()[0]

    def lit(self, value):
        return V(self, self._mk()[1][self.values.index(value)])


class Obj(Sort):
    """Reference to a heap object of a class declared in the spec."""
    pyside = True

    def __init__(self, cls):
        self.cls = cls
        self.name = "Obj(%s)" % cls

    def fresh(self, base="o"):
        return V(self, fresh_name(base))


class PySide(Sort):
    """Exceptions, bound methods, classes, modules: python-side handles."""
    pyside = True

    def __init__(self, kind):
        self.kind = kind
        self.name = "Py(%s)" % kind


EXC = PySide("exc")
FUNC = PySide("func")
CLS = PySide("cls")


def _mangle(s):
    return "".join(ch if ch.isalnum() else "_" for ch in s)


class V:
    """Symbolic value. Operators build z3 terms so that spec lambdas read naturally.

    `and`/`or`/`not` cannot be overloaded: specs use `&`, `|`, `~`.
    """
    __slots__ = ("s", "t", "x")

    def __init__(self, s, t, x=None):
        self.s, self.t, self.x = s, t, x

    def __repr__(self):
        return "V<%s %s>" % (self.s, self.t)

    # --- arithmetic
    def _bin(self, other, f, rs=None):
        o = lift(other, self.s)
        return V(rs or self.s, f(self.t, o.t))

    def __add__(self, o):
        o = lift(o, self.s)
        if isinstance(self.s, (Seq, _Str)):
            return V(self.s, z3.Concat(self.t, o.t))
        return V(INT, self.t + o.t)

    def __radd__(self, o):
        return lift(o, self.s).__add__(self)

    def __sub__(self, o):
        o = lift(o, self.s)
        if isinstance(self.s, SetS):
            return V(self.s, z3.SetDifference(self.t, o.t))
        return V(INT, self.t - o.t)

    def __rsub__(self, o):
        return lift(o, self.s).__sub__(self)

    def __mul__(self, o):
        return self._bin(o, lambda a, b: a * b)

    def __rmul__(self, o):
        return self._bin(o, lambda a, b: b * a)

    def __neg__(self):
        return V(INT, -self.t)

    def __floordiv__(self, o):
        """spec side: integer division by a POSITIVE literal (z3 div agrees with Python's // there)"""
        if not isinstance(o, int) or o <= 0:
            raise TypeError("spec // needs a positive literal divisor")
        return V(INT, self.t / z3.IntVal(o))

    def __mod__(self, o):
        if not isinstance(o, int) or o <= 0:
            raise TypeError("spec % needs a positive literal divisor")
        return V(INT, self.t % z3.IntVal(o))

    # --- comparison
    def __eq__(self, o):
        return eq(self, o)

    def __ne__(self, o):
        return V(BOOL, z3.Not(eq(self, o).t))

    def __lt__(self, o):
        return self._bin(o, lambda a, b: a < b, BOOL)

    def __le__(self, o):
        return self._bin(o, lambda a, b: a <= b, BOOL)

    def __gt__(self, o):
        return self._bin(o, lambda a, b: a > b, BOOL)

    def __ge__(self, o):
        return self._bin(o, lambda a, b: a >= b, BOOL)

    __hash__ = None

    # --- boolean / set algebra
    def __and__(self, o):
        o = lift(o, self.s)
        if isinstance(self.s, SetS):
            return V(self.s, z3.SetIntersect(self.t, o.t))
        return V(BOOL, z3.And(self.t, o.t))

    def __rand__(self, o):
        return lift(o, self.s).__and__(self)

    def __or__(self, o):
        o = lift(o, self.s)
        if isinstance(self.s, SetS):
            return V(self.s, z3.SetUnion(self.t, o.t))
        return V(BOOL, z3.Or(self.t, o.t))

    def __ror__(self, o):
        return lift(o, self.s).__or__(self)

    def __invert__(self):
        return V(BOOL, z3.Not(self.t))

    def __bool__(self):
        raise TypeError("symbolic value used as a Python bool: use &, |, ~, If() in specs")

    # --- indexing (spec side; no safety obligations)
    def __getitem__(self, i):
        if isinstance(self.s, Tup):
            return self.s.get(self, i)
        if isinstance(self.s, (Seq, _Str)):
            if isinstance(i, slice):
                lo = lift(0 if i.start is None else i.start, INT)
                hi = Len(self) if i.stop is None else lift(i.stop, INT)
                lo, hi = norm_index(lo, self), norm_index(hi, self)
                return V(self.s, z3.SubSeq(self.t, lo.t, (hi - lo).t))
            i = norm_index(lift(i, INT), self)
            if isinstance(self.s, Seq):
                return V(self.s.elem, self.t[i.t])
            return V(self.s, z3.SubSeq(self.t, i.t, 1))
        if isinstance(self.s, MapS):
            return V(self.s.val, z3.Select(self.s.vals(self), lift(i, self.s.key).t))
        raise TypeError("cannot index %s" % self.s)

    def contains(self, x):
        return In(x, self)

    # Opt helpers
    @property
    def is_none(self):
        if isinstance(self.s, Opt):
            return V(BOOL, self.s.is_none(self))
        return V(BOOL, z3.BoolVal(self.s == NONE))

    @property
    def val(self):
        if isinstance(self.s, Opt):
            return self.s.val(self)
        return self


def norm_index(i, seq):
    """Python negative index normalisation (no clamping)."""
    if z3.is_int_value(i.t):
        if i.t.as_long() >= 0:
            return i
        return V(INT, z3.Length(seq.t) + i.t)
    return V(INT, z3.If(i.t < 0, z3.Length(seq.t) + i.t, i.t))


def lift(x, hint=None):
    """Turn a Python constant into a V, guided by the sort of the other operand."""
    if isinstance(x, V):
        return x
    if x is None:
        if isinstance(hint, Opt):
            return hint.none()
        return NONEV()
    if isinstance(x, bool):
        return V(BOOL, z3.BoolVal(x))
    if isinstance(x, int):
        return V(INT, z3.IntVal(x))
    if isinstance(x, str):
        if isinstance(hint, Enum):
            return hint.lit(x)
        if isinstance(hint, Opt) and isinstance(hint.inner, Enum):
            return hint.some(hint.inner.lit(x))
        return V(STR, z3.StringVal(x))
    if isinstance(x, bytes):
        return V(BYTES, z3.StringVal("".join(_esc(b) for b in x)))
    if isinstance(x, (list, tuple)) and isinstance(hint, Seq):
        if not x:
            return V(hint, z3.Empty(hint.z3()))
        parts = [z3.Unit(lift(e, hint.elem).t) for e in x]
        return V(hint, parts[0] if len(parts) == 1 else z3.Concat(*parts))
    if isinstance(x, tuple) and isinstance(hint, Tup):
        return hint.mk(*[lift(e, s) for e, s in zip(x, hint.elems)])
    if isinstance(x, (set, frozenset)) and isinstance(hint, SetS):
        t = hint.empty().t
        for e in x:
            t = z3.Store(t, lift(e, hint.elem).t, True)
        return V(hint, t)
    raise TypeError("cannot lift %r (hint %s)" % (x, hint))


def _esc(b):
    if 32 <= b < 127 and chr(b) not in '\\"':
        return chr(b)
    return "\\u{%x}" % b


def coerce(v, sort):
    """Convert v to `sort` where Python would (None/T -> Opt(T)); None if impossible."""
    if v.s == sort:
        return v
    if isinstance(sort, Enum) and v.s == FUNC and isinstance(v.t, tuple) and v.t[0] == "bound" and v.t[2] in sort.values:
        return sort.lit(v.t[2])          # a field holding one of the object's own bound methods: enumeration of the method names
    if isinstance(sort, Opt):
        if v.s == NONE:
            return sort.none()
        if v.s == sort.inner:
            return sort.some(v)
        if isinstance(v.s, Opt) and v.s.inner == NONE:
            return sort.none()
    if isinstance(v.s, Opt) and v.s.inner == sort:
        return v.s.val(v)  # caller is responsible for the not-None obligation
    if isinstance(sort, _Str) and isinstance(v.s, _Str):
        return V(sort, v.t)
    if sort == INT and v.s == BOOL:
        return V(INT, z3.If(v.t, 1, 0))
    return None


def eq(a, b):
    a = lift(a, b.s if isinstance(b, V) else None)
    b = lift(b, a.s)
    if isinstance(a.s, Enum) and b.s == FUNC:
        cb = coerce(b, a.s)
        b = b if cb is None else cb
    if isinstance(b.s, Enum) and a.s == FUNC:
        ca = coerce(a, b.s)
        a = a if ca is None else ca
    if a.s.pyside or b.s.pyside:
        if a.s.pyside and b.s.pyside:
            return V(BOOL, z3.BoolVal(a.t == b.t and a.s == b.s))
        return V(BOOL, z3.BoolVal(False))
    if a.s == b.s:
        return V(BOOL, a.t == b.t)
    c = coerce(a, b.s) if isinstance(b.s, Opt) else None
    if c is not None:
        return V(BOOL, c.t == b.t)
    c = coerce(b, a.s) if isinstance(a.s, Opt) else None
    if c is not None:
        return V(BOOL, a.t == c.t)
    if isinstance(a.s, _Str) and isinstance(b.s, _Str):
        return V(BOOL, a.t == b.t)
    if a.s == INT and b.s == BOOL or a.s == BOOL and b.s == INT:
        return V(BOOL, coerce(a, INT).t == coerce(b, INT).t)
    # values of different Python types never compare equal
    return V(BOOL, z3.BoolVal(False))


def Len(v):
    if isinstance(v.s, (Seq, _Str)):
        return V(INT, z3.Length(v.t))
    raise TypeError("Len of %s" % v.s)


def In(x, c):
    if isinstance(c.s, SetS):
        return V(BOOL, z3.Select(c.t, lift(x, c.s.elem).t))
    if isinstance(c.s, MapS):
        return V(BOOL, z3.Select(c.s.dom(c), lift(x, c.s.key).t))
    if isinstance(c.s, Seq):
        return V(BOOL, z3.Contains(c.t, z3.Unit(lift(x, c.s.elem).t)))
    if isinstance(c.s, _Str):
        return V(BOOL, z3.Contains(c.t, lift(x, c.s).t))
    raise TypeError("In on %s" % c.s)


def mapstore(m, k, v):
    k, v = lift(k, m.s.key), lift(v, m.s.val)
    return m.s.mk(z3.Store(m.s.dom(m), k.t, True), z3.Store(m.s.vals(m), k.t, v.t))


def mapdel(m, k):
    k = lift(k, m.s.key)
    return m.s.mk(z3.Store(m.s.dom(m), k.t, False), m.s.vals(m))


def mapeq(a, b):
    """Extensional equality of dicts: same keys, same values on them."""
    k = a.s.key.fresh("q")
    return V(BOOL, z3.And(a.s.dom(a) == b.s.dom(b),
                          z3.ForAll([k.t], z3.Implies(z3.Select(a.s.dom(a), k.t),
                                                      z3.Select(a.s.vals(a), k.t) == z3.Select(b.s.vals(b), k.t)))))


def mkset(so, *xs):
    t = so.empty().t
    for x in xs:
        t = z3.Store(t, lift(x, so.elem).t, True)
    return V(so, t)


def If(c, a, b):
    c = lift(c)
    a = lift(a, b.s if isinstance(b, V) else None)
    b = lift(b, a.s)
    if a.s != b.s:
        for tgt in (a.s, b.s):
            ca, cb = coerce(a, tgt), coerce(b, tgt)
            if ca is not None and cb is not None and isinstance(tgt, Opt):
                a, b = ca, cb
                break
        else:
            raise TypeError("If branches of different sorts: %s / %s" % (a.s, b.s))
    return V(a.s, z3.If(c.t, a.t, b.t))


def And(*xs):
    xs = [lift(x).t for x in xs]
    return V(BOOL, z3.And(*xs) if xs else z3.BoolVal(True))


def Or(*xs):
    xs = [lift(x).t for x in xs]
    return V(BOOL, z3.Or(*xs) if xs else z3.BoolVal(False))


def Not(x):
    return V(BOOL, z3.Not(lift(x).t))


def Implies(a, b):
    return V(BOOL, z3.Implies(lift(a).t, lift(b).t))


TRUE = V(BOOL, z3.BoolVal(True))
FALSE = V(BOOL, z3.BoolVal(False))


ALWAYS_TRUTHY = set()      # opaque sorts declared by a spec as plain objects (no __bool__/__len__): always true


def truthy(v):
    """Python truthiness of a value as a Bool V."""
    s = v.s
    if s == BOOL:
        return v
    if s == INT:
        return V(BOOL, v.t != 0)
    if s == NONE:
        return FALSE
    if isinstance(s, (Seq, _Str)):
        return V(BOOL, z3.Length(v.t) > 0)
    if isinstance(s, SetS):
        return V(BOOL, v.t != s.empty().t)
    if isinstance(s, MapS):
        return V(BOOL, s.dom(v) != z3.K(s.key.z3(), z3.BoolVal(False)))
    if isinstance(s, Opt):
        return V(BOOL, z3.And(z3.Not(s.is_none(v)), truthy(s.val(v)).t))
    if isinstance(s, Tup):
        return V(BOOL, z3.BoolVal(len(s.elems) > 0))
    if isinstance(s, Opaque) and s.oname in ALWAYS_TRUTHY:
        return TRUE
    if isinstance(s, Opaque):
        # an opaque value may be falsy (0, '', None, an empty container): uninterpreted truth value
        f = z3.Function("Truthy_" + s.oname, s.z3(), z3.BoolSort())
        return V(BOOL, f(v.t))
    # enums, object references, functions, classes: truthy
    return TRUE
