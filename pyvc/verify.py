"""Target driver: builds the entry state, runs the body, emits post/frame/canary/cover obligations."""
import ast
import z3

from . import sorts as S
from .sorts import V, INT, BOOL, STR, BYTES, NONE, ANY, Seq, Tup, Opt, SetS, MapS, Opaque, Enum, Obj, PySide, EXC, FUNC
from .state import State, Ctx, EngineError, SpecDrift
from .engine import Core, Out, exc_value, GLOB
from .expr import ExprMixin
from .calls import CallMixin
from .stmt import StmtMixin


class Engine(ExprMixin, CallMixin, StmtMixin, Core):
    def prepare(self):
        f = self.func
        t = self.target
        self.local_names = set()
        self.global_reads = set()
        for n in self._walk_body(f):
            if isinstance(n, ast.Name) and isinstance(n.ctx, (ast.Store, ast.Del)):
                self.local_names.add(n.id)
            elif isinstance(n, ast.Global):
                self.global_reads.update(n.names)
            elif isinstance(n, (ast.FunctionDef, ast.ClassDef)):
                self.local_names.add(n.name)
            elif isinstance(n, ast.ExceptHandler) and n.name:
                self.local_names.add(n.name)
        # names visible as globals: module-level definitions and builtins (anything else is a NameError at run time)
        import builtins
        self.module_names = set(dir(builtins))
        def top(stmts):
            for n in stmts:
                if isinstance(n, (ast.Import, ast.ImportFrom)):
                    for a in n.names:
                        self.module_names.add((a.asname or a.name).split(".")[0])
                elif isinstance(n, (ast.FunctionDef, ast.ClassDef, ast.AsyncFunctionDef)):
                    self.module_names.add(n.name)
                elif isinstance(n, (ast.Assign, ast.AnnAssign, ast.AugAssign)):
                    for tgt in (n.targets if isinstance(n, ast.Assign) else [n.target]):
                        for x in ast.walk(tgt):
                            if isinstance(x, ast.Name):
                                self.module_names.add(x.id)
                elif (isinstance(n, ast.Expr) and isinstance(n.value, ast.Call) and ast.unparse(n.value.func).endswith("lazy_import")
                      and len(n.value.args) == 2 and isinstance(n.value.args[1], ast.Constant) and isinstance(n.value.args[1].value, str)):
                    try:
                        import textwrap
                        top(ast.parse(textwrap.dedent(n.value.args[1].value)).body)
                    except SyntaxError:
                        pass
                elif isinstance(n, (ast.If, ast.Try, ast.With, ast.For, ast.While)):
                    for fld in ("body", "orelse", "finalbody"):
                        top(getattr(n, fld, []) or [])
                    for h in getattr(n, "handlers", []) or []:
                        top(h.body)
        top(self.tree.body)
        # enclosing function scopes of nested targets
        for n in ast.walk(self.tree):
            if isinstance(n, (ast.FunctionDef, ast.Lambda)) and n is not f and any(ch is f for ch in ast.walk(n)):
                for a in n.args.posonlyargs + n.args.args + n.args.kwonlyargs:
                    self.module_names.add(a.arg)
                for x in ast.walk(n):
                    if isinstance(x, ast.Name) and isinstance(x.ctx, ast.Store):
                        self.module_names.add(x.id)
        self.module_names.update(self.spec.consts)
        self.module_names.update(t.params)
        self.method_names = set()
        for c in self.spec.contracts:
            if isinstance(c.key, tuple):
                self.method_names.add("%s.%s" % c.key)
        clsname = t.cls or (self.cls_node.name if self.cls_node is not None else None)
        if self.cls_node is not None:
            for n in self.cls_node.body:
                if isinstance(n, ast.FunctionDef):
                    self.method_names.add("%s.%s" % (clsname, n.name))
        self.clsname = clsname
        for d in f.decorator_list:
            dt = ast.unparse(d)
            if dt in ("staticmethod", "classmethod", "property") or dt.endswith(".setter"):
                continue
            if dt.startswith("only_raises") or dt.startswith("decorators.only_raises"):
                continue
            if dt in self.spec.ns.get("TRANSPARENT_DECORATORS", ()):
                continue
            raise EngineError("decorator %s on target %s is not modelled" % (dt, t.qualname))

    def only_raises(self):
        for d in self.func.decorator_list:
            dt = ast.unparse(d)
            if dt.startswith("only_raises") or dt.startswith("decorators.only_raises"):
                return [ast.unparse(a).split(".")[-1] for a in d.args]
        return None

    def entry(self):
        f, t = self.func, self.target
        st = State()
        for f_ in self.spec.folds:
            # fold axioms at the empty sequence (definitional)
            e_ = z3.Empty(f_.sort.z3())
            st.assume(f_.f(e_) == f_.unit())
        for nm_, rv_ in self.spec.rev.items():
            for so_ in set(f_.sort for f_ in self.spec.folds) | set(t.params.values()) | set(t.locals.values()):
                if getattr(so_, "name", None) == nm_:
                    st.assume(rv_(z3.Empty(so_.z3())) == z3.Empty(so_.z3()))
        for g, so in self.spec.ghosts.items():
            st.ghost[g] = self.fresh(so, "g_" + g, st)
        if t.generator is not None:
            so = Seq(t.generator)
            st.ghost["yielded"] = V(so, z3.Empty(so.z3()))
        args = f.args
        if args.vararg or args.kwarg:
            for a in (args.vararg, args.kwarg):
                if a is not None:
                    st.env[a.arg] = ANY.fresh(a.arg)
        params = [a.arg for a in args.posonlyargs + args.args + args.kwonlyargs]
        is_static = any(ast.unparse(d) == "staticmethod" for d in f.decorator_list)
        for i, p in enumerate(params):
            if i == 0 and self.cls_node is not None and not is_static and p in ("self", "cls") and not t.nested and p not in t.params:
                if p == "self":
                    ref = V(Obj(self.clsname), "self")
                    st.env["self"] = ref
                    self.init_object(st, ref)
                else:
                    st.env[p] = V(GLOB, self.clsname)
                continue
            so = t.params.get(p)
            if so is None:
                st.env[p] = ANY.fresh(p)
            elif isinstance(so, Obj):
                ref = V(so, p)
                st.env[p] = ref
                self.init_object(st, ref)
            else:
                st.env[p] = self.fresh(so, p, st)
        for p, so in t.params.items():
            if p not in st.env:
                # closure variables of nested targets, or block inputs
                if isinstance(so, tuple) and so and so[0] == "alias":
                    # a block input that is an alias of a container's bound method (a = r.append before the block)
                    import ast as _ast
                    from .sorts import FUNC as _FUNC
                    st.env[p] = V(_FUNC, ("alias", _ast.parse(so[1], mode="eval").body))
                    continue
                if isinstance(so, Obj):
                    ref = V(so, p)
                    st.env[p] = ref
                    self.init_object(st, ref)
                else:
                    st.env[p] = self.fresh(so, p, st)
        return st

    def run(self):
        self.prepare()
        t = self.target
        st0 = self.entry()
        if t.requires is not None:
            st0.assume(S.lift(t.requires(Ctx(self, st0))))
        self.entry_state = st0.copy()
        self.emit_cover("cover.requires", self.func, st0)
        body = self.func.body
        if t.block is not None:
            body = self.find_block(body, t.block)
        outs = self.exec_block(body, st0.copy())
        only = self.only_raises()
        n_normal = n_raise = 0
        covered = set()
        for o in outs:
            if o.kind in ("break", "continue"):
                if t.block is not None:
                    o = Out("normal", o.st)
                else:
                    raise EngineError("break/continue escaped the function")
            if o.kind == "raise" and only is not None:
                if not any(self.hier.is_sub(o.val.t, k) for k in only):
                    # decorators.only_raises swallows it and returns None
                    o = Out("return", o.st, S.NONEV())
            self.exit_states.append(o)
            if t.hints is not None:
                o.st.assume(S.lift(t.hints(Ctx(self, o.st, old=self.entry_state))))
            if o.kind in ("normal", "return"):
                n_normal += 1
                res = o.val if o.kind == "return" else S.NONEV()
                if t.result is not None and res is not None:
                    c = self.coerce(res, t.result)
                    if c is None and t.result == BOOL and res.s != NONE:
                        c = S.truthy(res)      # declared Bool: only the truth value of the result is specified
                    if c is None and res.s == NONE and not isinstance(t.result, Opt):
                        self.emit("ensures", self.func.end_lineno, o.st, S.FALSE, tag="result-type",
                                  info="returns None where the contract declares %s" % t.result)
                        c = self.fresh(t.result, "badresult", o.st)
                    if c is None:
                        raise EngineError("return value %s does not fit declared result %s" % (res.s, t.result))
                    res = c
                ctx = Ctx(self, o.st, old=self.entry_state, result=res)
                line = self.func.end_lineno
                self.emit_group("ensures", line, o.st, [(name, fn(ctx)) for name, fn in _clauses(t.ensures)])
                if "exit" not in covered:
                    covered.add("exit")
                    self.emit_cover("cover.exit", line, o.st)
                if t.canary is not None:
                    self.emit("canary", line, o.st, t.canary(ctx))
                self.frame_check(o.st, line)
            else:
                n_raise += 1
                cls = o.val.t
                line = (o.val.x or {}).get("line", 0)
                ctx = Ctx(self, o.st, old=self.entry_state, exc=o.val)
                if t.raises is None:
                    continue
                key = self.pick_clause(cls, t.raises, implicit=bool((o.val.x or {}).get("implicit")))
                if key is None:
                    self.emit("no-raise", line, o.st, S.FALSE, tag=cls.rstrip("*"),
                              info="an exception of class %s escapes (%s)" % (cls, (o.val.x or {}).get("note")))
                else:
                    post = t.raises[key]
                    info_ = "exception %s from L%d (%s)" % (cls, line, (o.val.x or {}).get("note"))
                    if isinstance(post, dict):
                        # named clauses: one obligation per clause (so that a known finding on one clause cannot mask another)
                        for nm, fn in post.items():
                            self.emit("raises", line, o.st, fn(ctx), tag="%s.%s" % (key, nm), info=info_)
                    elif post is not None and post is not True:
                        self.emit("raises", line, o.st, post(ctx), tag=key, info=info_)
                    if ("r", key) not in covered:
                        covered.add(("r", key))
                        self.emit_cover("cover.raises", line, o.st, tag=key)
                    if t.raise_canary is not None and key in t.raise_canary:
                        self.emit("canary", line, o.st, t.raise_canary[key](ctx), tag=key)
        self.n_normal, self.n_raise = n_normal, n_raise
        for ordn, (ok, dropped) in self.loop_heads.items():
            if ok == 0 and dropped > 0:
                raise EngineError("loop %d: the invariant is unsatisfiable at every loop head (contradictory invariant?)" % ordn)
        return self.obls

    def pick_clause(self, cls, raises, implicit=False):
        base = cls.rstrip("*")
        best = None
        for k in raises:
            if implicit and k in ("Exception", "BaseException"):
                continue
            if self.hier.is_sub(base, k):
                if best is None or self.hier.is_sub(k, best):
                    best = k
        return best

    def emit_cover(self, kind, node, st, tag=None):
        # a cover obligation is expected to be SAT: goal False under pc must be refutable
        self.emit(kind, node, st, S.FALSE, tag=tag)

    def frame_check(self, st, line):
        t = self.target
        if t.modifies is None:
            return
        allowed = set(t.modifies)
        old = self.entry_state
        parts = []
        me = st.env.get("self")
        if me is not None and isinstance(me.s, Obj):
            self._frame_obj(st, old, me, "self", allowed, parts)
        for g, v in st.ghost.items():
            if "g." + g in allowed or g == "yielded":
                continue
            parts.append(("g." + g, S.eq(v, old.ghost[g])))
        self.emit_group("frame", line, st, parts)

    def _frame_obj(self, st, old, ref, prefix, allowed, parts, depth=0):
        decl = self.class_decl(ref.s.cls)
        if not decl or depth > 3:
            return
        for f, so in decl.fields.items():
            name = "%s.%s" % (prefix, f)
            if name in allowed or prefix + ".*" in allowed:
                continue
            a, b = self.read_field(st, ref, f), self.read_field(old, ref, f)
            if isinstance(so, Obj):
                if a.t != b.t:
                    parts.append((name, S.FALSE))
                else:
                    self._frame_obj(st, old, a, name, allowed, parts, depth + 1)
            else:
                parts.append((name, S.eq(a, b)))

    def find_block(self, body, block):
        """Statement range [first..last] of the function body located by line-pattern anchors."""
        import re
        if isinstance(block, dict):
            # innermost statement of the given type whose source contains the pattern
            best = None
            for n in self._walk_body(self.func):
                if isinstance(n, ast.stmt) and type(n).__name__ == block["stmt"]:
                    seg = "\n".join(self.lines[n.lineno - 1:n.end_lineno])
                    if re.search(block["contains"], seg) and (best is None or (n.end_lineno - n.lineno) < (best.end_lineno - best.lineno)):
                        best = n
            if best is None:
                raise SpecDrift("no %s statement containing %r in %s" % (block["stmt"], block["contains"], self.target.qualname))
            return [best]
        first_re, last_re = block
        stmts = list(self._walk_body(self.func))
        first = None
        for n in stmts:
            if isinstance(n, ast.stmt) and re.search(first_re, self.srcline(n)):
                first = n
                break
        if first is None:
            raise SpecDrift("block anchor %r not found in %s" % (first_re, self.target.qualname))
        # the block is a run of sibling statements: find the list containing `first`
        for parent in [self.func] + [n for n in stmts]:
            for fld in ("body", "orelse", "finalbody"):
                lst = getattr(parent, fld, None)
                if isinstance(lst, list) and first in lst:
                    i = lst.index(first)
                    if last_re is None:
                        return lst[i:i + 1]
                    for j in range(i, len(lst)):
                        seg = "\n".join(self.lines[lst[j].lineno - 1:lst[j].end_lineno])
                        if re.search(last_re, seg):
                            return lst[i:j + 1]
                    raise SpecDrift("block end anchor %r not found after %r" % (last_re, first_re))
        raise SpecDrift("block anchor %r is not a statement in a body" % first_re)


def _clauses(e):
    if e is None:
        return []
    if isinstance(e, dict):
        return list(e.items())
    return [("post", e)]
