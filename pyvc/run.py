"""Check driver: ./check Cxx --tier quick|thorough"""
import argparse
import glob
import json
import os
import re
import subprocess
import sys
import time
import traceback

import z3

from . import sorts as S
from .spec import load_spec
from .state import EngineError, SpecDrift, State
from .verify import Engine
from . import solve as SV
from . import mutate as MU

ROOT = os.path.dirname(os.path.dirname(os.path.abspath(__file__)))
REPO = os.environ.get("PYVC_REPO", "/repo")
VENV_PY = "/venv/bin/python"

EXIT_OK, EXIT_VIOLATION, EXIT_UNDECIDED, EXIT_FAULT = 0, 1, 2, 3


def spec_path(prop):
    c = sorted(glob.glob(os.path.join(ROOT, "specs", prop + "_*.py")))
    if not c:
        raise SystemExit("no spec for %s" % prop)
    return c[0]


def known_findings(prop):
    p = os.path.join(ROOT, "known_findings.json")
    if not os.path.exists(p):
        return []
    data = json.load(open(p))
    return [k for k in data.get("known", []) if k["property"] == prop]


def run_targets(spec, mutate_for=None):
    """-> (obligations, engines). mutate_for: (target_ref, mutator) to verify a mutant."""
    obls, engines = [], []
    for t in spec.targets:
        mut = mutate_for[1] if mutate_for and mutate_for[0] == t.ref else None
        if mutate_for and mut is None:
            continue
        e = Engine(spec, t, mutate=mut)
        e.run()
        obls.extend(e.obls)
        engines.append(e)
    return obls, engines


def lemma_obligations(spec):
    """Induction schema for seq lemmas; closed lemmas as single queries."""
    from .engine import Obl
    from .sorts import V, Seq
    out = []
    if spec.seq_lemmas or spec.lemmas:
        t0 = spec.targets[0] if spec.targets else None
    saved = list(spec.seq_lemmas)
    for l in saved:
        spec.seq_lemmas = []      # no circular use of the lemma being proved (nor of later ones)
        try:
            helper = _LemmaHelper(spec)
            so = l.sort
            # base
            st = State()
            e = V(so, z3.Empty(so.z3()))
            helper.note_concat(st, e, [])
            out.append(Obl("lemma::%s.%s::base" % (spec.prop, l.name), "lemma", 0, list(st.pc), S.lift(l.stmt(e)).t, "lemma"))
            # step
            st = State()
            s = so.fresh("s")
            x = so.elem.fresh("x")
            helper.track(st, s)
            st.assume(S.lift(l.stmt(s)))
            s2 = so.fresh("s2")
            helper.note_concat(st, s2, [("unit", x), ("seq", s)])
            out.append(Obl("lemma::%s.%s::step" % (spec.prop, l.name), "lemma", 0, list(st.pc), S.lift(l.stmt(s2)).t, "lemma"))
        finally:
            spec.seq_lemmas = saved
    for l in spec.lemmas:
        consts = [so.fresh(n) for n, so in l.consts]
        st = State()
        helper = _LemmaHelper(spec)
        for c in consts:
            helper.track(st, c)
        for h in l.hyps(*consts) if l.hyps else []:
            st.assume(S.lift(h))
        out.append(Obl("lemma::%s.%s" % (spec.prop, l.name), "lemma", 0, list(st.pc), S.lift(l.goal(*consts)).t, "lemma"))
    return out


class _LemmaHelper:
    """The fold bookkeeping of the engine without a target."""

    def __init__(self, spec):
        self.spec = spec

    def folds_for(self, sort):
        return [f for f in self.spec.folds if f.sort == sort]

    track = Engine.track
    track_deep = Engine.track_deep
    note_concat = Engine.note_concat

    def fresh(self, sort, base, st=None):
        return sort.fresh(base)


def classify(obls, results):
    proof, canaries, covers = [], [], []
    for o, r in zip(obls, results):
        if o.kind == "canary":
            canaries.append((o, r))
        elif o.kind.startswith("cover."):
            covers.append((o, r))
        else:
            proof.append((o, r))
    return proof, canaries, covers


def replay(prop, obl, model, tier):
    """Run /verif/replay/<prop>.py under the repository interpreter. -> dict"""
    script = os.path.join(ROOT, "replay", prop + ".py")
    if not os.path.exists(script):
        return {"reproduced": False, "detail": "no replay driver for this property"}
    req = {"obligation": obl.name, "kind": obl.kind, "line": obl.line, "info": obl.info, "model": model, "tier": tier,
           "known": [k.get("witness_class") for k in known_findings(prop) if k.get("witness_class")]}
    env = dict(os.environ, PYTHONPATH=REPO, BRZ_HOME="/tmp", BRZ_EMAIL="verif <verif@example.com>")
    try:
        p = subprocess.run([VENV_PY, script], input=json.dumps(req), capture_output=True, text=True, timeout=300, env=env, cwd=ROOT)
        lines = [l for l in p.stdout.splitlines() if l.startswith("{")]
        if lines:
            return json.loads(lines[-1])
        return {"reproduced": False, "detail": "replay driver gave no verdict", "stdout": p.stdout[-2000:], "stderr": p.stderr[-2000:]}
    except Exception as ex:  # noqa
        return {"reproduced": False, "detail": "replay driver failed: %r" % ex}


def native_checks(spec, prop, tier, seed):
    """Bounded stand-ins and native confirmations declared by the spec: run under the repository interpreter."""
    script = os.path.join(ROOT, "bounded", prop + ".py")
    if not os.path.exists(script):
        return None
    env = dict(os.environ, PYTHONPATH=REPO, VERIF_TIER=tier, VERIF_SEED=str(seed), BRZ_HOME="/tmp",
               BRZ_EMAIL="verif <verif@example.com>")
    p = subprocess.run([VENV_PY, script], capture_output=True, text=True, timeout=3500, env=env, cwd=ROOT)
    lines = [l for l in p.stdout.splitlines() if l.startswith("{")]
    if not lines:
        return {"error": "bounded driver gave no result", "stdout": p.stdout[-2000:], "stderr": p.stderr[-3000:], "rc": p.returncode}
    return json.loads(lines[-1])


def explain(o):
    print("==== " + o.name, "|", o.info or "")
    print("  path:", " -> ".join("%s@%d" % t for t in o.trace))
    s = z3.Solver()
    s.set("timeout", 20000)
    for p in o.pc:
        s.add(p)
    s.add(z3.Not(o.goal))
    if s.check() != z3.sat:
        print("  (no model in process)")
        return
    m = s.model()

    def conj(t, depth=0):
        if z3.is_and(t) and depth < 4:
            for ch in t.children():
                conj(ch, depth + 1)
            return
        v = m.eval(t, model_completion=True)
        if not z3.is_true(v):
            txt = str(t).replace("\n", " ")
            print("  FAILS:", txt[:1500])
            subs = {}
            for sub in _subterms(t):
                if sub.sort().kind() in (z3.Z3_INT_SORT, z3.Z3_BOOL_SORT) and sub.num_args() > 0 and len(str(sub)) < 80:
                    subs[str(sub).replace("\n", " ")] = m.eval(sub, model_completion=True)
            for k, vv in list(subs.items())[:40]:
                print("       ", k, "=", vv)
    conj(o.goal)
    for d in m.decls():
        if d.arity() == 0 and "!" in d.name() and not d.name().startswith(("pre!", "post!", "q!")):
            val = str(m[d]).replace("\n", " ")
            if len(val) < 200:
                print("   ", d.name(), "=", val)


def _subterms(t, seen=None):
    seen = seen if seen is not None else set()
    if t.get_id() in seen:
        return
    seen.add(t.get_id())
    yield t
    if z3.is_app(t):
        for ch in t.children():
            yield from _subterms(ch, seen)


def main(argv=None):
    ap = argparse.ArgumentParser()
    ap.add_argument("prop")
    ap.add_argument("--tier", default=os.environ.get("VERIF_TIER", "quick"))
    ap.add_argument("--replay")
    ap.add_argument("--no-mutants", action="store_true")
    ap.add_argument("--verbose", "-v", action="store_true")
    ap.add_argument("--explain", help="for failed obligations matching this regex, show which conjunct fails")
    ap.add_argument("--only", help="solve only the obligations whose name matches this regex (debugging)")
    ap.add_argument("--dump", help="write SMT-LIB of obligations matching this regex to stdout")
    a = ap.parse_args(argv)
    prop, tier = a.prop, a.tier
    seed = int(os.environ.get("VERIF_SEED", "0"))
    t_start = time.time()
    if a.replay:
        data = json.load(open(a.replay))
        print(json.dumps(data, indent=1)[:4000])
        cmd = data.get("replay_cmd")
        if cmd:
            return subprocess.call(cmd, shell=True, cwd=ROOT)
        return 0
    budget = 10 if tier == "quick" else 60
    # seed trials (tools/try_seed.sh) run the check on a deliberately broken tree: their records must not
    # replace the evidence of the unchanged tree, so they redirect it with PYVC_EVIDENCE_DIR
    ev_path = os.path.join(os.environ.get("PYVC_EVIDENCE_DIR") or os.path.join(ROOT, "evidence"), prop + ".json")
    os.makedirs(os.path.dirname(ev_path), exist_ok=True)

    def undecided(msg, code=EXIT_UNDECIDED):
        print("UNDECIDED property=%s %s" % (prop, msg))
        # The contracts no longer fit the code (refactoring, unsupported construct): no proof either way.
        # The bounded search of the replay driver still runs the real functions against the property's
        # postconditions; only a natively reproduced failure is reported as a violation.
        class _O:
            name, kind, line, info = "%s::contract-after-drift" % prop, "drift", 0, msg
        rp = replay(prop, _O, None, tier)
        if rp.get("reproduced") and not any(re.search(k["obligation"], _O.name) for k in known_findings(prop)):
            os.makedirs(os.path.join(ROOT, "replays", prop), exist_ok=True)
            fn = os.path.join(ROOT, "replays", prop, "contract-after-drift.json")
            json.dump({"property": prop, "obligation": _O.name, "undecided_reason": msg, "replay": rp,
                       "note": "contracts could not be applied to the changed code; failing input found by the bounded search on the real code",
                       "replay_cmd": "./check %s --tier %s" % (prop, tier)}, open(fn, "w"), indent=1, default=str)
            ev = {"property_id": prop, "tier": tier, "seed": seed, "level": "other",
                  "coverage": {"explanation": "spec drift (%s); bounded replay search found a failing input" % msg},
                  "wall_s": time.time() - t_start, "violations": 1}
            json.dump(ev, open(ev_path, "w"), indent=1)
            print("failed obligation: %s" % _O.name)
            print("VIOLATION property=%s replay=%s" % (prop, fn))
            return EXIT_VIOLATION
        ev = {"property_id": prop, "tier": tier, "seed": seed, "level": "other",
              "coverage": {"explanation": "check undecided: " + msg}, "wall_s": time.time() - t_start, "violations": 0}
        json.dump(ev, open(ev_path, "w"), indent=1)
        return code
    try:
        spec = load_spec(spec_path(prop), prop)
    except (EngineError, SpecDrift) as ex:
        return undecided("spec error: %s" % ex)
    budget = spec.ns.get("BUDGET_QUICK", budget) if tier == "quick" else spec.ns.get("BUDGET_THOROUGH", budget)
    SV.RACE = bool(spec.ns.get("SOLVER_RACE", False))
    try:
        for fn in spec.extra_checks:
            fn(REPO)            # structural censuses (may raise SpecDrift)
        obls, engines = run_targets(spec)
        obls += lemma_obligations(spec)
    except SpecDrift as ex:
        return undecided("spec drift: %s" % ex)
    except EngineError as ex:
        return undecided("engine: %s" % ex)
    except (TypeError, AttributeError, z3.Z3Exception) as ex:
        if os.environ.get("PYVC_DEBUG"):
            raise
        return undecided("spec drift: a contract no longer fits the values the code produces (%s)" % ex)
    if a.dump:
        for o in obls:
            if re.search(a.dump, o.name):
                print("; ---- " + o.name)
                print(SV.to_smt2(o.pc, o.goal))
        return 0
    if a.only:
        obls = [o for o in obls if re.search(a.only, o.name)]
    results = SV.solve_all(obls, budget, cross=(tier == "thorough"))
    # grouped obligations (conjunction of a path's postconditions / frame conditions) that did not discharge
    # are split into their named parts, so that the report names the clause
    from .engine import Obl
    n_groups = len([o for o in obls if o.parts])
    extra_o = []
    keep_o, keep_r = [], []
    for o, r in zip(obls, results):
        if o.parts and r["result"] != "unsat":
            for nm, g in o.parts:
                extra_o.append(Obl(nm, o.kind, o.line, o.pc, g, o.target, o.info, o.trace))
        else:
            keep_o.append(o)
            keep_r.append(r)
    if extra_o:
        extra_r = SV.solve_all(extra_o, budget, cross=(tier == "thorough"))
        obls, results = keep_o + extra_o, keep_r + extra_r
    proof, canaries, covers = classify(obls, results)
    solver_s = sum(r["seconds"] for r in results)
    by_backend = {}
    for o, r in proof:
        if r["result"] == "unsat":
            by_backend[r["backend"]] = by_backend.get(r["backend"], 0) + 1
    failed = [(o, r) for o, r in proof if r["result"] == "sat"]
    if a.explain:
        for o, r in failed:
            if re.search(a.explain, o.name):
                explain(o)
        return 0
    unknown = [(o, r) for o, r in proof if r["result"] not in ("sat", "unsat")]
    faults = []
    bounded_only = (getattr(spec, "level", None) or spec.ns.get("LEVEL", "proof")) == "exploration" and not spec.targets
    if not proof and not bounded_only:
        faults.append("zero obligations generated")
    for e in engines:
        if not [o for o in e.obls if o.kind not in ("canary",) and not o.kind.startswith("cover.")]:
            faults.append("target %s generated zero obligations" % e.target.ref)
    # covers must be satisfiable, canaries must be refuted (at least one per target)
    cov_ok = 0
    for o, r in covers:
        if r["result"] == "unsat":
            faults.append("vacuity: %s is unreachable (contradictory assumptions?)" % o.name)
        elif r["result"] == "sat":
            cov_ok += 1
    can_by_target = {}
    for o, r in canaries:
        d = can_by_target.setdefault(o.target + ("|" + o.name.split("::")[2].split("@")[0]), [])
        d.append(r["result"])
    can_ok = 0
    for k, rs in can_by_target.items():
        if "sat" in rs:
            can_ok += 1
        elif all(x == "unsat" for x in rs):
            faults.append("canary proved (the verifier accepts a false postcondition): %s" % k)
    if tier == "thorough":
        for o, r in zip(obls, results):
            c = r.get("cross")
            if c in ("sat", "unsat") and c != r["result"]:
                faults.append("solver disagreement on %s: %s vs %s" % (o.name, r["result"], c))
    # mutants
    mut_report = None
    known_now = known_findings(prop)
    failed_unknown_to_us = [o for o, r in failed if not any(re.search(k["obligation"], o.name) for k in known_now)]
    if not a.no_mutants and not failed_unknown_to_us and not unknown and not faults:
        try:
            mut_report = MU.run_mutants(spec, engines, tier, budget, seed)
        except (EngineError, SpecDrift) as ex:
            faults.append("mutant run failed: %s" % ex)
        if mut_report:
            for s_ in mut_report["survivors"]:
                if not s_.get("declared_equivalent"):
                    print("note: surviving mutant %s" % s_["id"])
    # native / bounded parts
    native = native_checks(spec, prop, tier, seed)
    native_viol = []
    if bounded_only and (native is None or not native.get("evaluations")):
        faults.append("bounded stand-in evaluated nothing")
    if native is not None:
        if native.get("error"):
            faults.append("bounded driver: " + native["error"] + " " + native.get("stderr", "")[-500:])
        native_viol = native.get("violations", [])

    known = known_findings(prop)
    violations, known_hits = [], []

    def is_known(name, witness_text):
        for k in known:
            if re.search(k["obligation"], name) and (not k.get("witness_re") or re.search(k["witness_re"], witness_text or "")):
                return k
        return None
    os.makedirs(os.path.join(ROOT, "replays", prop), exist_ok=True)
    for o, r in failed:
        k = is_known(o.name, o.info or "")
        if k:
            known_hits.append((k, o.name))
            continue
        model = SV.model_for(o)
        rp = replay(prop, o, model, tier)
        if rp.get("crashed") or "no verdict" in str(rp.get("detail")) or "driver failed" in str(rp.get("detail")):
            print("note: replay driver did not complete for %s: %s" % (o.name, str(rp.get("detail"))[:200]))
        fn = os.path.join(ROOT, "replays", prop, re.sub(r"[^A-Za-z0-9_.@#\[\]-]+", "_", o.name)[-150:] + ".json")
        rec = {"property": prop, "obligation": o.name, "kind": o.kind, "line": o.line, "info": o.info,
               "solver": {"result": r["result"], "backend": r["backend"], "seconds": r["seconds"]},
               "model": model, "replay": rp, "smt2": r["smt2"][:20000],
               "replay_cmd": "./check %s --tier %s" % (prop, tier)}
        if r.get("candidate"):
            # only a CANDIDATE (a model of the hypotheses with the quantified ones dropped): the solvers did not decide this obligation.
            # Undecided, never a violation by itself. If the replay scenarios fail natively, that is reported below as what it is
            # (Cxx::native-scenarios, with the failing input), not under this obligation's name.
            unknown.append((o, dict(r, result="unknown", detail="candidate refutation only (quantified hypotheses dropped)%s; with them: %s"
                                    % ("" if not rp.get("reproduced") else "; the replay scenarios fail natively (reported separately)",
                                       str(r.get("detail"))))))
            continue
        json.dump(rec, open(fn, "w"), indent=1, default=str)
        violations.append((o.name, fn, bool(rp.get("reproduced"))))
    if unknown and not violations:
        # an obligation the solvers leave open is not a verdict; a bounded search on the real code may still
        # produce a failing input (DESIGN 5.4). Only a natively reproduced failure is reported.
        o, r = unknown[0]
        if not is_known(o.name, o.info or ""):
            rp = replay(prop, o, None, tier)
            if rp.get("reproduced"):
                fn = os.path.join(ROOT, "replays", prop, re.sub(r"[^A-Za-z0-9_.@#\[\]-]+", "_", o.name)[-150:] + ".json")
                rec = {"property": prop, "obligation": o.name, "kind": o.kind, "line": o.line, "info": o.info,
                       "solver": {"result": r["result"], "detail": r.get("detail")}, "model": None, "replay": rp,
                       "note": "the solvers left this obligation undecided; the failing input was found by the bounded search of the replay driver",
                       "smt2": r["smt2"][:20000], "replay_cmd": "./check %s --tier %s" % (prop, tier)}
                json.dump(rec, open(fn, "w"), indent=1, default=str)
                violations.append((o.name, fn, True))
    # the replay driver's own scenarios run on EVERY run (not only after a failed obligation): they exercise the real functions
    # against the same laws, so a failing scenario is a failing input on the real code (a bounded, native part: never counted as proof)
    scen = None
    if not violations and os.path.exists(os.path.join(ROOT, "replay", prop + ".py")):
        class _O:
            name, kind, line, info = "%s::native-scenarios" % prop, "native", 0, ""
        rp = replay(prop, _O, None, tier)
        scen = {"detail": str(rp.get("detail"))[:300], "reproduced": bool(rp.get("reproduced")), "crashed": bool(rp.get("crashed"))}
        for wc_ in rp.get("known_seen") or []:
            for k in known:
                if k.get("witness_class") == wc_ and not any(k is kh for kh, _ in known_hits):
                    known_hits.append((k, _O.name))
        if rp.get("crashed") or "no verdict" in str(rp.get("detail")) or "driver failed" in str(rp.get("detail")):
            print("note: replay driver did not complete its scenarios: %s" % str(rp.get("detail"))[:200])
        elif rp.get("reproduced"):
            fn = os.path.join(ROOT, "replays", prop, "native-scenarios.json")
            json.dump({"property": prop, "obligation": _O.name, "kind": "native", "replay": rp,
                       "note": "no proof obligation failed; the failing input was found by the scenarios of the replay driver on the real code",
                       "replay_cmd": "./check %s --tier %s" % (prop, tier)}, open(fn, "w"), indent=1, default=str)
            violations.append((_O.name + ": " + str(rp.get("detail"))[:120], fn, True))
    for nv in native_viol:
        k = is_known(nv["name"], nv.get("witness", ""))
        if k:
            known_hits.append((k, nv["name"]))
            continue
        fn = os.path.join(ROOT, "replays", prop, re.sub(r"[^A-Za-z0-9_.@#\[\]-]+", "_", nv["name"])[-150:] + ".json")
        json.dump(dict(nv, property=prop, replay_cmd="./check %s --tier %s" % (prop, tier)), open(fn, "w"), indent=1, default=str)
        violations.append((nv["name"], fn, True))

    # ---- evidence
    targets = []
    for e in engines:
        a_, b_, h = e.segment()
        targets.append({"path": e.target.path, "qualname": e.target.qualname, "lines": [a_, b_], "sha256": h,
                        "paths_normal": e.n_normal, "paths_raise": e.n_raise,
                        "obligations": len([o for o in e.obls if o.kind != "canary" and not o.kind.startswith("cover.")])})
    trusted = []
    seen = set()
    for e in engines:
        for lbl, c in e.used_contracts.items():
            if c.kind == "assumed" and lbl not in seen:
                seen.add(lbl)
                trusted.append("assumed contract: %s%s" % (lbl, (" -- " + c.note) if c.note else ""))
    opaque = sorted(set(k for e in engines for k in e.opaque_calls))
    if opaque:
        trusted.append("calls without a contract (fresh result, may raise, havoc self/mutable args, assumed not to touch ghost state): " + ", ".join(opaque)[:1500])
    trusted.append("fold axioms Sum/All over concatenation (definitional), z3/cvc5 soundness, pyvc encoding of Python (DESIGN 2.8)")
    trusted += ["assumption: " + x for x in spec.assumptions]
    # obligations that fail because of a recorded known finding are reported separately, not counted as discharged
    # (known_hits also holds hits of the native/bounded driver, which are not proof obligations)
    failed_names = set(o.name for o, r in failed)
    n_ob = len(proof) - len(set(n for k, n in known_hits if n in failed_names))
    n_dis = len([1 for o, r in proof if r["result"] == "unsat"])
    samples = []
    for o, r in proof[:3]:
        samples.append({"obligation": o.name, "result": r["result"], "backend": r["backend"], "smt2_head": r["smt2"][:1200]})
    level = getattr(spec, "level", None) or spec.ns.get("LEVEL", "proof")
    cov = {"obligations": n_ob, "discharged": n_dis, "checker_cmd": "./check %s --tier %s" % (prop, tier),
           "trusted_base": trusted, "targets": targets, "by_backend": by_backend, "solver_s": round(solver_s, 2),
           "covers": {"checked": len(covers), "reachable": cov_ok},
           "canaries": {"targets_with_canary": len(can_by_target), "refuted": can_ok},
           "mutants": mut_report and {k: v for k, v in mut_report.items() if k != "details"},
           "undecided_conjuncts": spec.undecided, "samples": samples,
           "known_findings_hit": [{"finding": k["id"], "obligation": n} for k, n in known_hits],
           "unknown_obligations": [o.name for o, r in unknown],
           "engine_notes": sorted(set(n for e in engines for n in e.notes))[:40]}
    if scen is not None:
        cov["native_scenarios"] = scen
    if native is not None:
        cov["bounded"] = {k: v for k, v in native.items() if k not in ("violations",)}
        cov["evaluations"] = native.get("evaluations", 0)
        cov["distinct_nontrivial"] = native.get("distinct_nontrivial", 0)
        cov["rule"] = native.get("rule", "")
        if native.get("samples"):
            cov["samples"] = cov["samples"] + native["samples"][:5]
        if "exhaustive" in native:
            cov["exhaustive"] = native["exhaustive"]
    ev = {"property_id": prop, "tier": tier, "seed": seed, "level": level, "coverage": cov,
          "assumptions": ["integers are mathematical (exact for Python)", "no aliasing of mutated lists",
                          "well-behaved __eq__/__hash__", "logging calls have no effect and do not raise"] + spec.assumptions,
          "wall_s": round(time.time() - t_start, 2), "violations": len(violations)}
    json.dump(ev, open(ev_path, "w"), indent=1, default=str)

    # ---- verdict
    print("%s: %d obligations, %d discharged (%s), %d failed, %d unknown, covers %d/%d, canaries %d/%d, %.1fs"
          % (prop, n_ob, n_dis, ", ".join("%s=%d" % kv for kv in sorted(by_backend.items())), len(failed), len(unknown),
             cov_ok, len(covers), can_ok, len(can_by_target), time.time() - t_start))
    if mut_report:
        print("mutants: %d generated, %d killed, %d declared equivalent, %d survived"
              % (mut_report["generated"], mut_report["killed"], mut_report["declared_equivalent"], mut_report["survived"]))
    if a.verbose:
        for o, r in proof:
            print("  %-7s %-8s %5.2fs %s" % (r["result"], r["backend"], r["seconds"], o.name))
    seen_k = set()
    for k, n in known_hits:
        if k["id"] not in seen_k:      # one line per listed finding, however many obligations (paths) exhibit it
            print("KNOWN-FINDING: property=%s %s [%s]" % (prop, k["what"], k["id"]))
        seen_k.add(k["id"])
    if faults and not violations:
        for f in faults:
            print("ENGINE-FAULT: %s" % f)
        return EXIT_FAULT
    for f in faults:
        print("note (secondary to the violations below): %s" % f)
    if violations:
        for name, fn, rep in violations:
            print("failed obligation: %s" % name)
            print("VIOLATION property=%s replay=%s%s" % (prop, fn, "" if rep else " no-failing-input-found"))
        return EXIT_VIOLATION
    if unknown:
        for o, r in unknown:
            print("UNDECIDED obligation: %s (%s)" % (o.name, r.get("detail")))
        return EXIT_UNDECIDED
    return EXIT_OK


if __name__ == "__main__":
    try:
        sys.exit(main())
    except (EngineError, SpecDrift) as ex:
        print("UNDECIDED: %s" % ex)
        sys.exit(EXIT_UNDECIDED)
    except Exception:
        traceback.print_exc()
        sys.exit(EXIT_FAULT)
