"""In-memory mutants of the real source (DESIGN section 4.4).

Each mutant is a small edit of the target's AST; the whole target is verified
again and the mutant counts as killed when some proof obligation is no longer
discharged. Survivors must be declared equivalent in the spec, with a reason.
"""
import ast
import z3
import multiprocessing as mp
import os

from .state import EngineError, SpecDrift

_FLIP = {ast.Lt: ast.LtE, ast.LtE: ast.Lt, ast.Gt: ast.GtE, ast.GtE: ast.Gt, ast.Eq: ast.NotEq, ast.NotEq: ast.Eq,
         ast.Is: ast.IsNot, ast.IsNot: ast.Is, ast.In: ast.NotIn, ast.NotIn: ast.In}


def _walk(fn, lo=None, hi=None):
    stack = list(reversed(fn.body))
    while stack:
        n = stack.pop()
        if isinstance(n, (ast.FunctionDef, ast.AsyncFunctionDef, ast.Lambda, ast.ClassDef)):
            continue
        if lo is None or (hasattr(n, "lineno") and lo <= n.lineno <= hi) or not hasattr(n, "lineno"):
            yield n
        stack.extend(reversed(list(ast.iter_child_nodes(n))))


def sites(fn, lo=None, hi=None):
    """Deterministic list of (id, apply(fn_node))."""
    out = []
    for n in _walk(fn, lo, hi):
        if isinstance(n, ast.Compare):
            for i, op in enumerate(n.ops):
                if type(op) in _FLIP:
                    out.append(("cmp%d:%s@L%d:%d" % (i, type(op).__name__, n.lineno, n.col_offset), ("cmp", n.lineno, n.col_offset, i)))
        elif isinstance(n, ast.Constant) and isinstance(n.value, int) and not isinstance(n.value, bool) and abs(n.value) < 1000:
            out.append(("int%d@L%d:%d" % (n.value, n.lineno, n.col_offset), ("int", n.lineno, n.col_offset)))
        elif isinstance(n, ast.BoolOp):
            out.append(("boolop@L%d:%d" % (n.lineno, n.col_offset), ("boolop", n.lineno, n.col_offset)))
        elif isinstance(n, (ast.If, ast.While)):
            out.append(("negate@L%d:%d" % (n.lineno, n.col_offset), ("negate", n.lineno, n.col_offset)))
        elif isinstance(n, ast.AugAssign) and isinstance(n.op, (ast.Add, ast.Sub)):
            out.append(("augop@L%d:%d" % (n.lineno, n.col_offset), ("augop", n.lineno, n.col_offset)))
        if isinstance(n, ast.stmt) and isinstance(n, (ast.Expr, ast.Assign, ast.AugAssign, ast.Raise, ast.Delete)):
            if isinstance(n, ast.Expr) and isinstance(n.value, ast.Constant):
                continue
            out.append(("drop:%s@L%d:%d" % (type(n).__name__, n.lineno, n.col_offset), ("drop", n.lineno, n.col_offset)))
        if isinstance(n, ast.Return) and n.value is not None and not (isinstance(n.value, ast.Constant) and n.value.value is None):
            out.append(("retnone@L%d:%d" % (n.lineno, n.col_offset), ("retnone", n.lineno, n.col_offset)))
    return out


def make_mutator(desc):
    kind, line, col = desc[0], desc[1], desc[2]

    def apply(fn):
        for parent in ast.walk(fn):
            for fld, val in ast.iter_fields(parent):
                items = val if isinstance(val, list) else [val]
                for idx, n in enumerate(items):
                    if not isinstance(n, ast.AST) or getattr(n, "lineno", None) != line or getattr(n, "col_offset", None) != col:
                        continue
                    if kind == "cmp" and isinstance(n, ast.Compare):
                        n.ops[desc[3]] = _FLIP[type(n.ops[desc[3]])]()
                        return True
                    if kind == "int" and isinstance(n, ast.Constant) and isinstance(n.value, int):
                        n.value = 0 if n.value == 1 else n.value + 1
                        return True
                    if kind == "boolop" and isinstance(n, ast.BoolOp):
                        n.op = ast.Or() if isinstance(n.op, ast.And) else ast.And()
                        return True
                    if kind == "negate" and isinstance(n, (ast.If, ast.While)):
                        n.test = ast.copy_location(ast.UnaryOp(op=ast.Not(), operand=n.test), n.test)
                        return True
                    if kind == "augop" and isinstance(n, ast.AugAssign):
                        n.op = ast.Sub() if isinstance(n.op, ast.Add) else ast.Add()
                        return True
                    if kind == "drop" and isinstance(n, ast.stmt) and isinstance(val, list):
                        val[idx] = ast.copy_location(ast.Pass(), n)
                        return True
                    if kind == "retnone" and isinstance(n, ast.Return):
                        n.value = ast.copy_location(ast.Constant(value=None), n)
                        return True
        raise EngineError("mutation site not found: %r" % (desc,))
    return apply


def _one(args):
    spec_path, prop, target_ref, mid, desc, budget = args
    import os as _os
    if _os.environ.get("PYVC_TEST_ABORT") and _os.environ["PYVC_TEST_ABORT"] in mid:
        _os.abort()          # self-test of the runner: a worker that dies must not hang the run
    if _os.environ.get("PYVC_TEST_HANG") and _os.environ["PYVC_TEST_HANG"] in mid:
        import time as _t
        _t.sleep(10 ** 6)
    from .spec import load_spec
    from .verify import Engine
    from . import solve as SV
    try:
        spec = load_spec(spec_path, prop)
        SV.RACE = bool(spec.ns.get("SOLVER_RACE", False))
        if spec.ns.get("BUDGET_MUTANTS"):
            budget = spec.ns["BUDGET_MUTANTS"]
        t = spec.targets[target_ref] if isinstance(target_ref, int) else [x for x in spec.targets if x.ref == target_ref][0]
        target_ref = t.ref
        e = Engine(spec, t, mutate=make_mutator(desc))
        e.run()
        obls = [o for o in e.obls if o.kind != "canary" and not o.kind.startswith("cover.")]
        obls.sort(key=lambda o: (o.kind == "frame", o.kind.startswith("call.pre")))
        bad = []
        undecided_ = []
        for i in range(0, len(obls), 6):
            chunk = obls[i:i + 6]
            results = SV.solve_all(chunk, budget, jobs=3)
            bad = [(o.name if not o.parts else o.name + " (one of its clauses)", r["result"]) for o, r in zip(chunk, results) if r["result"] != "unsat"]
            if [b for b in bad if b[1] == "sat"]:
                bad = [b for b in bad if b[1] == "sat"]
                break
            if bad:
                undecided_ = bad
                bad = []
        if bad:
            return {"id": mid, "target": target_ref, "status": "killed", "by": bad[0][0], "how": bad[0][1]}
        if undecided_:
            # no obligation refuted, some left open by the solvers: the mutant is not proved either way
            return {"id": mid, "target": target_ref, "status": "killed", "by": undecided_[0][0], "how": "undecided"}
        return {"id": mid, "target": target_ref, "status": "survived"}
    except (EngineError, SpecDrift, TypeError, AttributeError, z3.Z3Exception) as ex:
        # TypeError/AttributeError: a spec lambda no longer fits the values the mutated code produces
        return {"id": mid, "target": target_ref, "status": "killed", "by": "engine: %s" % str(ex)[:200], "how": "undecided"}
    except Exception as ex:  # noqa
        return {"id": mid, "target": target_ref, "status": "error", "by": repr(ex)[:300]}


def _crashed(job, why):
    """A worker died (native abort inside the solver library on an ill-formed term of the MUTATED program) or ran out of time: the
    mutant is not a survivor and not a refutation - counted like a spec that no longer fits the mutated code (how: undecided)."""
    return {"id": job[3], "target": _target_ref(job), "status": "killed", "by": "engine: " + why, "how": "undecided"}


def _target_ref(job):
    from .spec import load_spec
    try:
        return load_spec(job[0], job[1]).targets[job[2]].ref
    except Exception:  # noqa
        return "?"


def _kill_workers(ex):
    """terminate the worker processes of an executor (a hung worker would otherwise keep the interpreter from exiting)"""
    try:
        for p_ in list((getattr(ex, "_processes", None) or {}).values()):
            try:
                p_.kill()
            except Exception:  # noqa
                pass
    except Exception:  # noqa
        pass


def _run_jobs(jobs, per_job_timeout=None):
    """Run the mutant jobs in worker processes. A worker that dies (SIGABRT from a native assertion) must not hang the run:
    multiprocessing.Pool.map would wait for ever, so futures are used, a broken pool is rebuilt, and the jobs that were in flight
    are retried one at a time to single out the one that kills its worker."""
    from concurrent.futures import ProcessPoolExecutor, as_completed
    from concurrent.futures.process import BrokenProcessPool
    import concurrent.futures as cf
    import os as _os
    per_job_timeout = per_job_timeout or int(_os.environ.get("PYVC_MUTANT_TIMEOUT", "600"))
    ctx = mp.get_context("spawn")   # not fork: the parent has used threads (solver pool)
    results = [None] * len(jobs)
    pending = list(range(len(jobs)))
    workers = min(8, len(jobs))
    rounds = 0
    while pending and rounds < 4:
        rounds += 1
        retry = []
        ex = ProcessPoolExecutor(max_workers=workers if rounds == 1 else 1, mp_context=ctx)
        try:
            if rounds == 1:
                futs = {ex.submit(_one, jobs[i]): i for i in pending}
                try:
                    for f in as_completed(futs, timeout=per_job_timeout * max(1, len(pending) // workers + 1)):
                        i = futs[f]
                        try:
                            results[i] = f.result()
                        except BrokenProcessPool:
                            retry.append(i)
                        except Exception as ex_:  # noqa
                            results[i] = {"id": jobs[i][3], "target": _target_ref(jobs[i]), "status": "error", "by": repr(ex_)[:300]}
                except cf.TimeoutError:
                    retry.extend(i for i in pending if results[i] is None and i not in retry)
                    _kill_workers(ex)
            else:
                # one at a time: the job that breaks the pool (or exceeds its time) is the culprit
                for i in pending:
                    try:
                        results[i] = ex.submit(_one, jobs[i]).result(timeout=per_job_timeout)
                    except BrokenProcessPool:
                        results[i] = _crashed(jobs[i], "the worker process died on this mutant (native abort in the solver library)")
                        ex.shutdown(wait=False, cancel_futures=True)
                        ex = ProcessPoolExecutor(max_workers=1, mp_context=ctx)
                    except cf.TimeoutError:
                        results[i] = _crashed(jobs[i], "no result within %d s" % per_job_timeout)
                        _kill_workers(ex)
                        ex.shutdown(wait=False, cancel_futures=True)
                        ex = ProcessPoolExecutor(max_workers=1, mp_context=ctx)
                    except Exception as ex_:  # noqa
                        results[i] = {"id": jobs[i][3], "target": _target_ref(jobs[i]), "status": "error", "by": repr(ex_)[:300]}
        finally:
            if retry or any(r_ is None for r_ in results):
                _kill_workers(ex)
            ex.shutdown(wait=False, cancel_futures=True)
        pending = [i for i in retry if results[i] is None] if rounds == 1 else [i for i in pending if results[i] is None]
    for i in range(len(jobs)):
        if results[i] is None:
            results[i] = _crashed(jobs[i], "not completed")
    return results


def run_mutants(spec, engines, tier, budget, seed):
    from .run import spec_path
    jobs = []
    srcs = {}
    tindex = {}
    for e in engines:
        t = e.target
        per_target_cap = t.quick_mutants if tier == "quick" else 10 ** 6
        if t.skip_mutants:
            continue
        lo = hi = None
        if t.block is not None:
            blk = e.find_block(e.func.body, t.block)
            lo, hi = blk[0].lineno, blk[-1].end_lineno
        ss = sites(e.func, lo, hi)
        if len(ss) > per_target_cap:
            stride = len(ss) / float(per_target_cap)
            ss = [ss[int(i * stride)] for i in range(per_target_cap)]
        for mid, desc in ss:
            srcs[(t.ref, mid)] = e.lines[desc[1] - 1].strip() if 0 < desc[1] <= len(e.lines) else ""
            jobs.append((spec_path(spec.prop), spec.prop, spec.targets.index(t), mid, desc, min(budget, 5)))
            tindex[(t.ref, mid)] = spec.targets.index(t)
    if not jobs:
        return None
    res = _run_jobs(jobs)
    eq = {}
    for t in spec.targets:
        for k, why in t.equivalent_mutants.items():
            eq[(t.ref, k)] = why
    killed = [r for r in res if r["status"] == "killed"]
    errors = [r for r in res if r["status"] == "error"]
    survivors = [r for r in res if r["status"] == "survived"]
    decl = 0
    import re
    for s in survivors:
        s["source"] = srcs.get((s["target"], s["id"]), "")
        why = eq.get((s["target"], s["id"]))
        if not why:
            # keys may also be regular expressions over "<id> | <source line>"
            for (tref, k), w in eq.items():
                if tref == s["target"] and re.search(k, "%s | %s" % (s["id"], s["source"])):
                    why = w
                    break
        if why:
            s["declared_equivalent"] = why
            decl += 1
    if errors:
        raise EngineError("mutant worker crashed: %s" % errors[0]["by"])
    return {"generated": len(res), "killed": len(killed), "declared_equivalent": decl,
            "survived": len(survivors) - decl, "survivors": survivors,
            "killed_undecided": len([k for k in killed if k.get("how") == "undecided"]),
            "details": res}
