"""Discharging obligations: z3 first (CLI of the z3-solver wheel), cvc5 on z3's unknowns."""
import os
import re
import shutil
import subprocess
import time
from concurrent.futures import ThreadPoolExecutor

import z3

Z3_BIN = shutil.which("z3-new") or shutil.which("z3")
CVC5_BIN = shutil.which("cvc5")


def to_smt2(pc, goal):
    s = z3.Solver()
    for p in pc:
        s.add(p)
    s.add(z3.Not(goal))
    return s.to_smt2()


def _run(cmd, text, timeout):
    t0 = time.time()
    try:
        p = subprocess.run(cmd, input=text, capture_output=True, text=True, timeout=timeout + 5)
        out = (p.stdout or "").strip()
    except subprocess.TimeoutExpired:
        out = "timeout"
    first = out.splitlines()[0].strip() if out else "error"
    if first not in ("sat", "unsat", "unknown", "timeout"):
        first = "error:" + out[:300]
    return first, time.time() - t0, out


def solve_one(smt2, budget, use_cvc5=True):
    """-> dict(result, backend, seconds, detail)"""
    r, dt, out = _run([Z3_BIN, "-in", "-T:%d" % budget], smt2, budget)
    if r in ("sat", "unsat"):
        return {"result": r, "backend": "z3", "seconds": dt}
    total = dt
    detail = r
    if use_cvc5 and CVC5_BIN:
        text = "(set-logic ALL)\n" + smt2
        r2, dt2, out2 = _run([CVC5_BIN, "--lang=smt2", "--strings-exp", "--tlimit=%d" % (budget * 1000)], text, budget)
        total += dt2
        if r2 in ("sat", "unsat"):
            return {"result": r2, "backend": "cvc5", "seconds": total}
        detail += " / cvc5: " + r2
    # a second z3 attempt with a different configuration (quantifier-heavy queries)
    r3, dt3, out3 = _run([Z3_BIN, "-in", "-T:%d" % budget, "smt.mbqi=true", "smt.random_seed=7", "smt.arith.solver=2"], smt2, budget)
    total += dt3
    if r3 in ("sat", "unsat"):
        return {"result": r3, "backend": "z3(alt)", "seconds": total}
    return {"result": "unknown", "backend": "-", "seconds": total, "detail": detail}


def solve_all(obls, budget, jobs=None, cross=False):
    """obls: list of engine.Obl -> list of result dicts (same order)."""
    jobs = jobs or min(16, os.cpu_count() or 4)
    texts = [to_smt2(o.pc, o.goal) for o in obls]

    def work(i):
        if obls[i].kind == "canary" or obls[i].kind.startswith("cover."):
            # expected SAT; only z3, short budget (an unknown here is simply 'not refuted on this path')
            rr, dt, _ = _run([Z3_BIN, "-in", "-T:3"], texts[i], 3)
            return {"result": rr if rr in ("sat", "unsat") else "unknown", "backend": "z3", "seconds": dt}
        r = solve_one(texts[i], budget)
        if cross and r["result"] in ("sat", "unsat") and CVC5_BIN:
            other = "cvc5" if r["backend"].startswith("z3") else "z3"
            if other == "cvc5":
                r2, dt2, _ = _run([CVC5_BIN, "--lang=smt2", "--strings-exp", "--tlimit=%d" % (budget * 1000)],
                                  "(set-logic ALL)\n" + texts[i], budget)
            else:
                r2, dt2, _ = _run([Z3_BIN, "-in", "-T:%d" % budget], texts[i], budget)
            r["cross"] = r2
            r["seconds"] += dt2
        return r
    with ThreadPoolExecutor(max_workers=jobs) as ex:
        results = list(ex.map(work, range(len(obls))))
    for r, t in zip(results, texts):
        r["smt2"] = t
    return results


def model_for(obl, budget=20):
    """Re-solve a failed obligation in process to obtain a model (dict name -> str)."""
    s = z3.Solver()
    s.set("timeout", budget * 1000)
    for p in obl.pc:
        s.add(p)
    s.add(z3.Not(obl.goal))
    if s.check() != z3.sat:
        return None
    m = s.model()
    out = {}
    for d in m.decls():
        if d.arity() == 0:
            try:
                out[d.name()] = _pyval(m[d])
            except Exception:
                out[d.name()] = str(m[d])
    return out


def _pyval(v):
    if z3.is_int_value(v):
        return v.as_long()
    if z3.is_true(v):
        return True
    if z3.is_false(v):
        return False
    if z3.is_string_value(v):
        return v.as_string()
    return str(v)
