"""Discharging obligations: z3 first (CLI of the z3-solver wheel), cvc5 on z3's unknowns."""
import os
import re
import shutil
import subprocess
import time
from concurrent.futures import ThreadPoolExecutor

import z3

Z3_BIN = shutil.which("z3-new") or shutil.which("z3")
CVC5_BIN = shutil.which("cvc5")


_const_cache = {}


def consts_of(t):
    """Names of the uninterpreted constants (arity 0) of a term; cached by term id."""
    k = t.get_id()
    r = _const_cache.get(k)
    if r is None:
        r = set()
        stack, seen = [t], set()
        while stack:
            x = stack.pop()
            i = x.get_id()
            if i in seen:
                continue
            seen.add(i)
            if z3.is_quantifier(x):
                stack.append(x.body())
                continue
            if z3.is_app(x):
                if x.num_args() == 0 and x.decl().kind() == z3.Z3_OP_UNINTERPRETED:
                    r.add(x.decl().name())
                else:
                    stack.extend(x.children())
        _const_cache[k] = r
    return r


def slice_pc(pc, goal):
    """Cone of influence: keep the assumptions connected to the goal through shared constants.
    Dropping assumptions is sound for a validity proof (fewer hypotheses); callers fall back to the full set."""
    rel = set(consts_of(goal))
    cs = [consts_of(p) for p in pc]
    keep = [not c for c in cs]          # closed facts (axioms) always stay
    changed = True
    while changed:
        changed = False
        for i, c in enumerate(cs):
            if not keep[i] and c & rel:
                keep[i] = True
                rel |= c
                changed = True
    return [p for p, k in zip(pc, keep) if k]


def _has_quant(t, _cache={}):
    k = t.get_id()
    if k in _cache:
        return _cache[k]
    r = False
    stack, seen = [t], set()
    while stack:
        x = stack.pop()
        if x.get_id() in seen:
            continue
        seen.add(x.get_id())
        if z3.is_quantifier(x):
            r = True
            break
        if z3.is_app(x):
            stack.extend(x.children())
    _cache[k] = r
    return r


def drop_quantified(pc):
    """Hypotheses without their quantified conjuncts (a weakening: sound for `unsat`, a candidate only for `sat`)."""
    out, dropped = [], 0

    def add(p):
        nonlocal dropped
        if not _has_quant(p):
            out.append(p)
        elif z3.is_and(p):
            for ch in p.children():
                add(ch)
        else:
            dropped += 1
    for p in pc:
        add(p)
    return out, dropped


def to_smt2(pc, goal):
    s = z3.Solver()
    for p in pc:
        s.add(p)
    s.add(z3.Not(goal))
    return s.to_smt2()


def _run(cmd, text, timeout):
    t0 = time.time()
    try:
        p = subprocess.run(cmd, input=text, capture_output=True, text=True, timeout=timeout + 5)
        out = (p.stdout or "").strip()
    except subprocess.TimeoutExpired:
        out = "timeout"
    first = out.splitlines()[0].strip() if out else "error"
    if first not in ("sat", "unsat", "unknown", "timeout"):
        first = "error:" + out[:300]
    return first, time.time() - t0, out


RACE = False       # set by the driver for string-heavy specs: z3 and cvc5 run side by side, the first definite answer wins


def solve_one(smt2, budget, use_cvc5=True):
    """-> dict(result, backend, seconds, detail)"""
    if RACE and use_cvc5 and CVC5_BIN:
        t0 = time.time()
        with ThreadPoolExecutor(max_workers=2) as ex2:
            fz = ex2.submit(_run, [Z3_BIN, "-in", "-T:%d" % budget], smt2, budget)
            fc = ex2.submit(_run, [CVC5_BIN, "--lang=smt2", "--strings-exp", "--tlimit=%d" % (budget * 1000)], "(set-logic ALL)\n" + smt2, budget)
            pending = {fz: "z3", fc: "cvc5"}
            detail = []
            import concurrent.futures as _cf
            while pending:
                done, _ = _cf.wait(list(pending), return_when=_cf.FIRST_COMPLETED)
                for f in done:
                    nm = pending.pop(f)
                    r_, dt_, _o = f.result()
                    if r_ in ("sat", "unsat"):
                        return {"result": r_, "backend": nm, "seconds": time.time() - t0}
                    detail.append("%s: %s" % (nm, r_))
        return {"result": "unknown", "backend": "-", "seconds": time.time() - t0, "detail": " / ".join(detail)}
    r, dt, out = _run([Z3_BIN, "-in", "-T:%d" % budget], smt2, budget)
    if r in ("sat", "unsat"):
        return {"result": r, "backend": "z3", "seconds": dt}
    total = dt
    detail = r
    if use_cvc5 and CVC5_BIN:
        text = "(set-logic ALL)\n" + smt2
        r2, dt2, out2 = _run([CVC5_BIN, "--lang=smt2", "--strings-exp", "--tlimit=%d" % (budget * 1000)], text, budget)
        total += dt2
        if r2 in ("sat", "unsat"):
            return {"result": r2, "backend": "cvc5", "seconds": total}
        detail += " / cvc5: " + r2
    # a second z3 attempt with a different configuration (quantifier-heavy queries)
    r3, dt3, out3 = _run([Z3_BIN, "-in", "-T:%d" % budget, "smt.mbqi=true", "smt.random_seed=7", "smt.arith.solver=2"], smt2, budget)
    total += dt3
    if r3 in ("sat", "unsat"):
        return {"result": r3, "backend": "z3(alt)", "seconds": total}
    return {"result": "unknown", "backend": "-", "seconds": total, "detail": detail}


def solve_all(obls, budget, jobs=None, cross=False):
    """obls: list of engine.Obl -> list of result dicts (same order)."""
    jobs = jobs or min(16, os.cpu_count() or 4)
    texts = [to_smt2(o.pc, o.goal) for o in obls]
    sliced = [None] * len(obls)
    for i, o in enumerate(obls):
        if o.kind != "canary" and not o.kind.startswith("cover.") and len(o.pc) > 40:
            sp = slice_pc(o.pc, o.goal)
            if len(sp) < 0.8 * len(o.pc):
                sliced[i] = to_smt2(sp, o.goal)

    def work(i):
        if obls[i].kind == "canary" or obls[i].kind.startswith("cover."):
            # expected SAT; only z3, short budget (an unknown here is simply 'not refuted on this path')
            rr, dt, _ = _run([Z3_BIN, "-in", "-T:%d" % min(budget, 8)], texts[i], min(budget, 8))
            be = "z3"
            if rr not in ("sat", "unsat") and CVC5_BIN:
                # models of sequence formulas: cvc5 (with finite model finding for the quantified definitions) often finds them
                for extra in ([], ["--strings-fmf", "--finite-model-find"]):
                    r2, dt2, _ = _run([CVC5_BIN, "--lang=smt2", "--strings-exp"] + extra + ["--tlimit=%d" % (min(budget, 8) * 1000)],
                                      "(set-logic ALL)\n" + texts[i], min(budget, 8))
                    dt += dt2
                    if r2 in ("sat", "unsat"):
                        rr, be = r2, "cvc5"
                        break
            return {"result": rr if rr in ("sat", "unsat") else "unknown", "backend": be, "seconds": dt}
        r = None
        if sliced[i] is not None:
            # first try with the assumptions in the goal's cone of influence only; unsat there is unsat in full
            rr, dt, _ = _run([Z3_BIN, "-in", "-T:%d" % min(budget, 5)], sliced[i], min(budget, 5))
            if rr == "unsat":
                r = {"result": "unsat", "backend": "z3", "seconds": dt, "sliced": True}
        if r is None:
            r = solve_one(texts[i], budget)
        if r["result"] not in ("sat", "unsat") and z3.is_implies(obls[i].goal):
            # goal P => Q on a path where P cannot hold: pc /\ P unsat discharges it (the solvers often miss this
            # once the negated conclusion is added)
            sv = z3.Solver()
            for p_ in obls[i].pc:
                sv.add(p_)
            sv.add(obls[i].goal.arg(0))
            rr, dt, _ = _run([Z3_BIN, "-in", "-T:%d" % budget], sv.to_smt2(), budget)
            if rr == "unsat":
                r = {"result": "unsat", "backend": "z3(premise infeasible on this path)", "seconds": r["seconds"] + dt}
        if r["result"] not in ("sat", "unsat"):
            # quantified hypotheses (definitions of reversed/sorted sequences, extensional map equality) make the solvers give up
            # on satisfiable queries. Without them: unsat is still a proof (fewer hypotheses); sat is only a CANDIDATE refutation
            # (a model of the remaining hypotheses) which the driver must confirm by replay or report as such.
            qf, nd = drop_quantified(obls[i].pc)
            if nd and not _has_quant(obls[i].goal):
                rr, dt, _ = _run([Z3_BIN, "-in", "-T:%d" % budget], to_smt2(qf, obls[i].goal), budget)
                if rr == "unsat":
                    r = {"result": "unsat", "backend": "z3(quantifier-free hypotheses)", "seconds": r["seconds"] + dt}
                elif rr == "sat":
                    r = {"result": "sat", "backend": "z3(candidate: %d quantified hypotheses dropped, unknown with them)" % nd,
                         "seconds": r["seconds"] + dt, "candidate": True, "detail": r.get("detail")}
        if cross and r["result"] in ("sat", "unsat") and CVC5_BIN:
            other = "cvc5" if r["backend"].startswith("z3") else "z3"
            if other == "cvc5":
                r2, dt2, _ = _run([CVC5_BIN, "--lang=smt2", "--strings-exp", "--tlimit=%d" % (budget * 1000)],
                                  "(set-logic ALL)\n" + texts[i], budget)
            else:
                r2, dt2, _ = _run([Z3_BIN, "-in", "-T:%d" % budget], texts[i], budget)
            r["cross"] = r2
            r["seconds"] += dt2
        return r
    with ThreadPoolExecutor(max_workers=jobs) as ex:
        results = list(ex.map(work, range(len(obls))))
    for r, t in zip(results, texts):
        r["smt2"] = t
    return results


def model_for(obl, budget=20):
    """Re-solve a failed obligation in process to obtain a model (dict name -> str)."""
    s = z3.Solver()
    s.set("timeout", budget * 1000)
    for p in obl.pc:
        s.add(p)
    s.add(z3.Not(obl.goal))
    if s.check() != z3.sat:
        s = z3.Solver()
        s.set("timeout", budget * 1000)
        for p in drop_quantified(obl.pc)[0]:
            s.add(p)
        s.add(z3.Not(obl.goal))
        if s.check() != z3.sat:
            return None
    m = s.model()
    out = {}
    for d in m.decls():
        if d.arity() == 0:
            try:
                out[d.name()] = _pyval(m[d])
            except Exception:
                out[d.name()] = str(m[d])
    return out


def _pyval(v):
    if z3.is_int_value(v):
        return v.as_long()
    if z3.is_true(v):
        return True
    if z3.is_false(v):
        return False
    if z3.is_string_value(v):
        return v.as_string()
    return str(v)
