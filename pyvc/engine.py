"""pyvc engine: forward symbolic execution of real Python source into SMT obligations.

See DESIGN.md section 2. The engine never imports breezy; it parses the file
under /repo on every run.
"""
import ast
import hashlib
import os
import re
import z3

from . import sorts as S
from .sorts import V, INT, BOOL, STR, BYTES, NONE, ANY, Seq, Tup, Opt, SetS, MapS, Opaque, Enum, Obj, PySide, EXC, FUNC
from .state import State, Ctx, ObjView, ExcHier, EngineError, SpecDrift
from .spec import Contract, Loop, Target

REPO = os.environ.get("PYVC_REPO", "/repo")

GLOB = PySide("glob")
POLY_LIST = PySide("polylist")
POLY_DICT = PySide("polydict")
POLY_SET = PySide("polyset")
ITER = PySide("iter")
FEAS_MS = int(os.environ.get("PYVC_FEAS_MS", "120"))   # path pruning budget: infeasible branches are refuted in a few ms

LOGGING_CALLS = re.compile(
    r"^(trace\.)?(mutter|note|warning|log_exception_quietly|mutter_callsite|show_error|report_exception)$"
    r"|^trace\.\w+$|^self\._trace$|^ui\.ui_factory\.(note|show_\w+|clear_term|log_transport_activity)$"
    r"|^(self\.)?(pb|child_pb|self\.pb)\.(update|finished|tick|clear)$|^gettext$|^ngettext$|^_$|^print$|^warnings\.warn$"
    r"|^symbol_versioning\.warn$|^self\.reporter\.\w+$|^logger\.\w+$|^logging\.\w+$")

EXC_NAME = re.compile(r"(Error|Exception|Exists|Mismatch|Contention|Broken|NotHeld|Failed|Conflict\w*|Interrupt|"
                      r"NoSuch\w+|NotBranch\w*|Diverged\w*|OutOfDate|Denied|Malformed\w*|Unsupported\w*|"
                      r"NotVersioned\w*|Corrupt\w*|Unknown\w+|Invalid\w+|Bad\w+|Cannot\w+|Locked|_NeedMoreBytes|"
                      r"ExistingContent|UnlockableTransport|ReadOnly\w*|TokenLockingNotSupported|NotLocalUrl|"
                      r"PathNotChild|BzrCheckError|RetryWithNewPacks|RetryAutopack|StopIteration|NotADirectory|"
                      r"AbortWriteGroup\w*|BoundBranch\w*|PointlessCommit|StrictCommitFailed|ConflictsInTree|"
                      r"CommandError|UncommittedChanges|NoWorkingTree|NoRepositoryPresent|AlreadyBranch\w*)$")


class Obl:
    __slots__ = ("name", "kind", "line", "pc", "goal", "target", "info", "trace", "parts")

    def __init__(self, name, kind, line, pc, goal, target, info=None, trace=()):
        self.name, self.kind, self.line, self.pc, self.goal, self.target, self.info = name, kind, line, pc, goal, target, info
        self.trace = trace
        self.parts = None       # grouped obligation: [(name, goal)] solved one by one only if the conjunction fails


class Out:
    __slots__ = ("kind", "st", "val")

    def __init__(self, kind, st, val=None):
        self.kind, self.st, self.val = kind, st, val


class LValue:
    def __init__(self, get, set_, desc):
        self.get, self.set, self.desc = get, set_, desc


def exc_value(cls, line, note=None):
    return V(EXC, cls, {"line": line, "note": note})


def imp_value(cls, line, note=None):
    """An internal error raised by the target's own operations (s[i], d[k], None.attr, assert ...):
    the generic `Exception` clause of a contract does not cover it; it needs an explicit clause."""
    return V(EXC, cls, {"line": line, "note": note, "implicit": True})


class Core:
    def __init__(self, spec, target, tree=None, src=None, mutate=None):
        self.spec, self.target = spec, target
        self.hier = ExcHier(spec.exc_parents)
        path = os.path.join(REPO, target.path)
        if src is None:
            with open(path) as f:
                src = f.read()
        self.src = src
        self.lines = src.splitlines()
        self.tree = tree if tree is not None else ast.parse(src)
        self.func, self.cls_node = self.locate(self.tree, target.qualname)
        if mutate is not None:
            mutate(self.func)
        self.obls = []
        self.covers = {}
        self.opaque_calls = {}
        self.used_contracts = {}
        self.notes = []
        self.counter = {}
        self.loop_ordinals = {}
        self._number_loops()
        self.path_count = 0
        self.exit_states = []
        self.feas_cache = {}
        self.loop_heads = {}

    # ------------------------------------------------------------------ locating code
    @staticmethod
    def locate(tree, qualname):
        parts = qualname.split(".")
        node, cls = tree, None
        for p in parts:
            found = None
            for ch in ast.iter_child_nodes(node) if not isinstance(node, ast.Module) else node.body:
                if isinstance(ch, (ast.FunctionDef, ast.ClassDef)) and ch.name == p:
                    found = ch
            if found is None and not isinstance(node, ast.Module):
                for ch in ast.walk(node):
                    if isinstance(ch, (ast.FunctionDef, ast.ClassDef)) and ch.name == p and ch is not node:
                        found = ch
                        break
            if found is None:
                raise SpecDrift("target %s not found (looking for %r)" % (qualname, p))
            if isinstance(found, ast.ClassDef):
                cls = found
            node = found
        if not isinstance(node, ast.FunctionDef):
            raise SpecDrift("target %s is not a function" % qualname)
        return node, cls

    def segment(self):
        f = self.func
        first = min([f.lineno] + [d.lineno for d in f.decorator_list])
        text = "\n".join(self.lines[first - 1:f.end_lineno])
        return first, f.end_lineno, hashlib.sha256(text.encode()).hexdigest()

    def _number_loops(self):
        n = 0
        for node in self._walk_body(self.func):
            if isinstance(node, (ast.While, ast.For)):
                n += 1
                self.loop_ordinals[id(node)] = n

    def _walk_body(self, fn):
        """Source-order walk that does not enter nested function definitions."""
        stack = list(reversed(fn.body))
        while stack:
            n = stack.pop()
            yield n
            if isinstance(n, (ast.FunctionDef, ast.AsyncFunctionDef, ast.Lambda, ast.ClassDef)):
                continue
            stack.extend(reversed(list(ast.iter_child_nodes(n))))

    def srcline(self, node):
        return self.lines[node.lineno - 1] if 0 < node.lineno <= len(self.lines) else ""

    # ------------------------------------------------------------------ obligations
    def emit(self, kind, node_or_line, st, goal, info=None, tag=None):
        line = node_or_line if isinstance(node_or_line, int) else getattr(node_or_line, "lineno", 0)
        goal = S.lift(goal)
        if goal.s != BOOL:
            raise EngineError("obligation %s is not boolean" % kind)
        base = "%s::%s::%s%s@L%d" % (self.target.path, self.target.display, kind, ("[" + tag + "]") if tag else "", line)
        k = self.counter.get(base, 0)
        self.counter[base] = k + 1
        name = base if k == 0 else "%s#%d" % (base, k)
        self.obls.append(Obl(name, kind, line, list(st.pc), goal.t, self.target.ref, info, st.trace))

    _quant_cache = {}

    @classmethod
    def has_quant(cls, t):
        k = t.get_id()
        r = cls._quant_cache.get(k)
        if r is None:
            r = False
            stack, seen = [t], set()
            while stack:
                x = stack.pop()
                if x.get_id() in seen:
                    continue
                seen.add(x.get_id())
                if z3.is_quantifier(x):
                    r = True
                    break
                stack.extend(x.children())
            cls._quant_cache[k] = r
        return r

    def emit_group(self, kind, line, st, parts, tag="all"):
        """One obligation for the conjunction of `parts` [(tag, goal V)]; split by the driver if it does not discharge."""
        parts = [(n, S.lift(g)) for n, g in parts]
        if not parts:
            return
        if len(parts) == 1:
            self.emit(kind, line, st, parts[0][1], tag=parts[0][0])
            return
        self.emit(kind, line, st, S.And(*[g for n, g in parts]), tag=tag)
        o = self.obls[-1]
        suffix = o.name[o.name.index("@L"):]
        base = "%s::%s::%s" % (self.target.path, self.target.display, kind)
        o.parts = [("%s[%s]%s" % (base, n, suffix), g.t) for n, g in parts]

    def feasible(self, st, extra=None):
        """Path pruning only: quantified facts are left out (fewer prunes, never an unsound one)."""
        s = z3.Solver()
        s.set("timeout", FEAS_MS)
        for p in st.pc:
            if not self.has_quant(p):
                s.add(p)
        if extra is not None:
            s.add(extra)
        r = s.check()
        return r != z3.unsat

    def branch(self, st, cond):
        """Split st on a Bool V; returns (st_true|None, st_false|None), pruning proven-infeasible sides."""
        c = z3.simplify(cond.t)
        if z3.is_true(c):
            return st, None
        if z3.is_false(c):
            return None, st
        a = b = None
        # assume the original term: z3.simplify introduces internal symbols (seq.nth_i/u) that other solvers reject
        if self.feasible(st, cond.t):
            a = st.copy().assume(cond.t)
        if self.feasible(st, z3.Not(cond.t)):
            b = st.copy().assume(z3.Not(cond.t))
        return a, b

    # ------------------------------------------------------------------ heap
    def class_decl(self, cls):
        return self.spec.classes.get(cls)

    def read_field(self, st, ref, f, create=True):
        key = (ref.t, f)
        if key in st.heap:
            return st.heap[key]
        decl = self.class_decl(ref.s.cls)
        if decl and f in decl.fields:
            so = decl.fields[f]
            if isinstance(so, Obj):
                v = V(so, "%s.%s" % (ref.t, f))
            else:
                v = V(so, z3.Const(S.fresh_name("%s.%s" % (ref.t, f)), so.z3()))
                self.track(st, v)
        else:
            v = V(ANY, z3.Const(S.fresh_name("%s.%s" % (ref.t, f)), ANY.z3()))
        st.heap[key] = v
        return v

    def write_field(self, st, ref, f, v):
        decl = self.class_decl(ref.s.cls)
        if decl and f in decl.fields:
            c = self.coerce(v, decl.fields[f])
            if c is None:
                raise EngineError("cannot store %s into %s.%s : %s" % (v.s, ref.s.cls, f, decl.fields[f]))
            v = c
        st.heap[(ref.t, f)] = v
        st.touch()

    def init_object(self, st, ref, depth=0):
        decl = self.class_decl(ref.s.cls)
        if not decl or depth > 3:
            return
        for f, so in decl.fields.items():
            v = self.read_field(st, ref, f)
            if isinstance(so, Obj):
                self.init_object(st, v, depth + 1)

    def havoc_object(self, st, ref, keep=(), depth=0):
        decl = self.class_decl(ref.s.cls)
        for key in [k for k in st.heap if k[0] == ref.t]:
            if key[1] in keep:
                continue
            v = st.heap[key]
            if isinstance(v.s, Obj):
                if depth < 3:
                    self.havoc_object(st, v, (), depth + 1)
                continue
            del st.heap[key]
        if decl:
            for f, so in decl.fields.items():
                if f not in keep and not isinstance(so, Obj):
                    self.read_field(st, ref, f)
        st.touch()

    # ------------------------------------------------------------------ folds / lemma instances
    def folds_for(self, sort):
        return [f for f in self.spec.folds if f.sort == sort]

    def track(self, st, v):
        """Add the unary lemma instances for a sequence value."""
        if not isinstance(v.s, Seq):
            return
        for f in self.folds_for(v.s):
            st.assume(z3.Implies(z3.Length(v.t) == 0, f.f(v.t) == f.unit()))
        rv = self.spec.rev.get(v.s.name)
        if rv is not None:
            st.assume(z3.Length(rv(v.t)) == z3.Length(v.t))
            st.assume(rv(rv(v.t)) == v.t)
        for l in self.spec.seq_lemmas:
            if l.sort == v.s:
                st.assume(S.lift(l.stmt(v)).t)

    def track_deep(self, st, v, depth=0):
        if isinstance(v.s, Seq):
            self.track(st, v)
        elif isinstance(v.s, Tup) and depth < 3:
            for i in range(len(v.s.elems)):
                self.track_deep(st, v.s.get(v, i), depth + 1)

    def note_concat(self, st, whole, parts):
        """whole == concat(parts); parts: list of ('seq', V) | ('unit', Velem).
        Adds the decomposition fact and the fold homomorphism instances."""
        so = whole.s
        terms = []
        for k, p in parts:
            terms.append(p.t if k == "seq" else z3.Unit(p.t))
        if not terms:
            st.assume(whole.t == z3.Empty(so.z3()))
        else:
            st.assume(whole.t == (terms[0] if len(terms) == 1 else z3.Concat(*terms)))
        for f in self.folds_for(so):
            vals = []
            for (k, p), t in zip(parts, terms):
                if k == "unit":
                    self.track_deep(st, p)
                    ev = S.lift(f.elem(p))
                    st.assume(f.f(t) == ev.t)
                vals.append(f.f(t))
            st.assume(f.f(whole.t) == f.combine(vals))
        rv = self.spec.rev.get(so.name)
        if rv is not None:
            rparts = [(t if k == "unit" else rv(t)) for (k, p), t in zip(parts, terms)]
            for (k, p), t in zip(parts, terms):
                if k == "unit":
                    st.assume(rv(t) == t)
            rparts.reverse()
            st.assume(rv(whole.t) == (z3.Empty(so.z3()) if not rparts else (rparts[0] if len(rparts) == 1 else z3.Concat(*rparts))))
        self.track(st, whole)
        for (k, p), t in zip(parts, terms):
            self.track(st, p if k == "seq" else V(so, t))

    # ------------------------------------------------------------------ coercion
    def coerce(self, v, sort):
        if v.s == sort:
            return v
        if v.s == POLY_LIST and isinstance(sort, Seq):
            return V(sort, z3.Empty(sort.z3()))
        if v.s == POLY_LIST and isinstance(sort, Opt) and isinstance(sort.inner, Seq):
            return sort.some(V(sort.inner, z3.Empty(sort.inner.z3())))
        if v.s == POLY_SET and isinstance(sort, SetS):
            return sort.empty()
        if v.s == POLY_DICT and isinstance(sort, MapS):
            return sort.empty()
        if isinstance(sort, Tup) and isinstance(v.s, Tup) and len(sort.elems) == len(v.s.elems):
            parts = [self.coerce(v.s.get(v, i), e) for i, e in enumerate(sort.elems)]
            if all(p is not None for p in parts):
                return sort.mk(*parts)
        if sort == ANY and not v.s.pyside:
            # forgetting structure is always sound: an unconstrained opaque value
            return ANY.fresh("forget")
        return S.coerce(v, sort)

    def fresh(self, sort, base, st=None):
        if sort.pyside:
            if isinstance(sort, Obj):
                v = V(sort, S.fresh_name(base))
                if st is not None:
                    self.init_object(st, v)
                return v
            raise EngineError("cannot make a fresh %s" % sort)
        v = sort.fresh(base)
        if st is not None:
            self.track(st, v)
        return v
