"""Bounded stand-in (labelled bounded, never counted as proved) for the parts of C36 outside the verifier's reach:
file-id escaping (two-byte replace chains + a bytearray loop), path <-> file id, and git URL <-> breezy URL (Rust).
Exhaustive over stated small domains on the real functions; also confirms natively the branch-name finding F6."""
import itertools, json, os
from breezy.git import mapping as M, refs as R
from breezy.git.urls import git_url_to_bzr_url, bzr_url_to_git_url

tier = os.environ.get("VERIF_TIER", "quick")
viol, n = [], 0


def bad(name, witness, observed, expected):
    if len(viol) < 8:
        viol.append({"name": name, "witness": witness, "observed": observed, "expected": expected})


# 1. unescape(escape(x)) == x ; alphabet with every character the escaping treats specially, length <= L
ALPH = [b"_", b" ", b"\x0c", b"s", b"c", b"a", b"/", b"\xc3"]
L = 5 if tier == "quick" else 7
for k in range(0, L + 1):
    for t in itertools.product(ALPH, repeat=k):
        x = b"".join(t); n += 1
        try:
            y = M.unescape_file_id(M.escape_file_id(x))
        except Exception as e:  # noqa
            y = repr(e)
        if y != x:
            bad("bounded::C36.escape_unescape", repr(x), repr(y), repr(x))
# 2. parse_file_id(generate_file_id(path)) == path for str and bytes paths
mp = M.default_mapping
# exhaustively: every byte path over an alphabet with the escape characters and bytes that are NOT valid utf-8, as bytes and as the
# surrogate-escaped str that git trees hand out; both directions
from breezy.git.mapping import decode_git_path, encode_git_path
PALPH = [b"a", b"_", b" ", b"\x0c", b"s", b"/", b"\xe9", b"\xff", "é".encode("utf-8")]
LP = 3 if tier == "quick" else 4
for k in range(0, LP + 1):
    for t in itertools.product(PALPH, repeat=k):
        bp = b"".join(t); n += 1
        try:
            sp = decode_git_path(bp)
            fid_b, fid_s = mp.generate_file_id(bp), mp.generate_file_id(sp)
            back = mp.parse_file_id(fid_s)
            obs = (fid_b == fid_s, back == sp, encode_git_path(back) == bp, mp.generate_file_id(back) == fid_s)
        except Exception as e:  # noqa
            obs = repr(e)
        if obs != (True, True, True, True):
            bad("bounded::C36.path_file_id", "byte path %r" % bp, repr(obs), "same id for bytes and str form; path -> id -> path and id -> path -> id are identities")
for p in ["", "a", "a b", "a_b", "d/f", "_s", "x\x0cy", "å/ø", "a__s c", "refs/heads/x"]:
    n += 1
    fid = mp.generate_file_id(p)
    back = mp.parse_file_id(fid)
    if back != p:
        bad("bounded::C36.path_file_id", repr(p), repr(back), repr(p))
# 3. SHAs and revision ids, tag names (cross-check of the proved contracts on the real code)
for sha in (b"a" * 40, b"0123456789abcdef0123456789abcdef01234567"):
    n += 1
    rid = mp.revision_id_foreign_to_bzr(sha)
    if mp.revision_id_bzr_to_foreign(rid)[0] != sha:
        bad("bounded::C36.sha_revid", repr(sha), repr(mp.revision_id_bzr_to_foreign(rid)[0]), repr(sha))
names = ["", "a", "main", "feature/x", "å", "heads/x", "tags/v1", "refs", "ref/x", "refs/foo", "refs/heads/x", "refs/tags/t"]
for nm in names:
    n += 1
    if nm and R.ref_to_tag_name(R.tag_name_to_ref(nm)) != nm:
        bad("bounded::C36.tag_names", repr(nm), repr(R.ref_to_tag_name(R.tag_name_to_ref(nm))), repr(nm))
    try:
        back = R.ref_to_branch_name(R.branch_name_to_ref(nm))
    except ValueError as e:
        back = "ValueError"
    if back != nm:
        bad("bounded::C36.branch_names", "branch name %r" % nm, repr(back), repr(nm))
# 4. URLs: bzr_url_to_git_url(git_url_to_bzr_url(u, branch/ref)) gives back (u', branch, ref) with u' converting to the same bzr url
urls = ["git://host/path", "git+ssh://user@host/path/repo.git", "https://host/a/b", "ssh://host:2222/x", "user@host:path/to/repo",
        "host:repo", "https://host/a%20b", "https://host/with,comma"]
for u in urls:
    for branch, ref in ((None, None), ("main", None), ("feature/x", None), ("a,b", None), (None, b"refs/tags/v1"), ("å", None)):
        n += 1
        try:
            bz = git_url_to_bzr_url(u, branch=branch, ref=ref)
            back_url, back_branch, back_ref = bzr_url_to_git_url(bz)
            again = git_url_to_bzr_url(back_url, branch=back_branch, ref=(back_ref.encode("utf-8") if isinstance(back_ref, str) else back_ref))
        except Exception as e:  # noqa
            bad("bounded::C36.urls", "url %r branch %r ref %r" % (u, branch, ref), repr(e), "a round trip")
            continue
        if again != bz or (branch is not None and back_branch != branch) or (ref is not None and back_ref not in (ref, ref.decode("utf-8"))):
            bad("bounded::C36.urls", "url %r branch %r ref %r" % (u, branch, ref), repr((bz, back_url, back_branch, back_ref, again)), "the same breezy URL and parameters")
print(json.dumps({"evaluations": n, "distinct_nontrivial": n, "exhaustive": True,
                  "rule": "escape/unescape: every byte string over %d special bytes up to length %d; paths, shas, names and URLs: fixed lists" % (len(ALPH), L),
                  "violations": viol, "label": "bounded"}))
