"""Bounded stand-in for C50 (labelled bounded, never counted as proved): breezy.cmdline.split against a reference quoter written from
the documented rules (arguments wrapped in double quotes; 2n+1 backslashes before a literal double quote, 2n before a quote character
that must stay literal or before the closing quote, n elsewhere), exhaustively over small argument lists."""
import itertools, json, os
from breezy import cmdline

tier = os.environ.get("VERIF_TIER", "quick")
ALPH = ["a", " ", '"', "'", "\\"]
viol, n, nontrivial, samples = [], 0, 0, []


def quote(arg, single):
    out, run = ['"'], 0
    for ch in arg:
        if ch == "\\":
            run += 1
            continue
        if ch == '"':
            out.append("\\" * (2 * run + 1) + '"')
        elif ch == "'" and single:
            out.append("\\" * (2 * run) + "'")
        else:
            out.append("\\" * run + ch)
        run = 0
    out.append("\\" * (2 * run) + '"')
    return "".join(out)


def strings(maxlen):
    for k in range(0, maxlen + 1):
        for t in itertools.product(ALPH, repeat=k):
            yield "".join(t)


L1 = 5 if tier == "quick" else 6
lists = [[s] for s in strings(L1)] + [list(t) for t in itertools.product(list(strings(2)), repeat=2)] + \
        [list(t) for t in itertools.product(list(strings(1)), repeat=3)]
for single in (True, False):
    for args in lists:
        n += 1
        if any(ch in "".join(args) for ch in ' "\'\\'):
            nontrivial += 1
        line = " ".join(quote(a, single) for a in args)
        got = cmdline.split(line, single_quotes_allowed=single)
        if got != args and len(viol) < 6:
            viol.append({"name": "bounded::C50.quote_then_split", "witness": "args %r single_quotes=%s line %r" % (args, single, line),
                         "observed": repr(got), "expected": repr(args)})
        if len(samples) < 3 and len(args) == 2 and '"' in args[0]:
            samples.append({"args": args, "quoted": line, "split": got})
    # arbitrary lines: nothing but quoting syntax (quotes, backslashes, separating whitespace) may disappear or appear
    for line in strings(6 if tier == "quick" else 7):
        n += 1
        got = cmdline.split(line, single_quotes_allowed=single)
        letters_in = line.count("a")
        letters_out = sum(a.count("a") for a in got)
        extra = [ch for a in got for ch in a if ch not in "a \"'\\"]
        if (letters_in != letters_out or extra) and len(viol) < 6:
            viol.append({"name": "bounded::C50.no_characters_lost_or_invented", "witness": "line %r single_quotes=%s" % (line, single),
                         "observed": repr(got), "expected": "the same letters"})
print(json.dumps({"evaluations": n, "distinct_nontrivial": nontrivial, "exhaustive": True,
                  "rule": "argument lists over {a, space, \", ', \\\\}: one argument up to length %d, two up to length 2, three up to length 1; "
                          "arbitrary lines up to length %d; both quote settings; non-trivial = contains a character that needs quoting" % (L1, 6 if tier == "quick" else 7),
                  "samples": samples, "violations": viol, "label": "bounded"}))
