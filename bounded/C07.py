"""Bounded stand-in (labelled bounded, never counted as proved) for the two digit functions of C07.

_max_pack_count and pack_distribution need str(int)/10**e digit reasoning that is not yet under
contract in pyvc; they are checked exhaustively on the real functions for every total in a stated range.
"""
import json, os, sys
from breezy.bzr.pack_repo import RepositoryPackCollection as RPC

tier = os.environ.get("VERIF_TIER", "quick")
N = 20000 if tier == "quick" else 300000
viol, samples = [], []
n = 0
for t in list(range(0, N)) + [10 ** k for k in range(5, 19)] + [10 ** k - 1 for k in range(5, 19)] + [123456789012345]:
    n += 1
    ds = sum(int(ch) for ch in str(t))
    dist = RPC.pack_distribution(None, t)
    mx = RPC._max_pack_count(None, t)
    ok = (mx == (ds if t else 1)) and (dist == [0] if t == 0 else (sum(dist) == t and len(dist) == ds and all(d >= 1 for d in dist)
                                                                     and dist == sorted(dist, reverse=True)))
    if not ok and len(viol) < 5:
        viol.append({"name": "bounded::C07.digit_functions", "witness": "total=%d" % t,
                     "observed": {"max_pack_count": mx, "distribution": dist[:20]}, "expected": "sum==total, len==digit sum, all>=1"})
    if t in (0, 9, 10, 1999, 10 ** 6):
        samples.append({"total": t, "max_pack_count": mx, "distribution": dist})
print(json.dumps({"evaluations": n, "distinct_nontrivial": n - 1, "exhaustive": True,
                  "rule": "every total in [0,%d) plus powers of ten and 10^k-1 up to 10^18; non-trivial = total > 0" % N,
                  "samples": samples, "violations": viol, "label": "bounded"}))
