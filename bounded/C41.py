"""Bounded stand-in for C41 (labelled bounded, never counted as proved): StrictTestament3 of real revisions.
Determinism: the same attested data committed to a 2a and a pack-0.92 repository gives the same testament.
Sensitivity: every single-field perturbation of a base revision changes the testament."""
import json, os, shutil, tempfile
import breezy.bzr  # noqa
from breezy import controldir
from breezy.bzr.testament import StrictTestament3, StrictTestament, Testament

tier = os.environ.get("VERIF_TIER", "quick")
viol, n, nontrivial, samples = [], 0, 0, []
base = tempfile.mkdtemp(prefix="c41_")


def bad(name, witness, observed, expected):
    viol.append({"name": name, "witness": witness, "observed": observed, "expected": expected})


BASE = dict(files={"a": b"A\n", "d/f": b"F\n"}, execs=(), links={"l": "a"}, message="fix the thing", committer="Joe <joe@example.com>",
            timestamp=1200000000.0, timezone=3600, revprops={"bugs": "https://b/1 fixed"}, extra_parent=False, swap_parents=False)


def build(name, fmt, **kw):
    spec = dict(BASE, **kw)
    d = os.path.join(base, name); os.mkdir(d)
    cd = controldir.format_registry.make_controldir(fmt).initialize(d)
    cd.create_repository(); cd.create_branch(); wt = cd.create_workingtree()
    wt.set_root_id(b"root-id")
    wt.branch.nick = "nick"            # the branch nick is recorded as a revision property: keep it equal across the builds
    # a fixed first revision and a side revision, so that parents can be attested
    open(os.path.join(d, "seed"), "w").write("seed\n"); wt.add(["seed"], ids=[b"seed-id"])
    r0 = wt.commit("zero", rev_id=b"rev-0", timestamp=1.0, timezone=0, committer="x <x@e.x>")
    wt.commit("side", rev_id=b"rev-side", timestamp=2.0, timezone=0, committer="x <x@e.x>", allow_pointless=True)
    wt.branch.set_last_revision_info(1, b"rev-0"); wt.set_parent_ids([b"rev-0"])
    wt.commit("other", rev_id=b"rev-other", timestamp=2.5, timezone=0, committer="x <x@e.x>", allow_pointless=True)
    wt.branch.set_last_revision_info(1, b"rev-0"); wt.set_parent_ids([b"rev-0"])
    paths, ids = [], []
    for p in sorted(spec["files"]):
        dn = os.path.dirname(p)
        if dn and not os.path.isdir(os.path.join(d, dn)):
            os.mkdir(os.path.join(d, dn)); paths.append(dn); ids.append(("id-" + dn).encode())
        with open(os.path.join(d, p), "wb") as f:
            f.write(spec["files"][p])
        if p in spec["execs"]:
            os.chmod(os.path.join(d, p), 0o755)
        paths.append(p); ids.append(("id-" + p.replace("/", "_")).encode())
    for l, t in spec["links"].items():
        os.symlink(t, os.path.join(d, l)); paths.append(l); ids.append(("id-" + l).encode())
    wt.add(paths, ids=ids)
    parents = [b"rev-0"]
    if spec["extra_parent"]:
        parents = [b"rev-0", b"rev-side", b"rev-other"]
        if spec["swap_parents"]:
            parents = [b"rev-0", b"rev-other", b"rev-side"]
    wt.set_parent_ids(parents)
    wt.commit(spec["message"], rev_id=b"rev-1", timestamp=spec["timestamp"], timezone=spec["timezone"], committer=spec["committer"],
              revprops=dict(spec["revprops"]))
    return wt.branch.repository


try:
    repo = build("base", "2a")
    with repo.lock_read():
        t0 = StrictTestament3.from_revision(repo, b"rev-1")
        base_text, base_sha = t0.as_text(), t0.as_sha1()
    samples.append({"testament_head": base_text.decode("utf-8", "replace")[:300]})
    # determinism across formats
    for fmt in ("pack-0.92", "2a"):
        n += 1
        r2 = build("same_" + fmt.replace(".", "_"), fmt)
        with r2.lock_read():
            for cls in (StrictTestament3, StrictTestament, Testament):
                a = cls.from_revision(repo, b"rev-1").as_text() if True else None
        with repo.lock_read(), r2.lock_read():
            for cls in (StrictTestament3, StrictTestament, Testament):
                if cls.from_revision(repo, b"rev-1").as_text() != cls.from_revision(r2, b"rev-1").as_text():
                    bad("bounded::C41.determinism", "format %s class %s" % (fmt, cls.__name__), "different testaments", "identical")
    # sensitivity
    perturb = {
        "file content": dict(files={"a": b"A2\n", "d/f": b"F\n"}),
        "file path": dict(files={"a2": b"A\n", "d/f": b"F\n"}),
        "executable bit": dict(execs=("a",)),
        "symlink target": dict(links={"l": "d/f"}),
        "message": dict(message="fix the other thing"),
        "message trailing newline": dict(message="fix the thing\n"),
        "committer": dict(committer="Jane <jane@example.com>"),
        "timestamp": dict(timestamp=1200000001.0),
        "timestamp fraction": dict(timestamp=1200000000.7),
        "timezone": dict(timezone=7200),
        "extra parents": dict(extra_parent=True),
        "revision property value": dict(revprops={"bugs": "https://b/2 fixed"}),
        "revision property name": dict(revprops={"bug": "https://b/1 fixed"}),
        "revision property added": dict(revprops={"bugs": "https://b/1 fixed", "x": "y"}),
        "revision property trailing newline": dict(revprops={"bugs": "https://b/1 fixed\n"}),
    }
    if "message LF vs CR" in perturb:
        BASE_CR = dict(message="fix\nthe thing")
    for what, kw in perturb.items():
        n += 1; nontrivial += 1
        ref_sha = base_sha
        if what == "message LF vs CR":
            rr = build("ref_cr", "2a", **BASE_CR)
            with rr.lock_read():
                ref_sha = StrictTestament3.from_revision(rr, b"rev-1").as_sha1()
        r = build("p_" + what.replace(" ", "_"), "2a", **kw)
        with r.lock_read():
            sha = StrictTestament3.from_revision(r, b"rev-1").as_sha1()
        if sha == ref_sha:
            bad("bounded::C41.sensitivity", "perturbed field: %s" % what, "testament unchanged", "a different testament")
    # message pairs: two revisions whose STORED messages differ must have different testaments (whitespace is content too)
    pairs = [("fix the thing", "fix the thing "), ("fix the thing", "fix the thing\t"), ("fix the thing", " fix the thing"),
             ("fix the thing", "fix  the thing"), ("one\n\ntwo", "one\n \ntwo"), ("one\ntwo", "one \ntwo"), ("one\ntwo", "one\n two"),
             ("one\ntwo", "one\ntwo\t"), ("one\ntwo", "one two"), ("a\nb\nc", "a\nc\nb")]
    for i, (ma, mb) in enumerate(pairs):
        n += 1; nontrivial += 1
        ra, rb = build("ma_%d" % i, "2a", message=ma), build("mb_%d" % i, "2a", message=mb)
        with ra.lock_read(), rb.lock_read():
            if ra.get_revision(b"rev-1").message == rb.get_revision(b"rev-1").message:
                continue          # the repository itself stores them identically: nothing to attest
            for cls in (StrictTestament3, StrictTestament, Testament):
                if cls.from_revision(ra, b"rev-1").as_text() == cls.from_revision(rb, b"rev-1").as_text():
                    bad("bounded::C41.sensitivity", "messages %r vs %r (%s)" % (ma, mb, cls.__name__), "identical testaments", "different testaments")
    # parent order (left parent vs merged parent order is part of the revision)
    n += 1; nontrivial += 1
    ra, rb = build("par_a", "2a", extra_parent=True), build("par_b", "2a", extra_parent=True, swap_parents=True)
    with ra.lock_read(), rb.lock_read():
        if ra.get_revision(b"rev-1").parent_ids != rb.get_revision(b"rev-1").parent_ids and \
                StrictTestament3.from_revision(ra, b"rev-1").as_sha1() == StrictTestament3.from_revision(rb, b"rev-1").as_sha1():
            bad("bounded::C41.sensitivity", "perturbed field: order of the merged parents", "testament unchanged", "a different testament")
    print(json.dumps({"evaluations": n, "distinct_nontrivial": nontrivial, "exhaustive": False,
                      "rule": "one base revision (two files, a directory, a symlink, properties) in 2a and pack-0.92; every listed single-field perturbation; ten message pairs differing in whitespace / line order; "
                              "non-trivial = a perturbation case", "samples": samples, "violations": viol, "label": "bounded"}))
finally:
    shutil.rmtree(base, ignore_errors=True)
