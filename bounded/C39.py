"""Bounded stand-in for C39 (labelled bounded, never counted as proved): breezy's unified diff and patcher on all pairs of small texts.
  apply(diff(a, b), a) == b;  parse(serialise(parse(d))) == parse(d);  insert/remove statistics equal the changed line counts;
  applying to a text that does not match the context is a PatchConflict, never a wrong result."""
import itertools, json, os
from io import BytesIO
from breezy import patches, diff

tier = os.environ.get("VERIF_TIER", "quick")
L = 4 if tier == "quick" else 5
viol, n, nontrivial, samples = [], 0, 0, []


def bad(name, witness, observed, expected):
    if len([v for v in viol if v["name"] == name]) < 3:
        viol.append({"name": name, "witness": witness, "observed": observed, "expected": expected})


def texts(maxlen):
    for k in range(0, maxlen + 1):
        for t in itertools.product([b"a", b"b"], repeat=k):
            lines = [x + b"\n" for x in t]
            yield lines
            if lines:
                yield lines[:-1] + [t[-1]]          # the same text without a final newline


all_texts = list(texts(L))
for a in all_texts:
    for b in all_texts:
        if a == b:
            continue
        for ctx in (0, 1, 3):
            n += 1
            out = BytesIO()
            diff.internal_diff("old", a, "new", b, out, context_lines=ctx)
            d = out.getvalue()
            try:
                ps = list(patches.parse_patches(d.splitlines(True)))
                p = ps[0]
                got = list(patches.iter_patched_from_hunks(a, p.hunks))
            except Exception as e:  # noqa
                bad("bounded::C39.apply_diff", "old %r new %r context %d" % (a, b, ctx), repr(e), repr(b))
                continue
            if len(a) + len(b) >= 3:
                nontrivial += 1
            if b"".join(got) != b"".join(b):
                bad("bounded::C39.apply_diff", "old %r new %r context %d" % (a, b, ctx), repr(got), repr(b))
            # re-serialise and re-parse
            try:
                again = list(patches.parse_patches(p.as_bytes().splitlines(True) if hasattr(p, "as_bytes") else bytes(p).splitlines(True)))[0]
                if [h.as_bytes() for h in again.hunks] != [h.as_bytes() for h in p.hunks]:
                    bad("bounded::C39.reserialise", "old %r new %r context %d" % (a, b, ctx), "different hunks", "the same hunks")
            except Exception as e:  # noqa
                bad("bounded::C39.reserialise", "old %r new %r context %d" % (a, b, ctx), repr(e), "the same hunks")
            ins = sum(1 for h in p.hunks for l in h.lines if isinstance(l, patches.InsertLine))
            rem = sum(1 for h in p.hunks for l in h.lines if isinstance(l, patches.RemoveLine))
            st = p.stats_values() if hasattr(p, "stats_values") else None
            if st is not None and tuple(st[:2]) != (ins, rem):
                bad("bounded::C39.stats", "old %r new %r" % (a, b), repr(st), repr((ins, rem)))
            # a perturbed old text: conflict, or (if the touched line is outside every hunk's range) a result that only differs there
            if a and len(a) <= 3:
                covered = set()
                for h in p.hunks:
                    covered.update(range(h.orig_pos - 1, h.orig_pos - 1 + h.orig_range))
                for i in range(len(a)):
                    a2 = list(a); a2[i] = b"Z\n" if a[i].endswith(b"\n") else b"Z"
                    n += 1
                    try:
                        got2 = list(patches.iter_patched_from_hunks(a2, p.hunks))
                    except patches.PatchConflict:
                        if i not in covered:
                            bad("bounded::C39.conflict", "old %r perturbed at %d (outside every hunk), diff to %r context %d" % (a, i, b, ctx),
                                "PatchConflict", "applies: the line is not part of any hunk")
                        continue
                    except Exception as e:  # noqa
                        bad("bounded::C39.conflict", "old %r perturbed at %d" % (a, i), repr(e), "PatchConflict or an untouched line")
                        continue
                    if i in covered:
                        # the patch names this line (as context or as a removed line) and the text disagrees: must be refused
                        bad("bounded::C39.conflict", "old %r perturbed at line %d, which the patch lists; diff to %r context %d" % (a, i, b, ctx),
                            repr(got2), "PatchConflict (a mismatching context/removed line was accepted silently)")
                    elif a2[i] not in got2:
                        bad("bounded::C39.conflict", "old %r perturbed at %d, diff to %r" % (a, i, b), repr(got2), "the untouched line carried over")
            if len(samples) < 2 and len(a) == 2 and len(b) == 3:
                samples.append({"old": repr(a), "new": repr(b), "context": ctx, "diff": d.decode()})
print(json.dumps({"evaluations": n, "distinct_nontrivial": nontrivial, "exhaustive": True,
                  "rule": "every ordered pair of different texts of at most %d lines over {a, b}, with and without a final newline, context sizes 0, 1, 3; "
                          "single-line perturbations of the old text; non-trivial = at least three lines in total" % L,
                  "samples": samples, "violations": viol, "label": "bounded"}))
