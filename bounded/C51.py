"""Bounded stand-in for C51 (labelled bounded, never counted as proved): generate_simple_plan and the plan file round trip on the real
functions, over every DAG of at most N revisions (parents among earlier revisions, at most two), every onto revision."""
import itertools, json, os
from vcsgraph.graph import Graph, DictParentsProvider
from breezy.plugins.rewrite import rebase as R
from breezy.revision import NULL_REVISION

tier = os.environ.get("VERIF_TIER", "quick")
N = 6 if tier == "quick" else 7
viol, n, nontrivial, samples = [], 0, 0, []


def bad(name, witness, observed, expected):
    if len([v for v in viol if v["name"] == name]) < 3:
        viol.append({"name": name, "witness": witness, "observed": observed, "expected": expected})


def dags(n_):
    ids = [b"r%d" % i for i in range(n_)]
    choices = []
    for i in range(n_):
        if i == 0:
            choices.append([(NULL_REVISION,)])
        else:
            opts = [(ids[j],) for j in range(i)] + [(ids[j], ids[k]) for j in range(i) for k in range(i) if j != k]
            choices.append(opts)
    for combo in itertools.product(*choices):
        yield ids, dict(zip(ids, combo))


def ancestors(pm, r):
    seen, todo = set(), [r]
    while todo:
        x = todo.pop()
        if x in seen or x == NULL_REVISION or x not in pm:
            continue
        seen.add(x); todo.extend(pm[x])
    return seen


for size in range(2, N + 1):
    for ids, pm in dags(size):
        tip = ids[-1]
        g = Graph(DictParentsProvider(pm))
        for onto in ids[:-1]:
            todo = ancestors(pm, tip) - ancestors(pm, onto)
            if not todo:
                continue
            n += 1
            if len(todo) >= 2:
                nontrivial += 1
            try:
                plan = R.generate_simple_plan(todo, None, None, onto, g, lambda old, parents: old + b"'")
            except Exception as e:  # noqa
                bad("bounded::C51.plan", "dag %r onto %r" % (pm, onto), repr(e), "a plan")
                continue
            if set(plan) != todo:
                bad("bounded::C51.rewrites_exactly_the_branchs_own_revisions", "dag %r onto %r" % (pm, onto), repr(sorted(plan)), repr(sorted(todo)))
            order = list(plan)        # insertion order = the order in which revisions are replayed
            newid = dict((old, plan[old][0]) for old in plan)
            for pos, old in enumerate(order):
                for p in plan[old][1]:
                    earlier = set(newid[o] for o in order[:pos])
                    if p in plan:                      # an OLD id of a rewritten revision must never be a new parent
                        bad("bounded::C51.parents_are_new_base_or_earlier_rewrites", "dag %r onto %r rev %r" % (pm, onto, old), "parent %r is the old id of a rewritten revision" % p, "new ids only")
                    elif p in newid.values() and p not in earlier:
                        bad("bounded::C51.parents_are_new_base_or_earlier_rewrites", "dag %r onto %r rev %r" % (pm, onto, old), "parent %r is rewritten later" % p, "earlier rewrites only")
                if plan[old][1][0] != onto and plan[old][1][0] not in set(newid[o] for o in order[:pos]):
                    bad("bounded::C51.left_parent", "dag %r onto %r rev %r" % (pm, onto, old), repr(plan[old][1]), "left parent is the new base or an earlier rewrite")
            text = R.marshall_rebase_plan((len(ids), tip), plan)
            back = R.unmarshall_rebase_plan(text)
            if back != ((len(ids), tip), plan):
                bad("bounded::C51.plan_file_round_trip", "plan %r" % plan, repr(back), repr(((len(ids), tip), plan)))
            if len(samples) < 2 and len(todo) == 3:
                samples.append({"parents": {k.decode(): [x.decode() for x in v] for k, v in pm.items()}, "onto": onto.decode(),
                                "plan": {k.decode(): [plan[k][0].decode(), [x.decode() for x in plan[k][1]]] for k in plan}})

# ---- generate_transpose_plan: a set of revisions is replaced (renamed); every descendant must be rewritten, and in the plan no new
#      parent is the OLD id of a replaced or rewritten revision (parents are the replacements / earlier rewrites or untouched revisions)
def descendants(pm, roots):
    out, changed = set(roots), True
    while changed:
        changed = False
        for r, ps in pm.items():
            if r not in out and any(p in out for p in ps):
                out.add(r); changed = True
    return out


NT = 5 if tier == "quick" else 6
for size in range(2, NT + 1):
    for ids, pm in dags(size):
        allp = dict(pm); allp.update({b"new-" + i_: pm[i_] for i_ in ids})
        g = Graph(DictParentsProvider(allp))
        for k in (1, 2):
            for ren in itertools.combinations(ids, k):
                n += 1
                renames = {r: b"new-" + r for r in ren}
                ancestry = [(r, pm[r]) for r in ids]
                try:
                    plan = R.generate_transpose_plan(iter(ancestry), renames, g, lambda old, parents: old + b"'")
                except Exception as e:  # noqa
                    bad("bounded::C51.transpose_plan", "dag %r renames %r" % (pm, renames), repr(e), "a plan")
                    continue
                must = descendants(pm, ren) - set(ren)        # the replaced revisions themselves exist already: only their descendants are rewritten
                if len(must) >= 3:
                    nontrivial += 1
                if set(plan) != must:
                    bad("bounded::C51.transpose_rewrites_exactly_the_descendants", "dag %r renames %r" % (pm, sorted(ren)), repr(sorted(plan)), repr(sorted(must)))
                    continue
                for old, (newr, newps) in plan.items():
                    if old in renames:
                        continue
                    want = tuple(renames[p_] if p_ in renames else (plan[p_][0] if p_ in plan else p_) for p_ in pm[old])
                    if tuple(newps) != want:
                        bad("bounded::C51.transpose_parents_are_the_replacements", "dag %r renames %r revision %r" % (pm, sorted(ren), old),
                            repr(newps), repr(want) + " (every replaced or rewritten parent by its new id)")
                text = R.marshall_rebase_plan((len(ids), ids[-1]), plan)
                if R.unmarshall_rebase_plan(text) != ((len(ids), ids[-1]), plan):
                    bad("bounded::C51.plan_file_round_trip", "plan %r" % plan, "differs", "identical")
print(json.dumps({"evaluations": n, "distinct_nontrivial": nontrivial, "exhaustive": True,
                  "rule": "every DAG of 2..%d revisions (each revision has one or two parents among the earlier ones) x every onto revision with a non-empty "
                          "set to replay; non-trivial = at least two revisions to replay; transpose plans: every DAG up to %d revisions x every 1 or 2 renamed revisions" % (N, NT),
                  "samples": samples, "violations": viol, "label": "bounded"}))
