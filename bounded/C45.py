"""Bounded stand-in for C45 (labelled bounded, never counted as proved): the real eol ContentFilters, exhaustively over byte strings
on the alphabet {CR, LF, NUL, 'a'}.

Contract per eol setting (reader = working tree -> repository, writer = repository -> working tree):
  canonical content c (no NUL, reader(c) == c) satisfies reader(writer(c)) == c;  content with NUL passes both unchanged."""
import itertools, json, os
from breezy.filters import eol

tier = os.environ.get("VERIF_TIER", "quick")
L = 8 if tier == "quick" else 10
ALPH = [b"\r", b"\n", b"\x00", b"a"]
viol, n, nontrivial, samples, n_f8, n_chunk = [], 0, 0, [], 0, 0
LC = 6 if tier == "quick" else 7


def chunkings(k):
    """every way to cut a string of length k into two or three chunks (empty chunks included)"""
    for a in range(0, k + 1):
        yield (0, a, k)
        for b in range(a, k + 1):
            yield (0, a, b, k)


settings = [k for k in eol._eol_filter_stack_map if k != "exact"]
for k in range(0, L + 1):
    for t in itertools.product(ALPH, repeat=k):
        c = b"".join(t)
        for key in settings:
            (f,) = eol._eol_filter_stack_map[key]
            n += 1
            if b"\x00" in c:
                if f.reader([c]) != [c] or f.writer([c]) != [c]:
                    if len(viol) < 6:
                        viol.append({"name": "bounded::C45.binary_untouched", "witness": "setting %s content %r" % (key, c),
                                     "observed": repr((f.reader([c]), f.writer([c]))), "expected": "unchanged"})
                continue
            if b"".join(f.reader([c])) != c:
                continue                      # not in canonical repository form for this setting
            if b"\r" in c or b"\n" in c:
                nontrivial += 1
            back = b"".join(f.reader(f.writer([c])))
            f8 = b"\r\r\n" in c and key in ("native-with-crlf-in-repo", "lf-with-crlf-in-repo")
            if back != c and ((f8 and n_f8 < 2) or (not f8 and len(viol) < 8)):
                n_f8 += 1 if f8 else 0
                viol.append({"name": "bounded::C45.round_trip", "witness": "setting %s canonical content %r" % (key, c),
                             "observed": repr(back), "expected": repr(c)})
            # content reaches the filters in chunks (file_iterator blocks, line lists): the result must not depend on where the cuts fall
            if k <= LC:
                whole_w, whole_r = b"".join(f.writer([c])), b"".join(f.reader([c]))
                for cuts in chunkings(k):
                    chunks = [c[a:b] for a, b in zip(cuts, cuts[1:])]
                    n += 1
                    gw, gr = b"".join(f.writer(chunks)), b"".join(f.reader(chunks))
                    if (gw != whole_w or gr != whole_r) and n_chunk < 4:
                        n_chunk += 1
                        viol.append({"name": "bounded::C45.chunking_independent", "witness": "setting %s content %r in chunks %r" % (key, c, chunks),
                                     "observed": repr((gw, gr)), "expected": repr((whole_w, whole_r))})
            if k == 3 and key == "crlf" and len(samples) < 3:
                samples.append({"setting": key, "canonical": repr(c), "written": repr(b"".join(f.writer([c])))})
print(json.dumps({"evaluations": n, "distinct_nontrivial": nontrivial, "exhaustive": True,
                  "rule": "every byte string over {CR, LF, NUL, a} up to length %d x 6 eol settings; non-trivial = canonical text containing CR or LF; "
                          "canonical strings up to length %d also in every 2- and 3-chunk cut (result must equal the single-chunk result)" % (L, LC),
                  "samples": samples, "violations": viol, "label": "bounded"}))
