"""Bounded stand-in for C47 (labelled bounded, never counted as proved): the laws of the statement on the real (Rust-backed) osutils
functions, exhaustively over small domains."""
import itertools, json, os
from breezy import osutils
from breezy.osutils import format_highres_date, unpack_highres_date

tier = os.environ.get("VERIF_TIER", "quick")
viol, n, nontrivial, samples = [], 0, 0, []


def bad(name, witness, observed, expected):
    if len([v for v in viol if v["name"] == name]) < 3:
        viol.append({"name": name, "witness": witness, "observed": observed, "expected": expected})


def inside(d, p):          # reference containment: equal, or below it component-wise ('' contains everything)
    return d == "" or p == d or p.startswith(d + "/")


# 1. minimum_path_selection / is_inside / is_inside_any over all sets of paths with <= 3 components on {a, b} (plus a sibling-prefix 'ab')
comps = ["a", "b", "ab"]
paths = ["/".join(t) for k in range(1, 4) for t in itertools.product(comps, repeat=k)]
paths = paths[:39] if tier == "quick" else paths
sel_universe = [""] + paths          # "" is the tree root: it contains every path
for k in range(0, 4):
    for sel in itertools.combinations(sel_universe, k):
        n += 1
        got = osutils.minimum_path_selection(list(sel))
        if k >= 2:
            nontrivial += 1
        ok = set(got) <= set(sel) and all(sum(1 for s in got if inside(s, p)) == 1 for p in sel) \
            and not any(a != b and inside(a, b) for a in got for b in got)
        if not ok:
            bad("bounded::C47.minimum_path_selection", repr(sel), repr(sorted(got)), "a subset covering each input exactly once, no member inside another")
        for p in paths[:12]:
            if osutils.is_inside_any(list(sel), p) != any(inside(d, p) for d in sel):
                bad("bounded::C47.is_inside_any", "dirs %r path %r" % (sel, p), repr(osutils.is_inside_any(list(sel), p)), repr(any(inside(d, p) for d in sel)))
for d in paths + [""]:
    for p in paths:
        n += 1
        if osutils.is_inside(d, p) != inside(d, p):
            bad("bounded::C47.is_inside", "dir %r path %r" % (d, p), repr(osutils.is_inside(d, p)), repr(inside(d, p)))
# 2. splitpath / joinpath on normalised relative paths
for p in paths:
    n += 1
    if osutils.joinpath(osutils.splitpath(p)) != p:
        bad("bounded::C47.split_join_path", repr(p), repr(osutils.joinpath(osutils.splitpath(p))), repr(p))
# 3. split_lines / chunks_to_lines: concatenation gives the text back, independent of the chunking
ALPH = [b"a", b"\n", b"\r"]
L = 6 if tier == "quick" else 8
for k in range(0, L + 1):
    for t in itertools.product(ALPH, repeat=k):
        text = b"".join(t); n += 1
        lines = osutils.split_lines(text)
        if b"".join(lines) != text or any(b"\n" in ln[:-1] for ln in lines) or any(not ln for ln in lines):
            bad("bounded::C47.split_lines", repr(text), repr(lines), "lines that concatenate to the text, each ending at its first LF")
        if k <= 5:
            for cut in range(0, k + 1):
                for cut2 in range(cut, k + 1):
                    chunks = [c for c in (text[:cut], text[cut:cut2], text[cut2:])]
                    n += 1; nontrivial += 1 if b"\n" in text else 0
                    got = osutils.chunks_to_lines([c for c in chunks if c] or [])
                    if got != lines:
                        bad("bounded::C47.chunks_to_lines", "text %r chunks %r" % (text, chunks), repr(got), repr(lines))
# 4. high-resolution dates: format then unpack is the identity (to the printed precision)
for t in [0.0, 1.0, 1234567.5, 1120153132.350850105, 1e9 + 0.000000001, 86399.999999999, 2 ** 31 + 0.25]:
    for off in (0, 3600, -3600, 5 * 3600 + 1800, -(9 * 3600 + 1800), 14 * 3600):
        n += 1
        s = format_highres_date(t, off)
        try:
            t2, off2 = unpack_highres_date(s)
        except Exception as e:  # noqa
            t2, off2 = None, repr(e)
        if t2 is None or off2 != off or abs(t2 - t) > 1e-6:
            bad("bounded::C47.highres_date", "t=%r offset=%r -> %r" % (t, off, s), repr((t2, off2)), repr((t, off)))
        if len(samples) < 2:
            samples.append({"t": t, "offset": off, "formatted": s})
print(json.dumps({"evaluations": n, "distinct_nontrivial": nontrivial, "exhaustive": True,
                  "rule": "path sets of <= 3 paths from %d paths with <= 3 components over {a, b, ab}; byte strings over {a, LF, CR} up to length %d with every "
                          "3-way chunking up to length 5; a grid of timestamps and offsets; non-trivial = >= 2 paths, or text containing LF" % (len(paths), L),
                  "samples": samples, "violations": viol, "label": "bounded"}))
