"""Bounded stand-in for the reverse_by_depth part of C25 (labelled bounded, never counted as proved): all merge-sorted depth profiles up
to length N: the result is a permutation, mainline (depth 0) revisions come out in reversed order with their merged revisions still
attached after them, and reversing twice gives the original back."""
import itertools, json, os
from breezy import log

tier = os.environ.get("VERIF_TIER", "quick")
N = 8 if tier == "quick" else 10
viol, n, nontrivial, samples = [], 0, 0, []


def profiles(k):
    """depth sequences as merge_sort produces them: start at 0, each step goes at most one level deeper"""
    def rec(prefix):
        if len(prefix) == k:
            yield tuple(prefix)
            return
        for d in range(0, prefix[-1] + 2):
            yield from rec(prefix + [d])
    if k:
        yield from rec([0])


def groups(seq):
    """mainline revision -> the revisions merged by it (those following it until the next depth-0 revision)"""
    out, cur = [], None
    for r in seq:
        if r[2] == 0:
            cur = [r]; out.append(cur)
        else:
            cur.append(r)
    return out


for k in range(1, N + 1):
    for prof in profiles(k):
        n += 1
        revs = [(b"r%d" % i, "%d" % i, d) for i, d in enumerate(prof)]
        got = log.reverse_by_depth(list(revs))
        if any(d > 0 for d in prof):
            nontrivial += 1
        ok = sorted(got) == sorted(revs)
        g0, g1 = groups(revs), groups(got)
        ok = ok and [g[0] for g in g1] == [g[0] for g in reversed(g0)] and all(sorted(a) == sorted(b) for a, b in zip(g1, reversed(g0)))
        if not ok and len(viol) < 4:
            viol.append({"name": "bounded::C25.reverse_by_depth", "witness": "depths %r" % (prof,), "observed": repr([r[0] for r in got]),
                         "expected": "a permutation with the mainline reversed and each merge group kept behind its mainline revision"})
        back = log.reverse_by_depth(list(got))
        if back != revs and len([v for v in viol if v["name"].endswith("involution")]) < 3:
            viol.append({"name": "bounded::C25.reverse_by_depth_involution", "witness": "depths %r" % (prof,), "observed": repr([r[0] for r in back]),
                         "expected": repr([r[0] for r in revs])})
        if len(samples) < 2 and k == 5 and max(prof) == 2:
            samples.append({"depths": prof, "reversed": [r[0].decode() for r in got]})
print(json.dumps({"evaluations": n, "distinct_nontrivial": nontrivial, "exhaustive": True,
                  "rule": "every depth profile of length 1..%d that starts at depth 0 and goes at most one level deeper per step; non-trivial = contains a merged revision" % N,
                  "samples": samples, "violations": viol, "label": "bounded"}))
