"""Bounded stand-in for the reverse_by_depth part of C25 (labelled bounded, never counted as proved): all merge-sorted depth profiles up
to length N: the result is a permutation, mainline (depth 0) revisions come out in reversed order with their merged revisions still
attached after them, and reversing twice gives the original back."""
import itertools, json, os
from breezy import log

tier = os.environ.get("VERIF_TIER", "quick")
N = 8 if tier == "quick" else 10
viol, n, nontrivial, samples = [], 0, 0, []


def profiles(k):
    """depth sequences as merge_sort produces them: start at 0, each step goes at most one level deeper"""
    def rec(prefix):
        if len(prefix) == k:
            yield tuple(prefix)
            return
        for d in range(0, prefix[-1] + 2):
            yield from rec(prefix + [d])
    if k:
        yield from rec([0])


def groups(seq):
    """mainline revision -> the revisions merged by it (those following it until the next depth-0 revision)"""
    out, cur = [], None
    for r in seq:
        if r[2] == 0:
            cur = [r]; out.append(cur)
        else:
            cur.append(r)
    return out


for k in range(1, N + 1):
    for prof in profiles(k):
        n += 1
        revs = [(b"r%d" % i, "%d" % i, d) for i, d in enumerate(prof)]
        got = log.reverse_by_depth(list(revs))
        if any(d > 0 for d in prof):
            nontrivial += 1
        ok = sorted(got) == sorted(revs)
        g0, g1 = groups(revs), groups(got)
        ok = ok and [g[0] for g in g1] == [g[0] for g in reversed(g0)] and all(sorted(a) == sorted(b) for a, b in zip(g1, reversed(g0)))
        if not ok and len(viol) < 4:
            viol.append({"name": "bounded::C25.reverse_by_depth", "witness": "depths %r" % (prof,), "observed": repr([r[0] for r in got]),
                         "expected": "a permutation with the mainline reversed and each merge group kept behind its mainline revision"})
        back = log.reverse_by_depth(list(got))
        if back != revs and len([v for v in viol if v["name"].endswith("involution")]) < 3:
            viol.append({"name": "bounded::C25.reverse_by_depth_involution", "witness": "depths %r" % (prof,), "observed": repr([r[0] for r in back]),
                         "expected": repr([r[0] for r in revs])})
        if len(samples) < 2 and k == 5 and max(prof) == 2:
            samples.append({"depths": prof, "reversed": [r[0].decode() for r in got]})

# ---- per-file log (_filter_revisions_touching_path): for every depth profile and every set of revisions that modified the file, the
#      revisions listed are exactly the modifying revisions plus, for each of them, the revisions that merged it (one per shallower
#      level: the nearest earlier revision of that level with nothing as shallow in between); with include_merges=False only the
#      mainline ones. In particular the MAINLINE revisions listed are those whose own change or merged block touches the file - what
#      comparing trees along the mainline finds (the statement's "same mainline revisions").
class _Graph:
    def __init__(self, modified):
        self.modified = modified

    def get_parent_map(self, keys):
        return {k: () for k in keys if k[1] in self.modified}


class _Tree:
    def path2id(self, path):
        return b"file-id"


class _Repo:
    def __init__(self, modified):
        self.g = _Graph(modified)

    def get_file_graph(self):
        return self.g

    def revision_tree(self, rev_id):
        return _Tree()


class _Branch:
    def __init__(self, modified):
        self.repository = _Repo(modified)


def expected_listing(revs, modified, include_merges):
    want = set()
    for i, r in enumerate(revs):
        if r[0] not in modified:
            continue
        want.add(i)
        for level in range(r[2]):
            # nearest earlier revision at this level with nothing as shallow (<= level) between it and i
            j = i - 1
            while j >= 0 and revs[j][2] > level:
                j -= 1
            if j >= 0 and revs[j][2] == level:
                want.add(j)
    return set(i for i in want if include_merges or revs[i][2] == 0)


NF = 6 if tier == "quick" else 8
n_file = 0
for k in range(1, NF + 1):
    for prof in profiles(k):
        revs = [(b"r%d" % i, "%d" % i, d) for i, d in enumerate(prof)]
        for mask in range(1, 2 ** k):
            modified = set(revs[i][0] for i in range(k) if mask >> i & 1)
            for include_merges in (True, False):
                n += 1; n_file += 1
                got = log._filter_revisions_touching_path(_Branch(modified), "f", list(revs), include_merges=include_merges)
                want = expected_listing(revs, modified, include_merges)
                gi = [revs.index(g) for g in got]
                if (sorted(gi) != sorted(want) or len(set(gi)) != len(gi)) and len([v for v in viol if "per_file" in v["name"]]) < 4:
                    viol.append({"name": "bounded::C25.per_file_log", "witness": "depths %r modified %r include_merges=%s" % (
                        prof, sorted(m.decode() for m in modified), include_merges), "observed": repr(sorted(gi)), "expected": repr(sorted(want))})
print(json.dumps({"evaluations": n, "distinct_nontrivial": nontrivial, "exhaustive": True,
                  "rule": "every depth profile of length 1..%d that starts at depth 0 and goes at most one level deeper per step; non-trivial = contains a merged revision; per-file log: every profile up to length %d x every non-empty set of modifying revisions x include_merges" % (N, NF),
                  "samples": samples, "violations": viol, "label": "bounded"}))
