# C11 - adding files versions exactly the intended paths. The recursive add walk of _SmartAddHelper.add is a worklist loop that
# appends to the list it iterates; the decisions it takes are per item, and those are under contract here (block contracts):
#   (A) a named path is versioned whatever the ignore rules say, unless it is versioned already; control files are refused;
#   (B) an item of the walk becomes versioned iff it is not versioned yet, is not skipped by the add action, is of a versionable kind,
#       has no CR/LF in its path, is not a conflict helper file and is not a nested tree;
#   (C) a directory entry is queued for the walk iff it is not a control file and is either versioned already or not ignored.
IE = Opaque("InventoryEntry")
always_truthy(IE, "inventory entries define neither __bool__ nor __len__")
attr_sort("InventoryEntry.kind", STR)
attr_sort("InventoryEntry.file_id", BYTES)
Control = ufunc("Control", STR, BOOL)              # tree.is_control_filename
AbsOf = ufunc("AbsOf", STR, STR)
KindOnDisk = ufunc("KindOnDisk", STR, STR)         # kind of what is at the absolute path
Skip = ufunc("Skip", STR, STR, BOOL)               # AddAction.skip_file(tree, abspath, kind, stat)
Versionable = ufunc("Versionable", STR, BOOL)      # InventoryEntry.versionable_kind
CRLF = ufunc("CRLF", STR, BOOL)                    # the path contains \r or \n
NestedTree = ufunc("NestedTree", STR, BOOL)        # a control directory (of any format) is found at the absolute path
IgnoredBy = ufunc("IgnoredBy", STR, Opt(STR))      # tree.is_ignored(path): the matching pattern or None
GetIe = ufunc("GetIe", STR, Opt(IE))               # the current inventory entry at an inventory path (or None)
Child = ufunc("Child", BYTES, STR, Opt(IE))        # root_inventory.get_child(file_id, name)
NormName = ufunc("NormName", STR, STR)
FixCase = ufunc("FixCase", STR, STR)
Join = ufunc("Join", STR, STR, STR)
exceptions(ForbiddenControlFileError="Exception", NotBranchError="Exception", UnsupportedFormatError="Exception", OSError="Exception")
HELPER = cls("_SmartAddHelper", fields={"tree": ANY, "action": ANY, "conflicts_related": SetS(STR), "ignored": ANY,
                                        "_invdelta": MapS(STR, Tup(ANY, ANY, ANY, Opt(IE)))})
assumed("self.tree.is_control_filename", pure=True, no_raise=True, returns=lambda c: Control(c.args[0]))
assumed("self.tree.abspath", pure=True, no_raise=True, returns=lambda c: AbsOf(c.args[0]))
assumed("file_kind", pure=True, returns=lambda c: KindOnDisk(c.args[0]), raises={"OSError": None})
assumed("file_stat", pure=True, raises={"OSError": None})
assumed("osutils.file_kind_from_stat_mode", pure=True, no_raise=True, returns=lambda c: KindOnDisk(c.abspath))
assumed("osutils.normalized_filename", pure=True, result=Tup(STR, BOOL), ensures=lambda c: c.result[0] == NormName(c.args[0]), raises={"Exception": None})
assumed("self.tree._fix_case_of_inventory_path", pure=True, no_raise=True, returns=lambda c: FixCase(c.args[0]))
assumed("self._get_ie", pure=True, returns=lambda c: GetIe(c.args[0]), raises={"Exception": None})
assumed("self._add_one_and_parent", result=IE, raises={"Exception": "unchanged"},
        note="versions the path (and any unversioned parent directories): the only way a path becomes versioned in this walk")
assumed("self.action.skip_file", pure=True, no_raise=True, returns=lambda c: Skip(c.args[1], c.args[2]))
assumed("_mod_inventory.InventoryEntry.versionable_kind", pure=True, no_raise=True, returns=lambda c: Versionable(c.args[0]))
MATCH = Opaque("Match")
always_truthy(MATCH, "re.Match objects are always true")
assumed("illegalpath_re.search", pure=True, no_raise=True, result=Opt(MATCH), ensures=lambda c: Not(c.result.is_none) == CRLF(c.args[0]))
assumed("_mod_transport.get_transport_from_path", pure=True, no_raise=True)
assumed("controldir.ControlDirFormat.find_format", pure=True, ensures=lambda c: NestedTree(c.abspath),
        raises={"NotBranchError": lambda c: Not(NestedTree(c.abspath)), "UnsupportedFormatError": lambda c: NestedTree(c.abspath)},
        note="a control directory of a known format is found, one of an unknown format is found (UnsupportedFormatError), or none (NotBranchError)")
assumed("self.tree.is_ignored", pure=True, no_raise=True, returns=lambda c: IgnoredBy(c.args[0]))
assumed("self.tree.root_inventory.get_child", pure=True, no_raise=True, returns=lambda c: Child(c.args[0], c.args[1]))
assumed("osutils.pathjoin", pure=True, no_raise=True, returns=lambda c: Join(c.args[0], c.args[1]))
assumed("self.ignored.setdefault(ignore_glob, []).append", result=NONE, no_raise=True, note="the report of ignored paths")
assumed(rx(r"^self\._convert_to_directory$"), result=IE, raises={"Exception": "unchanged"})
pure("trace.warning", "trace.mutter")
A = "breezy/bzr/inventorytree.py::_SmartAddHelper.add"
LOG = {r"trace\.(warning|mutter)": "messages to the user", r"self\.ignored\.setdefault": "the report of ignored paths"}

# (A) named paths
target(A, variant="named", block=(r"if self\.tree\.is_control_filename\(filepath\)", r"(?m)^\s*if this_ie is None:$"),
       params=dict(filepath=STR, user_dirs=ANY, file_list=ANY, recurse=BOOL), locals=dict(this_ie=Opt(IE), inv_path=STR, kind=STR, abspath=STR),
       ensures={"a_named_path_is_versioned_unless_it_is_already": lambda c: And(
                    Not(Control(c.old.filepath)),
                    lift(c.calls("self._add_one_and_parent") == 1) == GetIe(FixCase(NormName(c.old.filepath))).is_none,
                    Not(c.this_ie.is_none)),
                "ignore_rules_are_not_consulted_for_named_paths": lambda c: lift(c.calls("self.tree.is_ignored") == 0 and c.calls("self.action.skip_file") == 0)},
       raises={"ForbiddenControlFileError": lambda c: And(Control(c.old.filepath), lift(c.calls("self._add_one_and_parent") == 0)),
               "Exception": True},
       canary=lambda c: lift(c.calls("self._add_one_and_parent") == 0), equivalent_mutants=LOG,
       note="block: one explicitly named path")


# (B) one item of the recursive walk
def becomes_versioned(c):
    d, ab = c.old.directory, AbsOf(c.old.directory)
    kind = If(c.old.this_ie.is_none, KindOnDisk(ab), attr(c.old.this_ie.val, "kind"))
    return And(c.old.this_ie.is_none, Not(Skip(ab, kind)), Versionable(kind), Not(CRLF(d)), Not(In(d, c.self.conflicts_related)),
               Not(And(kind == lift("directory"), d != lift(""), NestedTree(ab))))


target(A, variant="walk-item", block=(r"^\s*stat_value = None", r"(?m)^\s*if this_ie is not None:$"),
       params=dict(directory=STR, inv_path=STR, this_ie=Opt(IE), parent_ie=Opt(IE), abspath=STR, illegalpath_re=ANY, things_to_add=ANY),
       locals=dict(kind=STR, sub_tree=BOOL, stat_value=ANY),
       requires=lambda c: c.abspath == AbsOf(c.directory),
       ensures={"versioned_exactly_when_intended": lambda c: lift(c.calls("self._add_one_and_parent") == 1) == becomes_versioned(c),
                "at_most_once": lambda c: lift(c.calls("self._add_one_and_parent") <= 1),
                "already_versioned_entries_are_left_alone": lambda c: Implies(Not(c.old.this_ie.is_none), lift(c.calls("self._add_one_and_parent") == 0))},
       raises={"Exception": lambda c: lift(c.calls("self._add_one_and_parent") == 0) if False else TRUE},
       canary=lambda c: lift(c.calls("self._add_one_and_parent") == 0), equivalent_mutants=LOG,
       note="block: the decision whether one item of the walk becomes versioned")

# (C) one directory entry: queued for the walk or not
target(A, variant="queue-child", block=(r"^\s*if self\.tree\.is_control_filename\(subp\)", r"(?m)^\s*if sub_ie is not None:$"),
       params=dict(subp=STR, subf=STR, inv_f=STR, inv_path=STR, this_ie=IE, things_to_add=Seq(Tup(STR, STR, Opt(IE), IE)), directory=STR),
       locals=dict(sub_ie=Opt(IE), sub_invp=STR, ignore_glob=Opt(STR)),
       ensures={"queued_iff_not_control_and_versioned_or_not_ignored": lambda c: Len(c.things_to_add) == Len(c.old.things_to_add) + If(
                    And(Not(Control(c.old.subp)),
                        Or(Not(known_entry(c).is_none), IgnoredBy(c.old.subp).is_none)), 1, 0),
                "queued_with_its_entry_if_versioned": lambda c: Implies(
                    Len(c.things_to_add) == Len(c.old.things_to_add) + 1,
                    And(c.things_to_add[Len(c.things_to_add) - 1][0] == c.old.subp, c.things_to_add[Len(c.things_to_add) - 1][2] == known_entry(c))),
                "nothing_is_versioned_here": lambda c: lift(c.calls("self._add_one_and_parent") == 0)},
       raises={}, canary=lambda c: Len(c.things_to_add) == Len(c.old.things_to_add), equivalent_mutants=LOG,
       note="block: whether one directory entry enters the walk")


def known_entry(c):
    p = Join(c.old.inv_path, c.old.inv_f)
    d = c.self._invdelta
    return If(In(p, d), d[p][3], Child(attr(c.old.this_ie, "file_id"), c.old.inv_f))


# (D) which named directories start a walk: in SORTED order (a parent sorts before its descendants), each one unless the one before it
#     already covers it - so a directory named together with one of its descendants is walked whatever the order they were given in
UD = MapS(STR, Tup(STR, Opt(IE)))
Covers = ufunc("Covers", STR, STR, BOOL)           # osutils.is_inside_or_parent_of_any([a], b)
assumed("is_inside", pure=True, no_raise=True, returns=lambda c: Covers(c.args[0][0], c.args[1]))
target("breezy/bzr/inventorytree.py::_SmartAddHelper._gather_dirs_to_add", params=dict(user_dirs=UD), generator=Tup(STR, STR, Opt(IE), ANY),
       locals=dict(prev_dir=Opt(STR)),
       loops={1: loop(r"for path in sorted\(user_dirs\)", index="i", prefix="seen", inv=lambda c: And(
           c.user_dirs == c.old.user_dirs,
           If(c.i == 0, And(c.prev_dir.is_none, Len(c.g.yielded) == 0),
              And(Not(c.prev_dir.is_none), c.prev_dir.val == c.seen[c.i - 1], Len(c.g.yielded) >= 1, c.g.yielded[0][0] == c.seen[0]))))},
       ensures={"named_directories_always_start_at_least_one_walk": lambda c: Implies(Len(c.g.yielded) == 0, c.prev_dir.is_none)},
       raises={}, canary=lambda c: Len(c.g.yielded) == 0,
       equivalent_mutants={r"not is_inside|prev_dir is None or|prev_dir = path": "WHICH later directories are skipped as covered is decided natively "
                           "(replay/C11.py: a directory named with a descendant, in every order)"},
       note="the walk roots are taken in sorted order, parents first")

undecided("the worklist closure of the walk ('every unversioned descendant of a named directory is visited'): the loop appends to the list "
          "it iterates; only the per-item decisions are under contract")
undecided("_add_one_and_parent (parents are versioned first), conflicts_related (built from the tree's conflicts), the ignore rules themselves "
          "(C48), AddAction.skip_file implementations, git trees: GitWorkingTree.smart_add (bounded part)")
