# C17 - three-way merge laws for names / parents and executable bits (per entry), modular on the three-way rule of C18.
VAL = Opt(STR)
W = Enum("Winner", ["this", "other", "conflict"])


def tw(b, o, t):
    """Merge3Merger._three_way (verified against its laws in C18), as a specification function"""
    return If(eq(b, o), lift("this"), If(And(Not(eq(t, b)), Not(eq(t, o))), lift("conflict"), If(eq(t, o), lift("this"), lift("other"))))


assumed("resolver", pure=True, no_raise=True, returns=lambda c: tw(c.args[0], c.args[1], c.args[2]),
        note="the resolver handed in is Merge3Merger._three_way (its LCA extension agrees with it when every LCA carries the base value: C18)")
Dir = ufunc("Dir", VAL, VAL)
assumed("_path_dirname", pure=True, no_raise=True, returns=lambda c: Dir(c.args[0]))
PTI = ufunc("ParentTransId", ANY, VAL, STR)
assumed("self._parent_trans_id", pure=True, returns=lambda c: PTI(c.args[0], c.args[1]), raises={"Exception": None})
ghost(adjusted=Seq(Tup(VAL, STR)), execset=Seq(Opt(BOOL)))
assumed("self.tt.adjust_path", result=NONE, modifies=["g.adjusted"],
        ensures=lambda c: c.g.adjusted == c.old.g.adjusted + lift([Tup(VAL, STR).mk(c.args[0], c.args[1])], Seq(Tup(VAL, STR))),
        raises={"Exception": "unchanged"}, note="schedules the rename / reparenting of the entry (recorded: new name, new parent)")
const("transform.ROOT_PARENT", "root-parent")
MM = cls("Merge3Merger", fields={"_raw_conflicts": Seq(ANY), "winner_idx": MapS(STR, INT), "_lca_trees": NONE, "tt": ANY,
                                 "base_tree": ANY, "other_tree": ANY, "this_tree": ANY})
M = "breezy/merge.py::Merge3Merger."


def idx_ok(c):
    w = c.self.winner_idx
    return And(In(lift("this"), w), In(lift("other"), w), In(lift("conflict"), w), w[lift("this")] == 2, w[lift("other")] == 1, w[lift("conflict")] == 1)


target(M + "_merge_names", params=dict(trans_id=STR, paths=Tup(VAL, VAL, VAL), parents=Tup(VAL, VAL, VAL), names=Tup(VAL, VAL, VAL), resolver=ANY),
       requires=lambda c: And(idx_ok(c), Not(c.names[2].is_none)),       # the entry exists in THIS (the law's setting)
       modifies=["self._raw_conflicts", "g.adjusted"],
       ensures={
           "other_equal_to_base_changes_nothing": lambda c: Implies(
               And(eq(c.old.names[1], c.old.names[0]), eq(c.old.parents[1], c.old.parents[0])),
               And(lift(c.calls("self.tt.adjust_path") == 0), c.self._raw_conflicts == c.old.self._raw_conflicts)),
           "identical_changes_change_nothing": lambda c: Implies(
               And(eq(c.old.names[1], c.old.names[2]), eq(c.old.parents[1], c.old.parents[2])),
               And(lift(c.calls("self.tt.adjust_path") == 0), c.self._raw_conflicts == c.old.self._raw_conflicts)),
           "this_equal_to_base_takes_others_name_and_parent_without_conflict": lambda c: Implies(
               And(eq(c.old.names[2], c.old.names[0]), eq(c.old.parents[2], c.old.parents[0]),
                   Or(Not(eq(c.old.names[1], c.old.names[0])), Not(eq(c.old.parents[1], c.old.parents[0]))), Not(c.old.paths[1].is_none),
                   Not(c.old.names[1].is_none)),        # OTHER has the entry (a path and a name)
               And(c.self._raw_conflicts == c.old.self._raw_conflicts,
                   # exactly one adjustment: OTHER's name; OTHER's directory when OTHER moved it, otherwise the directory THIS has it in
                   c.g.adjusted == c.old.g.adjusted + lift([Tup(VAL, STR).mk(
                       c.old.names[1],
                       If(eq(c.old.parents[1], c.old.parents[0]),
                          If(Dir(c.old.paths[2]).is_none, lift("root-parent"), PTI(c.self.this_tree, Dir(c.old.paths[2]))),
                          If(Dir(c.old.paths[1]).is_none, lift("root-parent"), PTI(c.self.other_tree, Dir(c.old.paths[1])))))],
                       Seq(Tup(VAL, STR))))),
           "a_conflict_is_recorded_only_when_both_sides_changed_differently": lambda c: Implies(
               Len(c.self._raw_conflicts) > Len(c.old.self._raw_conflicts),
               Or(And(Not(eq(c.old.names[2], c.old.names[0])), Not(eq(c.old.names[1], c.old.names[0])), Not(eq(c.old.names[1], c.old.names[2]))),
                  And(Not(eq(c.old.parents[2], c.old.parents[0])), Not(eq(c.old.parents[1], c.old.parents[0])), Not(eq(c.old.parents[1], c.old.parents[2]))))),
           "different_changes_on_both_sides_are_reported_as_a_conflict": lambda c: Implies(
               Or(And(Not(eq(c.old.names[2], c.old.names[0])), Not(eq(c.old.names[1], c.old.names[0])), Not(eq(c.old.names[1], c.old.names[2]))),
                  And(Not(eq(c.old.parents[2], c.old.parents[0])), Not(eq(c.old.parents[1], c.old.parents[0])), Not(eq(c.old.parents[1], c.old.parents[2])))),
               Len(c.self._raw_conflicts) == Len(c.old.self._raw_conflicts) + 1)},
       raises={"Exception": True}, canary=lambda c: c.self._raw_conflicts == c.old.self._raw_conflicts,
       equivalent_mutants={r'name_winner = "other"|parent_id_winner = "other"|if this_name is None': "the branch for entries absent from THIS (outside the law's setting: precondition)"})

# ---- the executable bit
EX = Opt(BOOL)
assumed("self.tt.final_kind", pure=True, result=VAL, raises={"Exception": None})
assumed("self.tt.set_executability", result=NONE, modifies=["g.execset"],
        ensures=lambda c: c.g.execset == c.old.g.execset + lift([c.args[0]], Seq(Opt(BOOL))), raises={"Exception": "unchanged"})
target(M + "_merge_executable", params=dict(paths=Tup(VAL, VAL, VAL), trans_id=STR, executable=Tup(EX, EX, EX), file_status=STR, resolver=ANY),
       requires=lambda c: Or(Not(c.paths[0].is_none), Not(c.paths[1].is_none), Not(c.paths[2].is_none)),    # the entry exists in at least one tree
       modifies=["g.execset"],
       ensures={
           "other_equal_to_base_keeps_this_bit": lambda c: Implies(
               And(eq(c.old.executable[1], c.old.executable[0]), c.old.file_status != lift("modified")),
               c.g.execset == c.old.g.execset),
           "this_equal_to_base_takes_others_bit": lambda c: Implies(
               And(eq(c.old.executable[2], c.old.executable[0]), Not(eq(c.old.executable[1], c.old.executable[0])),
                   Not(c.old.paths[1].is_none), Not(c.old.executable[1].is_none), c.old.file_status != lift("deleted"),
                   lift(c.calls("self.tt.set_executability") > 0)),
               c.g.execset == c.old.g.execset + lift([c.old.executable[1]], Seq(Opt(BOOL)))),
           "identical_changes_keep_the_bit": lambda c: Implies(
               And(eq(c.old.executable[1], c.old.executable[2]), c.old.file_status != lift("modified")), c.g.execset == c.old.g.execset),
           "deleted_files_get_no_bit": lambda c: Implies(c.old.file_status == lift("deleted"), c.g.execset == c.old.g.execset),
           "at_most_one_setting": lambda c: Len(c.g.execset) <= Len(c.old.g.execset) + 1,
           "an_unknown_bit_is_never_set": lambda c: Implies(Len(c.g.execset) > Len(c.old.g.execset), Not(c.g.execset[Len(c.g.execset) - 1].is_none))},
       raises={"Exception": True}, canary=lambda c: c.g.execset == c.old.g.execset)

undecided("composition over whole trees (_compute_transform, _entries3/_entries_lca over external tree iteration), content merges (C19 for text), "
          "weave and LCA merge types, git trees")
