# C20 - conflict records persist and resolve faithfully: selecting conflicts by path is an order-preserving partition.

CONFLICT = Opaque("Conflict")
CL = Seq(CONFLICT)
attr_sort("Conflict.path", Opt(STR))
attr_sort("Conflict.conflict_path", Opt(STR))
attr_sort("Conflict.file_id", Opt(BYTES))
attr_sort("Conflict.conflict_file_id", Opt(BYTES))
PS0 = ufunc("ps0", SetS(STR))            # the requested paths, as a set
RC0 = ufunc("rc0", BOOL)                 # the recurse flag
IDS0 = ufunc("ids0", MapS(BYTES, STR))   # file id -> requested path (bzr trees)
InsideAny = ufunc("InsideAny", SetS(STR), STR, BOOL)   # osutils.is_inside_any (Rust): the path is inside one of the directories
EMPTY = lift([], CL)

assumed("ConflictList", pure=True, returns=lambda c: lift([], CL), note="a ConflictList is a list wrapper; modelled by its list")
assumed("osutils.is_inside_any", pure=True, returns=lambda c: InsideAny(c.args[0], c.args[1].val))
assumed("tree.abspath", pure=True, raises={"Exception": None})
assumed("os.path.exists", pure=True, result=BOOL)


def path_hit(p):
    return And(Not(p.is_none), Or(In(p.val, PS0()), And(RC0(), InsideAny(PS0(), p.val))))


def id_hit(f):
    return And(Not(f.is_none), In(f.val, IDS0()))


def sel_generic(e):
    return path_hit(attr(e, "path"))


def sel_bzr(e):
    return Or(path_hit(attr(e, "path")), path_hit(attr(e, "conflict_path")), id_hit(attr(e, "file_id")), id_hit(attr(e, "conflict_file_id")))


GSel = fold_cat("GSel", CL, CL, lambda e: If(sel_generic(e), lift([e], CL), EMPTY))
GNot = fold_cat("GNot", CL, CL, lambda e: If(sel_generic(e), EMPTY, lift([e], CL)))
BSel = fold_cat("BSel", CL, CL, lambda e: If(sel_bzr(e), lift([e], CL), EMPTY))
BNot = fold_cat("BNot", CL, CL, lambda e: If(sel_bzr(e), EMPTY, lift([e], CL)))


AllHavePath = fold_all("AllHavePath", CL, lambda e: Not(attr(e, "path").is_none))


MSG_EQUIV = {r"selected_paths|ignore_misses|os\.path\.exists|\| print\(": "only decides which 'is not conflicted / does not exist' messages are printed: outside the partition property"}


def setup(c):
    return And(forall([STR], lambda x: In(x, PS0()) == In(x, c.paths)), c.recurse == RC0())


target("breezy/conflicts.py::ConflictList.select_conflicts",
       params=dict(self=CL, paths=Seq(STR), recurse=BOOL), locals=dict(selected_paths=SetS(STR)),
       requires=lambda c: And(setup(c), AllHavePath(c.self)),     # generic conflicts always carry a path
       loops={1: loop(r"for conflict in self", prefix="seen",
                      inv=lambda c: And(c.selected_conflicts == GSel(c.seen), c.new_conflicts == GNot(c.seen), c.path_set == PS0())),
              2: loop(r"for path in \[p for p in paths if p not in selected_paths\]", lambda c: TRUE)},
       ensures={"order_preserving_partition": lambda c: And(c.result[1] == GSel(c.old.self), c.result[0] == GNot(c.old.self))},
       raises={"Exception": True}, canary=lambda c: Len(c.result[1]) == 0, equivalent_mutants=MSG_EQUIV)

# bzr trees also select by file id. The id map is built by the first loop; the selection itself is verified as a
# block contract for an ARBITRARY id map (named IDS0), so it holds for whatever the first loop produced.
F0 = ufunc("f0", BYTES)
P2I = ufunc("P2I", STR, Opt(BYTES))
assumed("tree.path2id", pure=True, returns=lambda c: P2I(c.args[0]), raises={"Exception": None})
NoneMapsToF0 = fold_all("NoneMapsToF0", Seq(STR), lambda p: P2I(p) != Opt(BYTES).some(F0()))

target("breezy/bzr/conflicts.py::ConflictList.select_conflicts",
       block=(r"for path in paths:", None),
       params=dict(paths=Seq(STR), ids=MapS(BYTES, STR)),
       requires=lambda c: c.ids == MapS(BYTES, STR).empty() if False else Not(In(F0(), c.ids)),
       loops={1: loop(r"for path in paths", prefix="pseen", inv=lambda c: In(F0(), c.ids) == Not(NoneMapsToF0(c.pseen)))},
       ensures={"ids_are_the_ids_of_the_requested_paths": lambda c: In(F0(), c.ids) == Not(NoneMapsToF0(c.old.paths))},
       raises={"Exception": True}, note="block: construction of the file-id map", skip_mutants=False)

target("breezy/bzr/conflicts.py::ConflictList.select_conflicts",
       block=(r"for conflict in self:", r"return new_conflicts, selected_conflicts"),
       params=dict(self=CL, paths=Seq(STR), recurse=BOOL, ids=MapS(BYTES, STR), path_set=SetS(STR), selected_paths=SetS(STR),
                   new_conflicts=CL, selected_conflicts=CL, ignore_misses=ANY, tree=ANY),
       requires=lambda c: And(c.recurse == RC0(), c.path_set == PS0(), c.ids == IDS0(),
                              Len(c.new_conflicts) == 0, Len(c.selected_conflicts) == 0),
       loops={2: loop(r"for conflict in self", prefix="seen",
                      inv=lambda c: And(c.selected_conflicts == BSel(c.seen), c.new_conflicts == BNot(c.seen))),
              5: loop(r"for path in \[p for p in paths if p not in selected_paths\]", lambda c: TRUE)},
       ensures={"order_preserving_partition": lambda c: And(c.result[1] == BSel(c.old.self), c.result[0] == BNot(c.old.self))},
       raises={"Exception": True}, canary=lambda c: Len(c.result[1]) == 0, quick_mutants=4, equivalent_mutants=MSG_EQUIV,
       note="block: selection and reporting, for an arbitrary id map")

# ---- persistence: set_conflicts stores exactly the stanzas of the list it was given, every time
ghost(stored=ANY, tree_write_locked=BOOL)     # stored: the stanzas last written to the tree's "conflicts" control file
Stanzas = ufunc("Stanzas", ANY, ANY)          # ConflictList(conflicts).to_stanzas(): every field of every conflict (rio, external)
ListOf = ufunc("ListOf", ANY, ANY)
assumed("_mod_bzr_conflicts.ConflictList", pure=True, no_raise=True, returns=lambda c: ListOf(c.args[0]))
assumed("conflict_list.to_stanzas", pure=True, returns=lambda c: Stanzas(c.conflict_list), raises={"Exception": None})
assumed("self.lock_tree_write", modifies=["g.tree_write_locked"], ensures=lambda c: c.g.tree_write_locked, raises={"Exception": "unchanged"})
assumed("self.lock_tree_write.__exit__", modifies=["g.tree_write_locked"], no_raise=True, ensures=lambda c: Not(c.g.tree_write_locked))
assumed("self._put_rio", result=NONE, modifies=["g.stored"], requires=lambda c: And(c.g.tree_write_locked, eq(c.args[0], "conflicts")),
        ensures=lambda c: c.g.stored == c.args[1], raises={"Exception": "unchanged"},
        note="writes the control file atomically (put_file) or fails without effect")
target("breezy/bzr/workingtree.py::InventoryWorkingTree.set_conflicts", params=dict(conflicts=ANY),
       requires=lambda c: Not(c.g.tree_write_locked),
       ensures={"stores_exactly_what_it_was_given": lambda c: And(c.g.stored == Stanzas(ListOf(c.old.conflicts)),
                                                                  lift(c.calls("self._put_rio") == 1)),
                "lock_released": lambda c: Not(c.g.tree_write_locked)},
       raises={"Exception": lambda c: And(c.g.stored == c.old.g.stored, Not(c.g.tree_write_locked))},
       canary=lambda c: c.g.stored == c.old.g.stored)

undecided("stanza (rio) serialisation of conflicts and the merge-hash file format (external rio code)")

# ---- merge hashes read back (InventoryWorkingTree.merge_modified, block: the loop over the recorded stanzas): EVERY recorded file that
#      is still versioned and whose text still has the recorded hash is reported with that hash; a stale record (file id no longer in the
#      tree) is skipped and does not affect the others
STANZA = Opaque("Stanza")
Field = ufunc("Field", STANZA, STR, STR)           # Stanza.get(name)
EncU = ufunc("EncU", STR, BYTES)
EncA = ufunc("EncA", STR, BYTES)
PathOfId = ufunc("PathOfId", BYTES, STR)
VersionedId = ufunc("VersionedId", BYTES, BOOL)
ShaOf = ufunc("ShaOf", STR, Opt(BYTES))
Stanzas = ufunc("Stanzas", Seq(STANZA))
S0 = ufunc("s0", STANZA)                           # an arbitrary recorded stanza
NotS0 = fold_all("NotS0", Seq(STANZA), lambda e: e != S0())
exceptions(NoSuchId="Exception")
assumed("RioReader", pure=True, no_raise=True, returns=lambda c: Stanzas())
assumed("s.get", pure=True, no_raise=True, returns=lambda c: Field(c.s, c.args[0]))
assumed("cache_utf8.encode", pure=True, no_raise=True, returns=lambda c: EncU(c.args[0]))
assumed(rx(r"^s\.get\('hash'\)\.encode$"), pure=True, no_raise=True, returns=lambda c: EncA(Field(c.s, lift("hash"))))
assumed("self.id2path", pure=True, returns=lambda c: PathOfId(c.args[0]), ensures=lambda c: VersionedId(c.args[0]),
        raises={"NoSuchId": lambda c: Not(VersionedId(c.args[0]))})
assumed("self.get_file_sha1", pure=True, returns=lambda c: ShaOf(c.args[0]), raises={"Exception": None})


def still_valid(s_):
    fid = EncU(Field(s_, lift("file_id")))
    h = EncA(Field(s_, lift("hash")))
    return And(VersionedId(fid), Not(ShaOf(PathOfId(fid)).is_none), ShaOf(PathOfId(fid)).val == h)


def reported(c, s_):
    fid = EncU(Field(s_, lift("file_id")))
    p_ = PathOfId(fid)
    return And(In(p_, c.merge_hashes), c.merge_hashes[p_] == EncA(Field(s_, lift("hash"))))


def only_current_hashes(c):
    return forall([STR], lambda p_: Implies(In(p_, c.merge_hashes), And(Not(ShaOf(p_).is_none), c.merge_hashes[p_] == ShaOf(p_).val)))


target("breezy/bzr/workingtree.py::InventoryWorkingTree.merge_modified", block=(r"^\s*for s in RioReader\(hashfile\):", None),
       params=dict(merge_hashes=MapS(STR, BYTES), hashfile=ANY), locals=dict(file_id=BYTES, path=STR, text_hash=BYTES),
       requires=lambda c: c.merge_hashes == MapS(STR, BYTES).empty(),
       loops={1: loop(r"for s in RioReader\(hashfile\)", prefix="seen", inv=lambda c: And(
           only_current_hashes(c), Implies(And(Not(NotS0(c.seen)), still_valid(S0())), reported(c, S0()))))},
       ensures={"every_still_valid_record_is_reported": lambda c: Implies(And(Not(NotS0(Stanzas())), still_valid(S0())), reported(c, S0())),
                "only_current_hashes_are_reported": only_current_hashes},
       raises={"Exception": True}, canary=lambda c: c.merge_hashes == MapS(STR, BYTES).empty(),
       note="block: reading the merge hashes back")
