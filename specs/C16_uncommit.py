# C16 - uncommit undoes commit.  (Also carries the C12 clause "uncommit never modifies working-tree files".)

REV = BYTES
REVS = Seq(REV)
LK = Opaque("Lockable")            # tree, branch and master are lockable objects
TIP = Tup(INT, REV)
NULL = lift(b"null:")
const("_mod_revision.NULL_REVISION", b"null:")

ghost(held=SetS(LK), branch_tip=TIP, master_tip=TIP, tree_parents=REVS)

TP = ufunc("TreeParents", REVS)          # tree.get_parent_ids() at entry
MasterOf = ufunc("MasterOf", Opt(LK))    # branch.get_master_branch()
Bound = ufunc("Bound", BOOL)
OldRevno, OldTip, MasterTip = ufunc("OldRevno", INT), ufunc("OldTip", REV), ufunc("MasterTip", REV)
LH = ufunc("LH", REVS)                   # graph.iter_lefthand_ancestry(old_tip): old_tip, its first parent, ...
Par = ufunc("Par", REV, REVS)            # parents of a revision
Known = ufunc("Known", REV, BOOL)        # the revision is present (not a ghost) in the parent map
K0 = ufunc("k0", LK)                     # an arbitrary lockable

Rev = use_rev(REVS)
EMPTY = lift([], REVS)
# merges re-recorded for the removed revisions, in the order the code accumulates them (each reversed)
M = fold_cat("M", REVS, REVS, lambda r: If(And(Known(r), Len(Par(r)) > 0), Rev(Par(r)[1:]), EMPTY))
AllNotK0 = fold_all("AllNotK0", Seq(LK), lambda e: e != K0())

assumed("tree.lock_write", result=NONE, modifies=["g.held"], requires=lambda c: Not(In(c.tree.val, c.g.held)),
        ensures=lambda c: c.g.held == (c.old.g.held | mkset(SetS(LK), c.tree.val)))
assumed("branch.lock_write", modifies=["g.held"], requires=lambda c: Not(In(c.branch, c.g.held)),
        ensures=lambda c: c.g.held == (c.old.g.held | mkset(SetS(LK), c.branch)))
assumed("master.lock_write", modifies=["g.held"], requires=lambda c: Not(In(c.master.val, c.g.held)),
        ensures=lambda c: c.g.held == (c.old.g.held | mkset(SetS(LK), c.master.val)))
assumed("item.unlock", result=NONE, modifies=["g.held"], no_raise=True,
        ensures=lambda c: c.g.held == (c.old.g.held - mkset(SetS(LK), c.item)),
        note="unlock() of trees and branches runs under only_raises; assumed not to propagate errors")
assumed("tree.get_parent_ids", pure=True, returns=lambda c: TP(), raises={"Exception": None})
assumed("branch.get_bound_location", pure=True, result=Opt(ANY), ensures=lambda c: c.result.is_none == Not(Bound()), raises={"Exception": None})
assumed("branch.get_master_branch", pure=True, returns=lambda c: MasterOf(), raises={"Exception": None})
assumed("branch.last_revision_info", pure=True, returns=lambda c: TIP.mk(OldRevno(), OldTip()), raises={"Exception": None})
assumed("master.last_revision", pure=True, returns=lambda c: MasterTip(), raises={"Exception": None})
assumed("branch.repository.get_graph", pure=True, raises={"Exception": None})
assumed("graph.iter_lefthand_ancestry", pure=True, returns=lambda c: LH(),
        note="the left-hand ancestry of the old tip as a finite sequence (acyclic graph)")
assumed("graph.get_parent_map", pure=True, result=MapS(REV, REVS), raises={"Exception": None},
        ensures=lambda c: And(In(c.args[0][0], c.result) == Known(c.args[0][0]),
                              Implies(Known(c.args[0][0]), c.result[c.args[0][0]] == Par(c.args[0][0]))))
assumed("branch.set_last_revision_info", result=NONE, modifies=["g.branch_tip"],
        ensures=lambda c: c.g.branch_tip == TIP.mk(c.args[0], c.args[1]))
assumed("master.set_last_revision_info", result=NONE, modifies=["g.master_tip"],
        ensures=lambda c: c.g.master_tip == TIP.mk(c.args[0], c.args[1]))
assumed("tree.set_parent_ids", result=NONE, modifies=["g.tree_parents"], ensures=lambda c: c.g.tree_parents == c.args[0])
assumed("branch.supports_tags", pure=True, result=BOOL, raises={"Exception": None})
assumed("remove_tags", result=NONE, note="Rust (_cmd_rs.uncommit.remove_tags): drops tags pointing only at removed revisions")
assumed("_mod_revision.is_null", pure=True, returns=lambda c: c.args[0] == NULL)
exceptions(BoundBranchOutOfDate="Exception")


def pm0(c):
    return If(c.old.tree.is_none, EMPTY, TP()[1:])


def new_revno(c):
    return If(c.old.revno.is_none, OldRevno(), c.old.revno.val) - 1


def k_of(c):
    return OldRevno() - new_revno(c)          # how many revisions are removed


def new_tip(c):
    k = k_of(c)
    return If(And(k >= 0, k < Len(LH())), LH()[k], NULL)


def held_same(c):
    return In(K0(), c.g.held) == In(K0(), c.old.g.held)


def nothing_moved(c):
    return And(c.g.branch_tip == c.old.g.branch_tip, c.g.master_tip == c.old.g.master_tip, c.g.tree_parents == c.old.g.tree_parents)


def tree_frame(c):
    """C12: the only operations on the working tree are locking and reading/writing its parent list."""
    return lift(all(re_ok(l) for l in c.labels_matching(r"^\??tree\.")))


def re_ok(label):
    return label.split("!")[0] in ("tree.lock_write", "tree.get_parent_ids", "tree.set_parent_ids")


def bound(c):
    return And(Not(c.old.local), Not(MasterOf().is_none))


target("breezy/uncommit.py::uncommit",
       params=dict(branch=LK, dry_run=BOOL, verbose=BOOL, revno=Opt(INT), tree=Opt(LK), local=BOOL, keep_tags=BOOL),
       locals=dict(unlockable=Seq(LK), pending_merges=REVS, master=Opt(LK)),
       requires=lambda c: And(
           c.g.held == SetS(LK).empty(),
           Implies(Not(c.tree.is_none), c.tree.val != c.branch),
           Implies(Not(MasterOf().is_none), And(MasterOf().val != c.branch, Implies(Not(c.tree.is_none), MasterOf().val != c.tree.val))),
           c.g.branch_tip == TIP.mk(OldRevno(), OldTip())),
       loops={1: loop(r"for rev_id in graph\.iter_lefthand_ancestry\(old_tip\)", index="i", prefix="gone",
                      inv=lambda c: And(c.cur_revno == OldRevno() - c.i, c.new_revision_id == OldTip(),
                                        c.pending_merges == pm0(c) + M(c.gone), c.new_revno == new_revno(c), c.old_revno == OldRevno(),
                                        c.old_tip == OldTip(),
                                        # no earlier position matched the requested revision number
                                        Or(k_of(c) < 0, k_of(c) >= c.i))),
              2: loop(r"for hook in Branch\.hooks", lambda c: TRUE),
              3: loop(r"for item in reversed\(unlockable\)", prefix="seen",
                      inv=lambda c: In(K0(), c.g.held) == And(In(K0(), c.pre.g.held), AllNotK0(c.seen)))},
       modifies=["g.held", "g.branch_tip", "g.master_tip", "g.tree_parents"],
       ensures={
           "every_lock_released": held_same,
           "dry_run_changes_nothing": lambda c: Implies(c.old.dry_run, nothing_moved(c)),
           "tip_moves_to_the_requested_lefthand_ancestor": lambda c: Implies(
               Not(c.old.dry_run), c.g.branch_tip == TIP.mk(new_revno(c), new_tip(c))),
           "master_is_updated_first_with_the_same_tip": lambda c: Implies(
               Not(c.old.dry_run),
               If(bound(c), And(c.g.master_tip == c.g.branch_tip,
                                lift(c.before("master.set_last_revision_info", "branch.set_last_revision_info")
                                     and c.calls("master.set_last_revision_info") == 1)),
                  c.g.master_tip == c.old.g.master_tip)),
           "removed_merges_become_pending": lambda c: Implies(
               And(Not(c.old.dry_run), Not(c.old.tree.is_none)),
               c.g.tree_parents == If(new_tip(c) != NULL, lift([new_tip(c)], REVS), EMPTY)
               + Rev(pm0(c) + M(LH()[0:If(And(k_of(c) >= 0, k_of(c) < Len(LH())), k_of(c), Len(LH()))]))),
           "no_tree_no_parent_update": lambda c: Implies(c.old.tree.is_none, c.g.tree_parents == c.old.g.tree_parents),
           "C12_uncommit_never_touches_tree_files": tree_frame,
       },
       raises={"BoundBranchOutOfDate": lambda c: And(held_same(c), nothing_moved(c), bound(c), OldTip() != MasterTip()),
               "Exception": lambda c: And(held_same(c), Implies(c.old.dry_run, nothing_moved(c)), tree_frame(c))},
       canary=lambda c: nothing_moved(c), quick_mutants=2)

# "uncommit undoes commit", as a lemma over the contract of uncommit: take the postconditions
# tip_moves_to_the_requested_lefthand_ancestor and removed_merges_become_pending for k == 1 (one revision removed, tree
# given, no pre-existing pending merges) and the graph facts LH[0] == old tip, Par(old tip)[0] == LH[1]:
# the tree's parent list becomes exactly Par(old tip), the parent list it had before that commit.
lemma("uncommit_one_revision_restores_the_precommit_parents",
      [("tp", REVS), ("treeparents", REVS), ("lh", REVS), ("old", REV)],
      lambda tp, treeparents, lh, old: [
          Len(treeparents) <= 1, Len(lh) >= 2, lh[0] == old, Known(old), Len(Par(old)) >= 1, Par(old)[0] == lh[1], lh[1] != NULL,
          # the contract's clause removed_merges_become_pending instantiated at k == 1
          tp == lift([lh[1]], REVS) + Rev(treeparents[1:] + M(lh[0:1])),
          fold_unit(M, old), rev_hints(treeparents[1:], M(lh[0:1])), rev_hints(Par(old)[1:])],
      lambda tp, treeparents, lh, old: tp == Par(old))

assume_note("hooks (post_uncommit) are arbitrary code: assumed not to move tips or tree parents")
undecided("which tags are removed (Rust remove_tags); that the tree 'reports the same changes as before the commit' (dirstate, external)")
undecided("order of pre-existing pending merges: the code re-records them reversed when the tree already had pending merges")
