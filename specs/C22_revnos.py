# C22 - revision numbers resolve consistently: revno <-> revision id over the left-hand ancestry of the tip.
REV = BYTES
LH = ufunc("LH", Seq(REV))            # the left-hand ancestry of the branch tip, tip first, null revision excluded (graph oracle)
LastRevno = ufunc("LastRevno", INT)   # the revision number recorded for the tip
NULL = lift(b"null:")
const("_mod_revision.NULL_REVISION", b"null:")
assume_note("the recorded revision number of the tip equals the length of its left-hand ancestry (kept by set_last_revision_info "
            "callers: C21), the tip heads that ancestry, and no revision id occurs twice in it (acyclic graph)")
exceptions(StopIteration="Exception", RevnoOutOfBounds="Exception", NoSuchRevision="Exception", GhostRevisionsHaveNoRevno="Exception",
           RevisionNotPresent="Exception", ValueError="Exception", IndexError="Exception")


NoNull = fold_all("NoNull", Seq(REV), lambda e: e != lift(b"null:"))


def is_prefix(cache):
    return And(Len(cache) <= Len(LH()), cache == LH()[0:Len(cache)], NoNull(cache))


# ---- repository._iter_for_revno: extends the cache along the left-hand ancestry, never past what was asked for
GRAPH = Opaque("Graph")
assumed("repo.get_graph", pure=True, no_raise=True, result=GRAPH)
assumed("graph.iter_lefthand_ancestry", pure=True, result=Seq(REV),
        requires=lambda c: And(Len(c.partial_history_cache) >= 1, is_prefix(c.partial_history_cache),
                               c.args[0] == c.partial_history_cache[Len(c.partial_history_cache) - 1]),     # starts from the last cached revision
        ensures=lambda c: And(c.result == LH()[Len(c.partial_history_cache) - 1:Len(LH())], NoNull(c.result)),
        raises={"Exception": None},
        note="yields the left-hand ancestry from the given revision (inclusive) down to, excluding, the null revision")

ITER = verified("repository._iter_for_revno", params=["repo", "partial_history_cache", "stop_index", "stop_revision"], result=NONE,
                modifies=["self._partial_revision_history_cache"],
                requires=lambda c: And(Len(c.partial_history_cache) >= 1, is_prefix(c.partial_history_cache)),
                ensures=lambda c: And(is_prefix(c.self._partial_revision_history_cache),
                                      Len(c.self._partial_revision_history_cache) >= Len(c.old.self._partial_revision_history_cache),
                                      Implies(And(Not(c.kw["stop_index"].is_none), c.kw["stop_revision"].is_none),
                                              Or(Len(c.self._partial_revision_history_cache) > c.kw["stop_index"].val,
                                                 c.self._partial_revision_history_cache == LH())),
                                      Implies(And(c.kw["stop_index"].is_none, Not(c.kw["stop_revision"].is_none)),
                                              Or(c.self._partial_revision_history_cache[Len(c.self._partial_revision_history_cache) - 1] == c.kw["stop_revision"].val,
                                                 c.self._partial_revision_history_cache == LH()))),
                raises={"Exception": None})
target("breezy/repository.py::_iter_for_revno",
       params=dict(repo=ANY, partial_history_cache=Seq(REV), stop_index=Opt(INT), stop_revision=Opt(REV)), locals=dict(iterator=Seq(REV)),
       requires=lambda c: And(Len(c.partial_history_cache) >= 1, is_prefix(c.partial_history_cache)),
       partial=True,
       loops={1: loop(r"while True", lambda c: And(Len(c.partial_history_cache) >= 1, is_prefix(c.partial_history_cache),
                                                   Len(c.partial_history_cache) >= Len(c.old.partial_history_cache),
                                                   c.iterator == LH()[Len(c.partial_history_cache):Len(LH())], NoNull(c.iterator)),
                      decreases=lambda c: Len(c.iterator))},
       ensures={"cache_stays_a_prefix_of_the_ancestry": lambda c: And(is_prefix(c.partial_history_cache),
                                                                     Len(c.partial_history_cache) >= Len(c.old.partial_history_cache)),
                "extends_until_the_index_is_present_or_history_ends": lambda c: Implies(
                    And(Not(c.old.stop_index.is_none), c.old.stop_revision.is_none), Or(Len(c.partial_history_cache) > c.old.stop_index.val, c.partial_history_cache == LH())),
                "extends_until_the_revision_is_found_or_history_ends": lambda c: Implies(
                    And(c.old.stop_index.is_none, Not(c.old.stop_revision.is_none)),
                    Or(c.partial_history_cache[Len(c.partial_history_cache) - 1] == c.old.stop_revision.val, c.partial_history_cache == LH()))},
       raises={"Exception": True}, canary=lambda c: Len(c.partial_history_cache) == Len(c.old.partial_history_cache))

# ---- Branch._extend_partial_history / BzrBranch.get_rev_id / revision_id_to_revno
BRANCH = cls("Branch", fields={"_partial_revision_history_cache": Seq(REV), "repository": ANY})
cls("BzrBranch8", fields={"_partial_revision_history_cache": Seq(REV), "repository": ANY})


def tip_facts():
    # a non-empty branch; the ancestry sequence stops before the null revision
    return And(Len(LH()) >= 1, LastRevno() == Len(LH()), LH()[0] != NULL)


def cache_ok(c):
    return is_prefix(c.self._partial_revision_history_cache)


assumed("self.last_revision", pure=True, no_raise=True, returns=lambda c: LH()[0])
assumed("self.last_revision_info", pure=True, no_raise=True, returns=lambda c: Tup(INT, REV).mk(LastRevno(), LH()[0]))
assumed("self.revno", pure=True, no_raise=True, returns=lambda c: LastRevno())
assumed("_mod_revision.is_null", pure=True, no_raise=True, returns=lambda c: c.args[0] == NULL)
assumed("self.lock_read", pure=True, no_raise=True)
assumed("self.lock_read.__exit__", pure=True, no_raise=True)

EXT = verified(("BzrBranch8", "_extend_partial_history"), params=["stop_index", "stop_revision"], result=NONE,
               modifies=["self._partial_revision_history_cache"],
               requires=lambda c: And(tip_facts(), cache_ok(c)),
               ensures=lambda c: And(cache_ok(c), Len(c.self._partial_revision_history_cache) >= Len(c.old.self._partial_revision_history_cache),
                                     Len(c.self._partial_revision_history_cache) >= 1,
                                     Implies(And(Not(c.kw["stop_index"].is_none) if "stop_index" in c.kw else FALSE),
                                             Or(Len(c.self._partial_revision_history_cache) > c.kw["stop_index"].val if "stop_index" in c.kw else TRUE,
                                                c.self._partial_revision_history_cache == LH())),
                                     Implies(lift("stop_revision" in c.kw),
                                             Or(c.self._partial_revision_history_cache[Len(c.self._partial_revision_history_cache) - 1] == (c.kw["stop_revision"].val if "stop_revision" in c.kw else NULL),
                                                c.self._partial_revision_history_cache == LH()))),
               raises={"Exception": "unchanged"})
target("breezy/branch.py::Branch._extend_partial_history", params=dict(stop_index=Opt(INT), stop_revision=Opt(REV)),
       requires=lambda c: And(tip_facts(), cache_ok(c), Or(c.stop_index.is_none, c.stop_revision.is_none),
                              Implies(Not(c.stop_revision.is_none), c.stop_revision.val != NULL)),
       modifies=["self._partial_revision_history_cache"],
       ensures={"cache_stays_a_prefix_of_the_ancestry": lambda c: And(cache_ok(c), Len(c.self._partial_revision_history_cache) >=
                                                                     Len(c.old.self._partial_revision_history_cache),
                                                                     Len(c.self._partial_revision_history_cache) >= 1),
                "index_present_or_whole_history": lambda c: Implies(
                    Not(c.old.stop_index.is_none), Or(Len(c.self._partial_revision_history_cache) > c.old.stop_index.val,
                                                      c.self._partial_revision_history_cache == LH())),
                "revision_found_or_whole_history": lambda c: Implies(
                    Not(c.old.stop_revision.is_none),
                    Or(c.self._partial_revision_history_cache[Len(c.self._partial_revision_history_cache) - 1] == c.old.stop_revision.val,
                       c.self._partial_revision_history_cache == LH()))},
       raises={"Exception": True}, canary=lambda c: Len(c.self._partial_revision_history_cache) == 0,
       equivalent_mutants={r"NULL_REVISION|_partial_revision_history_cache\.pop\(\)": "dropping a trailing null revision: unreachable for the ancestry of a non-empty branch (the iterator stops before null)"})

P = "breezy/bzr/branch.py::BzrBranch8."
target(P + "get_rev_id", params=dict(revno=INT, history=NONE), result=REV,
       requires=lambda c: And(tip_facts(), cache_ok(c)),
       modifies=["self._partial_revision_history_cache"],
       ensures={"the_revision_at_that_distance_from_the_tip": lambda c: c.result == If(c.old.revno == 0, NULL, LH()[LastRevno() - c.old.revno]),
                "in_range": lambda c: And(0 <= c.old.revno, c.old.revno <= LastRevno()),
                "cache_stays_a_prefix": cache_ok},
       raises={"RevnoOutOfBounds": lambda c: And(Or(c.old.revno < 0, c.old.revno > LastRevno()),
                                                 c.self._partial_revision_history_cache == c.old.self._partial_revision_history_cache),
               "NoSuchRevision": lambda c: FALSE,       # cannot happen when the recorded number is the length of the ancestry
               "IndexError": lambda c: FALSE,
               "Exception": lambda c: c.self._partial_revision_history_cache == c.old.self._partial_revision_history_cache},
       canary=lambda c: c.result == NULL,
       equivalent_mutants={r"cmp0:LtE@.*\| if revno <= 0 or": "revno == 0 was answered before; < and <= agree on the rest",
                           r"cmp0:Gt@.*\| if len\(self\._partial_revision_history_cache\) > index": "after extension the cache is longer than the index (the recorded number is the ancestry length): > and >= agree",
                           r"history\[revno - 1\]|if history is not None": "explicit history argument: callers of this contract pass None"})

R0 = ufunc("r0", REV)
NoneIsR0 = fold_all("NoneIsR0", Seq(REV), lambda e: e != R0())
target(P + "revision_id_to_revno", params=dict(revision_id=REV), result=INT,
       requires=lambda c: And(tip_facts(), cache_ok(c)),
       modifies=["self._partial_revision_history_cache"],
       ensures={"number_of_the_position_in_the_ancestry": lambda c: If(
                    c.old.revision_id == NULL, c.result == 0,
                    And(1 <= c.result, c.result <= LastRevno(), LH()[LastRevno() - c.result] == c.old.revision_id)),
                "cache_stays_a_prefix": cache_ok},
       # refused only after the whole left-hand ancestry was walked without ending on the revision
       raises={"NoSuchRevision": lambda c: And(c.old.revision_id != NULL, c.self._partial_revision_history_cache == LH(),
                                               LH()[Len(LH()) - 1] != c.old.revision_id),
               "GhostRevisionsHaveNoRevno": True, "Exception": True},
       canary=lambda c: c.result == 0,
       equivalent_mutants={r"\| if index < 0:|drop:Raise@L\d+:\d+ \| raise errors.NoSuchRevision\(self, revision_id\) from e$": "an empty cache after extension is impossible for a non-empty branch"})

lemma("revno_and_revision_id_are_inverse", [("n", INT), ("r", REV), ("m", INT)],
      lambda n, r, m: [LastRevno() == Len(LH()), 1 <= n, n <= LastRevno(),
                       # no revision id occurs twice in the left-hand ancestry
                       forall([INT, INT], lambda i, j: Implies(And(0 <= i, i < j, j < Len(LH())), LH()[i] != LH()[j])),
                       r == LH()[LastRevno() - n],                                          # get_rev_id(n)
                       And(1 <= m, m <= LastRevno(), LH()[LastRevno() - m] == r)],       # revision_id_to_revno(r)
      lambda n, r, m: m == n,
      note="get_rev_id then revision_id_to_revno is the identity on 1..revno (and the other way round on the ancestry)")

undecided("dotted revision numbers (merge_sort: vcsgraph, external) and the other revision specifier kinds")
undecided("lazily raised RevisionNotPresent from the ancestry iterator (ghosts)")

# ---- the cache invariant survives a change of tip: whoever writes a new tip drops the caches that described the old one
cls("BzrBranch", fields={"_partial_revision_history_cache": Seq(REV), "_last_revision_info_cache": ANY, "repository": ANY})
exceptions(InvalidRevisionId="Exception", AppendRevisionsOnlyViolation="Exception")
assumed("self.lock_write", pure=True, raises={"Exception": None})
assumed("self.lock_write.__exit__", pure=True, no_raise=True)
assumed("self.get_append_revisions_only", pure=True, result=BOOL, raises={"Exception": None})
assumed("self._check_history_violation", pure=True, result=NONE, raises={"AppendRevisionsOnlyViolation": None, "Exception": None})
assumed("self._run_pre_change_branch_tip_hooks", result=NONE, raises={"Exception": "unchanged"})
assumed("self._run_post_change_branch_tip_hooks", result=NONE, raises={"Exception": "unchanged"})
ghost(tip_written=BOOL)
assumed("self._write_last_revision_info", result=NONE, modifies=["g.tip_written"], ensures=lambda c: c.g.tip_written, raises={"Exception": "unchanged"})
assumed("self._clear_cached_state", result=NONE, modifies=["self._partial_revision_history_cache", "self._last_revision_info_cache"], no_raise=True,
        ensures=lambda c: Len(c.self._partial_revision_history_cache) == 0,
        note="Branch._clear_cached_state empties the revision-history caches (partial history, revno maps, merge-sorted revisions)")
target("breezy/bzr/branch.py::BzrBranch.set_last_revision_info", params=dict(revno=INT, revision_id=REV),
       requires=lambda c: Not(c.g.tip_written),
       modifies=["g.tip_written", "self._partial_revision_history_cache", "self._last_revision_info_cache"],
       ensures={"caches_of_the_old_tip_are_dropped_whenever_the_tip_is_written": lambda c: And(
           c.g.tip_written, Len(c.self._partial_revision_history_cache) == 0,
           lift(c.before("self._write_last_revision_info", "self._clear_cached_state") and c.calls("self._clear_cached_state") == 1))},
       raises={"Exception": lambda c: Implies(c.g.tip_written, Len(c.self._partial_revision_history_cache) == 0)},
       canary=lambda c: Not(c.g.tip_written),
       equivalent_mutants={r"InvalidRevisionId|if not revision_id or not isinstance|_check_history_violation|get_append_revisions_only|_run_p\w+_change_branch_tip_hooks|_last_revision_info_cache = ":
                           "validation, append-only policy (C21), hooks and the tip cache itself: outside the history-cache invariant"})

# ---- dotted revision numbers: a dotted revno denotes the revision that the revno map gives that number, and only if exactly one does
RMAP = MapS(BYTES, Seq(INT))
RevnoMap = ufunc("RevnoMap", RMAP)           # get_revision_id_to_revno_map(): merge-sorted numbering of the tip's ancestry (vcsgraph, external)
exceptions(GhostRevisionsHaveNoRevno="Exception")
assumed("self.get_revision_id_to_revno_map", pure=True, returns=lambda c: RevnoMap(), raises={"Exception": None})
assumed("'.'.join", pure=True, no_raise=True, result=STR)
pure("map")
target("breezy/branch.py::Branch._do_dotted_revno_to_revision_id", params=dict(revno=Seq(INT)), result=BYTES, modifies=[],
       requires=lambda c: Len(c.revno) >= 2,
       ensures={"denotes_the_revision_with_that_number": lambda c: And(In(c.result, RevnoMap()), RevnoMap()[c.result] == c.old.revno),
                "and_no_other_revision_has_it": lambda c: forall([BYTES], lambda r: Implies(
                    And(In(r, RevnoMap()), RevnoMap()[r] == c.old.revno), r == c.result))},
       raises={"NoSuchRevision": True,     # (when exactly it refuses - none or several revisions with that number - is not decided: counting)
               "Exception": True},
       canary=lambda c: Len(c.result) == 0,
       equivalent_mutants={r"get_rev_id\(revno\[0\]\)|GhostRevisionsHaveNoRevno|revno\[0\]|exc\.revision_id": "the single-component branch: outside this contract's precondition "
                                                                                             "(get_rev_id has its own contract above)"},
       note="multi-component (dotted) revision numbers; single-component ones go through get_rev_id (above)")
