# C41 - testaments. The property as a whole (sensitivity to every attested field, determinism across formats) is decided by the bounded
# stand-in only (bounded/C41.py, labelled exploration). One conjunct is proved: the text form built by Testament.as_text_lines is EXACTLY
# the layout below - in particular every line of the commit message is attested verbatim (two spaces, the line, a newline), the parents
# in sorted order, the inventory lines and the revision properties in the order their helpers give them, each line utf-8 encoded.
LEVEL = "exploration"
Dec8 = ufunc("Dec8", BYTES, STR)
Enc8 = ufunc("Enc8", STR, BYTES)
LinesOf = ufunc("LinesOf", STR, Seq(STR))              # str.splitlines()
Entries = ufunc("Entries", Seq(Tup(STR, ANY)))         # what _get_entries yields: (path, inventory entry) in tree order
EntryLine = ufunc("EntryLine", STR, ANY, STR)          # _entry_to_line
RevpropLines = ufunc("RevpropLines", Seq(STR))         # _revprops_to_lines
White = ufunc("White", BYTES, BOOL)                    # contains_whitespace
T = cls("Testament", fields={"long_header": STR, "revision_id": BYTES, "committer": STR, "timestamp": INT, "timezone": INT,
                             "parent_ids": Seq(BYTES), "message": STR, "tree": ANY})
assumed("self.revision_id.decode", pure=True, no_raise=True, returns=lambda c: Dec8(c.self.revision_id))
assumed("parent_id.decode", pure=True, no_raise=True, returns=lambda c: Dec8(c.parent_id))
assumed("contains_whitespace", pure=True, no_raise=True, returns=lambda c: White(c.args[0]))
assumed("self.message.splitlines", pure=True, no_raise=True, returns=lambda c: LinesOf(c.self.message))
assumed("self._get_entries", pure=True, returns=lambda c: Entries(), raises={"Exception": None})
assumed("self._entry_to_line", pure=True, returns=lambda c: EntryLine(c.args[0], c.args[1]), raises={"Exception": None})
assumed("self._revprops_to_lines", pure=True, returns=lambda c: RevpropLines(), raises={"Exception": None})
assumed("line.encode", pure=True, no_raise=True, returns=lambda c: Enc8(c.line))
exceptions(ValueError="Exception")
SL = Seq(STR)
ParentLines = fold_cat("ParentLines", Seq(BYTES), SL, lambda p: lift([lift("  ") + Dec8(p) + lift("\n")], SL))
MsgLines = fold_cat("MsgLines", SL, SL, lambda l: lift([lift("  ") + l + lift("\n")], SL))
EntLines = fold_cat("EntLines", Seq(Tup(STR, ANY)), SL, lambda e: lift([EntryLine(e[0], e[1])], SL))
EncAll = fold_cat("EncAll", SL, Seq(BYTES), lambda l: lift([Enc8(l)], Seq(BYTES)))
NoWhite = fold_all("NoWhite", Seq(BYTES), lambda p: Not(White(p)))


A = "breezy/bzr/testament.py::Testament.as_text_lines"
@extra_check
def alias_is_bound(repo):
    import re as _re
    src = open(repo + "/breezy/bzr/testament.py").read()
    m = _re.search(r"def as_text_lines\(self\):.*?\n        r = \[\]\n        a = r\.append\n", src, _re.S)
    if not m or len(_re.findall(r"\n        a = ", src[m.start():m.start() + 3000])) != 1:
        raise SpecDrift("as_text_lines no longer binds a = r.append exactly once")


# `a` is r.append (bound on the function's second line: checked by the census below); the blocks take it as an alias input
target(A, variant="message", block=(r"^\s*for l in self\.message\.splitlines\(\):", None), params=dict(r=SL, a=alias("r.append")),
       loops={2: loop(r"for l in self\.message\.splitlines\(\)", prefix="seen", inv=lambda c: c.r == c.old.r + MsgLines(c.seen))},
       ensures={"every_message_line_is_attested_verbatim": lambda c: c.r == c.old.r + MsgLines(LinesOf(c.self.message))},
       raises={}, canary=lambda c: c.r == c.old.r, modifies=["r"],
       note="block: two spaces, the line exactly as stored, a newline - for every line of the message, in order")
target(A, variant="parents", block=(r"^\s*for parent_id in sorted\(self\.parent_ids\):", None), params=dict(r=SL, a=alias("r.append")),
       loops={1: loop(r"for parent_id in sorted\(self\.parent_ids\)", prefix="seen", inv=lambda c: And(c.r == c.old.r + ParentLines(c.seen), NoWhite(c.seen)))},
       ensures={"parents_are_attested_in_sorted_order": lambda c: exists([Seq(BYTES)], lambda sp: And(
           c.r == c.old.r + ParentLines(sp), NoWhite(sp), forall([BYTES], lambda x: In(x, sp) == In(x, c.self.parent_ids))))},
       raises={"ValueError": True}, canary=lambda c: c.r == c.old.r, modifies=["r"],
       note="block: every parent id on its own line; a parent id with whitespace is refused")


undecided("sensitivity of the whole text to each attested field (injectivity of the layout: string parsing the solvers do not decide), "
          "the timestamp / timezone lines (%d formatting is not encoded), _entry_to_line, _revprops_to_lines, the sha1 of the text, "
          "determinism across repository formats: bounded stand-in only (bounded/C41.py)")
