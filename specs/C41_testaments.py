# C41 - testaments: BOUNDED stand-in only (bounded/C41.py) in this build, labelled exploration, never counted as proved.
# (bzr/testament.py is pure Python and partly provable - determinism under reordering, per-entry sensitivity - but the whole-text
#  sensitivity is string parsing the solvers do not decide; the proof part was not built.)
LEVEL = "exploration"
undecided("everything: no obligation is discharged deductively for this property; see bounded/C41.py for the stated bounds")
