# C04 - pack repositories are crash-atomic: at every point of a commit, autopack or pack, every pack that pack-names lists has all its
# files in packs/ and indices/ (so a reader that starts after a crash at that point sees a complete set of revisions), and what
# pack-names lists changes in ONE atomic step from the old set to the new set.
# Built on the pack-names model of C05 (three-way merge under the names lock), with one more piece of ghost state:
#   present = the pack names whose pack file and index files are in place in packs/ and indices/.
include("C05_pack_names_merge.py")
ghost(present=SetS(STR),
      combined=BOOL)     # the packer has just written a pack holding the content of the packs of the current operation
PACKT = Opaque("Pack")
X0 = ufunc("x0", PACKT)          # an arbitrary pack object


def named(packs_sort_seq):
    return None


def NoPackNamedN0(packs):
    """no pack of the list is called like the arbitrary node N0 (membership form: survives filtering of the list)"""
    return forall([PACKT], lambda p: Implies(In(p, packs), attr(p, "name") != N0()[0]))


def NoPackNamedM0(packs):
    return forall([PACKT], lambda p: Implies(In(p, packs), attr(p, "name") != M0()))


def CI(g):
    """the crash invariant, for an arbitrary node N0: whatever pack-names lists is completely on disk"""
    return Implies(In(N0(), g.disk_names), In(N0()[0], g.present))


def memory_names_present(c, names):
    """data invariant of the collection: every pack it has in memory (self._names) is completely on disk"""
    return And(Implies(In(N0()[0], names), In(N0()[0], c.g.present)), Implies(In(M0(), names), In(M0(), c.g.present)))


def obsolete_of(c):
    return If(c.old.obsolete_packs.is_none, lift([], Seq(PACKT)), c.old.obsolete_packs.val)


# ---- contracts of the effectful steps, as C04 needs them (local to the C04 targets)
LOCK4 = assumed("self.lock_names", local=True, result=NONE, modifies=["g.names_locked", "g.disk_idx"],
                requires=lambda c: Not(c.g.names_locked),
                ensures=lambda c: And(
                    c.g.names_locked,
                    # RELY 1: other processes keep the crash invariant too: what they list is completely on disk
                    Implies(Not(NoneIsN0(c.g.disk_idx)), In(N0()[0], c.g.present)),
                    # RELY 2: pack names are chosen by their writer (random, 128 bit): nobody else lists, under a name this process
                    # is about to retire, anything but the entry this process loaded
                    Implies(And(Not(NoneIsN0(c.g.disk_idx)), Not(NoPackNamedN0(obsolete_of(c)))), In(N0(), c.self._packs_at_load))),
                raises={"Exception": "unchanged"},
                note="RELY: other writers preserve 'listed => present' and never add entries under this process's pack names")
PUT4 = assumed("self.transport.put_file", local=True, result=NONE, modifies=["g.disk_names", "g.written"],
               # the one atomic step: what is about to be listed must be completely on disk already
               requires=lambda c: And(c.g.names_locked, eq(c.args[0], "pack-names"), Implies(In(N0(), c.g.built), In(N0()[0], c.g.present))),
               ensures=lambda c: And(c.g.disk_names == c.g.built, c.g.written),
               raises={"Exception": "unchanged"},
               note="transport.put_file replaces pack-names atomically (temp file + rename); a failing write changes nothing")
def obs_post(c, packs):
    """only the given packs lose their files"""
    return And(Implies(And(In(N0()[0], c.old.g.present), NoPackNamedN0(packs)), In(N0()[0], c.g.present)),
               Implies(And(In(M0(), c.old.g.present), NoPackNamedM0(packs)), In(M0(), c.g.present)))


OBS4 = assumed("self._obsolete_packs", local=True, result=NONE, modifies=["g.present"],
               # files are moved away only for packs that pack-names no longer lists
               requires=lambda c: And(c.g.written, Not(c.g.names_locked), Implies(In(N0(), c.g.disk_names), NoPackNamedN0(c.args[0]))),
               ensures=lambda c: obs_post(c, c.args[0]), no_raise=True,
               note="verified below (target _obsolete_packs): moves away the files of the given packs only, and swallows transport errors")
SYNC4 = assumed("self._syncronize_pack_names_from_disk_nodes", local=True, result=Tup(Seq(STR), Seq(STR), Seq(STR)), modifies=["self._names"],
                requires=lambda c: Not(c.g.names_locked),
                ensures=lambda c: And(Implies(In(N0()[0], c.self._names), exists([BYTES], lambda v: In(NODE.mk(N0()[0], v), c.args[0]))),
                                      Implies(In(M0(), c.self._names), exists([BYTES], lambda v: In(NODE.mk(M0(), v), c.args[0])))),
                note="afterwards the in-memory names are the names of the nodes just written (assumed; the function rebuilds self._names from them)")

def save_pre(c, obsolete):
    return And(Not(c.g.names_locked), Not(c.g.written), CI(c.g), memory_names_present(c, c.self._names),
               # the packs to retire have been taken out of the in-memory list already
               Implies(Not(obsolete.is_none),
                       And(Implies(In(N0()[0], c.self._names), NoPackNamedN0(obsolete.val)),
                           Implies(In(M0(), c.self._names), NoPackNamedM0(obsolete.val)))))


SAVE4 = verified(("RepositoryPackCollection", "_save_pack_names"), local=True, params=["clear_obsolete_packs", "obsolete_packs"],
                 modifies=["g.names_locked", "g.disk_idx", "g.disk_names", "g.built", "g.written", "g.obs_deleted", "g.present",
                           "self._packs_at_load", "self._names"],
                 requires=lambda c: save_pre(c, c.obsolete_packs if c.has("obsolete_packs") and isinstance(c.obsolete_packs.s, Opt)
                                             else Opt(Seq(PACKT)).none()),
                 ensures=lambda c: CI(c.g), raises={"Exception": lambda c: CI(c.g)})
target(P + "_save_pack_names", variant="crash", local_contracts=[LOCK4, PUT4, OBS4, SYNC4], contract=SAVE4,
       params=dict(clear_obsolete_packs=BOOL, obsolete_packs=Opt(Seq(PACKT))),
       locals=dict(already_obsolete=Seq(STR), to_preserve=Opt(SetS(STR))), result=Seq(STR),
       requires=lambda c: save_pre(c, c.obsolete_packs),
       loops={1: loop(r"for name, value in disk_nodes", done="done", inv=lambda c: And(
           c.g.names_locked, Not(c.g.written), c.g.built == c.done, c.g.disk_names == c.old.g.disk_names, c.g.present == c.old.g.present,
           c.self._packs_at_load == c.old.self._packs_at_load, c.self._names == c.old.self._names))},
       modifies=["g.names_locked", "g.disk_idx", "g.disk_names", "g.built", "g.written", "g.obs_deleted", "g.present", "self._packs_at_load",
                 "self._names"],
       crash_inv=lambda c: CI(c.g),
       ensures={"listed_packs_are_complete_afterwards": lambda c: CI(c.g),
                "one_atomic_switch": lambda c: lift(c.calls("self.transport.put_file") == 1)},
       raises={"Exception": lambda c: CI(c.g)},
       canary=lambda c: Not(c.g.written),
       equivalent_mutants={r"already_obsolete|to_preserve|clear_obsolete_packs": "clearing obsolete_packs/ never touches packs/ or indices/ (C05)",
                           r"_packs_at_load = disk_nodes": "bookkeeping for the next merge (C05)"},
       note="crash invariant after every effectful step: whatever pack-names lists is completely on disk")

# ---- _obsolete_packs: moves away the files of the GIVEN packs only; a failing move is tolerated (the pack stays where it is)
exceptions(PathError="Exception", TransportError="Exception", NoSuchFile="PathError", FileExists="PathError")
attr_sort("Pack.name", STR)
MOVE_NOTE = "moving a file out of packs/ or indices/ makes (at most) the pack it belongs to incomplete"
assumed("pack.pack_transport.move", result=NONE, modifies=["g.present"],
        ensures=lambda c: And(Implies(And(In(N0()[0], c.old.g.present), attr(c.pack, "name") != N0()[0]), In(N0()[0], c.g.present)),
                              Implies(And(In(M0(), c.old.g.present), attr(c.pack, "name") != M0()), In(M0(), c.g.present))),
        raises={"NoSuchFile": "unchanged", "PathError": "unchanged", "TransportError": "unchanged"}, note=MOVE_NOTE)
assumed("self._index_transport.move", result=NONE, modifies=["g.present"],
        ensures=lambda c: And(Implies(And(In(N0()[0], c.old.g.present), attr(c.pack, "name") != N0()[0]), In(N0()[0], c.g.present)),
                              Implies(And(In(M0(), c.old.g.present), attr(c.pack, "name") != M0()), In(M0(), c.g.present))),
        raises={"PathError": "unchanged", "TransportError": "unchanged"}, note=MOVE_NOTE)
assumed("pack.pack_transport.mkdir", result=NONE, raises={"FileExists": "unchanged", "PathError": "unchanged", "TransportError": "unchanged"},
        note="transport operations fail with PathError or TransportError (dromedary: assumed)")
assumed("pack.file_name", pure=True, no_raise=True, result=STR)
RPC4 = cls("RepositoryPackCollection", fields=dict(_names=MapS(STR, ANY), _packs_at_load=NODES, chk_index=Opt(ANY)))


def kept_so_far(c, seen):
    return And(Implies(And(In(N0()[0], c.old.g.present), NoPackNamedN0(seen)), In(N0()[0], c.g.present)),
               Implies(And(In(M0(), c.old.g.present), NoPackNamedM0(seen)), In(M0(), c.g.present)))


target(P + "_obsolete_packs", params=dict(packs=Seq(PACKT)), modifies=["g.present"], locals=dict(suffixes=Seq(STR)),
       loops={1: loop(r"for pack in packs", prefix="seen", inv=lambda c: kept_so_far(c, c.seen)),
              2: loop(r"for suffix in suffixes", lambda c: And(
                  Implies(And(In(N0()[0], c.pre.g.present), attr(c.pack, "name") != N0()[0]), In(N0()[0], c.g.present)),
                  Implies(And(In(M0(), c.pre.g.present), attr(c.pack, "name") != M0()), In(M0(), c.g.present))))},
       ensures={"only_the_given_packs_lose_files": lambda c: kept_so_far(c, c.old.packs)},
       raises={}, canary=lambda c: c.g.present == c.old.g.present,
       equivalent_mutants={r"mutter\(|suffixes|mkdir|contextlib\.suppress|chk_index is not None": "which files of the given packs are moved, and logging: not moving is safe",
                           r"drop:Expr.*\.move\(": "not moving a file away is safe for this property"},
       note="never touches the files of a pack that was not handed to it")

# ---- allocate: a pack enters the in-memory list (and so the next pack-names) only when all its files are in place
LOADED4 = assumed("self.ensure_loaded", local=True, modifies=["self._names", "self._packs_at_load"],
        requires=lambda c: memory_names_present(c, c.self._names),
        ensures=lambda c: memory_names_present(c, c.self._names), raises={"Exception": "unchanged"},
        note="loading pack-names adds names read from disk: complete by the rely (other writers keep 'listed => present')")
assumed("self.add_pack_to_memory", result=NONE, raises={"Exception": "unchanged"}, note="in-memory index bookkeeping")
pure("tuple")
exceptions(BzrError="Exception")
target(P + "allocate", params=dict(a_new_pack=PACKT), modifies=["self._names", "self._packs_at_load"], local_contracts=[LOADED4],
       requires=lambda c: And(memory_names_present(c, c.self._names),
                              # the caller has finished the pack: its pack file and indices are renamed into place
                              In(attr(c.a_new_pack, "name"), c.g.present)),
       ensures={"memory_names_stay_complete": lambda c: memory_names_present(c, c.self._names),
                "the_pack_is_listed_in_memory": lambda c: In(attr(c.old.a_new_pack, "name"), c.self._names)},
       raises={"BzrError": lambda c: memory_names_present(c, c.self._names), "Exception": lambda c: memory_names_present(c, c.self._names)},
       canary=lambda c: Not(In(attr(c.old.a_new_pack, "name"), c.self._names)),
       equivalent_mutants={r"raise errors\.BzrError|add_pack_to_memory|ensure_loaded|a_new_pack\.name in self\._names":
                           "refusing a duplicate name, loading the list first and in-memory index bookkeeping: not about what is on disk"})

# ---- _commit_write_group: a new pack is finished (renamed into packs/ and indices/) BEFORE it is allocated, and pack-names is rewritten
#      only after that; whatever goes wrong in between, what pack-names lists stays complete
cls("RepositoryPackCollection", fields=dict(_names=MapS(STR, ANY), _packs_at_load=NODES, chk_index=Opt(ANY),
                                            _new_pack=Opt(PACKT), _resumed_packs=Seq(PACKT), repo=ANY))
always_truthy(PACKT, "pack objects define neither __bool__ nor __len__")
DataIns4 = ufunc("DataIns4", PACKT, BOOL)
Problems4 = ufunc("Problems4", Seq(STR))
Missing4 = ufunc("Missing4", ANY, Seq(ANY))
assumed(rx(r"versioned_file\.get_missing_compression_parent_keys"), pure=True, returns=lambda c: Missing4(c.versioned_file), raises={"Exception": None})
assumed("self._check_new_inventories", pure=True, returns=lambda c: Problems4(), raises={"Exception": None})
assumed("self._remove_pack_indices", result=NONE, raises={"Exception": "unchanged"}, note="in-memory index bookkeeping")
assumed("self._new_pack.data_inserted", pure=True, no_raise=True, returns=lambda c: DataIns4(c.self._new_pack.val))
exceptions(BzrCheckError="BzrError")
pure("sorted")


def finished(c, pack):
    """NewPack.finish: the pack file and its indices are written and renamed into place - nothing else in packs/ or indices/ changes"""
    return And(In(attr(pack, "name"), c.g.present),
               Implies(In(N0()[0], c.old.g.present), In(N0()[0], c.g.present)), Implies(In(M0(), c.old.g.present), In(M0(), c.g.present)))


assumed("self._new_pack.finish", result=NONE, modifies=["g.present"], ensures=lambda c: finished(c, c.self._new_pack.val),
        raises={"Exception": lambda c: And(Implies(In(N0()[0], c.old.g.present), In(N0()[0], c.g.present)),
                                           Implies(In(M0(), c.old.g.present), In(M0(), c.g.present)))},
        note="pack_repo.NewPack.finish (not under contract): writes indices, renames the pack from upload/ into packs/; adds files only")
assumed("resumed_pack.finish", result=NONE, modifies=["g.present"], ensures=lambda c: finished(c, c.resumed_pack),
        raises={"Exception": lambda c: And(Implies(In(N0()[0], c.old.g.present), In(N0()[0], c.g.present)),
                                           Implies(In(M0(), c.old.g.present), In(M0(), c.g.present)))})
assumed("self._new_pack.abort", result=NONE, raises={"Exception": "unchanged"}, note="deletes the pack's files in upload/ only")
ALLOC4 = assumed("self.allocate", local=True, result=NONE, modifies=["self._names", "self._packs_at_load"],
                 requires=lambda c: And(memory_names_present(c, c.self._names), In(attr(c.args[0].val if isinstance(c.args[0].s, Opt) else c.args[0], "name"), c.g.present)),
                 ensures=lambda c: memory_names_present(c, c.self._names), raises={"Exception": lambda c: memory_names_present(c, c.self._names)},
                 note="verified above (target allocate)")
RM4 = assumed("self._remove_pack_from_memory", local=True, result=NONE, modifies=["self._names"],
              ensures=lambda c: And(Implies(In(N0()[0], c.self._names), In(N0()[0], c.old.self._names)),
                                    Implies(In(M0(), c.self._names), In(M0(), c.old.self._names))),
              raises={"Exception": "unchanged"}, note="removes names from the in-memory list (never adds)")
AUTO4 = assumed("self.autopack", local=True, modifies=["g.disk_names", "g.present", "self._names", "self._packs_at_load", "g.disk_idx", "g.built", "g.obs_deleted"],
                requires=lambda c: And(CI(c.g), memory_names_present(c, c.self._names), Not(c.g.names_locked), Not(c.g.written)),
                ensures=lambda c: And(CI(c.g), memory_names_present(c, c.self._names), Not(c.g.names_locked), Not(c.g.written)),
                raises={"Exception": lambda c: CI(c.g)},
                note="autopack -> _execute_pack_operations -> _save_pack_names (below); the packer that writes the combined pack is not under contract")
SAVE4C = assumed("self._save_pack_names", local=True, modifies=["g.names_locked", "g.disk_idx", "g.disk_names", "g.built", "g.written", "g.obs_deleted", "g.present",
                                                               "self._packs_at_load", "self._names"],
                 requires=lambda c: save_pre(c, Opt(Seq(PACKT)).none()), ensures=lambda c: CI(c.g), raises={"Exception": lambda c: CI(c.g)},
                 note="verified above (target _save_pack_names[crash])")
target(P + "_commit_write_group", variant="crash", local_contracts=[ALLOC4, RM4, AUTO4, SAVE4C], locals=dict(all_missing=SetS(ANY)),
       requires=lambda c: And(CI(c.g), memory_names_present(c, c.self._names), Not(c.g.names_locked), Not(c.g.written), Not(c.self._new_pack.is_none)),
       loops={2: loop(r"for resumed_pack in self\._resumed_packs", lambda c: And(
           CI(c.g), memory_names_present(c, c.self._names), Not(c.g.names_locked), Not(c.g.written), c.g.disk_names == c.old.g.disk_names))},
       crash_inv=lambda c: CI(c.g),
       ensures={"listed_packs_are_complete": lambda c: CI(c.g),
                "finished_before_allocated_before_listed": lambda c: lift(
                    c.before("self._new_pack.finish", "self.allocate") and c.before("self.allocate", "self.autopack")
                    and c.before("self.allocate", "self._save_pack_names"))},
       raises={"Exception": lambda c: CI(c.g)},
       canary=lambda c: c.g.disk_names == c.old.g.disk_names,
       equivalent_mutants={r"format\(|problems_summary|sorted\(|retnone|_remove_pack_indices|all_missing|problems|raise BzrCheckError|any_new_content|"
                           r"self\._names\[resumed_pack\.name\] = None|_remove_pack_from_memory|abort\(\)|del self\._resumed_packs|drop:Expr.*self\.allocate\(":
                           "content checks, error text, in-memory bookkeeping and whether anything is committed at all: decided in the C06 check; "
                           "not committing (or committing less) cannot make pack-names list an incomplete pack"},
       note="crash invariant after every effectful step of a commit")

# ---- _execute_pack_operations (autopack and pack): the combined packs are written and allocated first, the packs they replace are
#      only taken out of the in-memory list; pack-names is rewritten ONCE at the end, and only then are the replaced packs moved away
#      (by _save_pack_names, under its contract above)
OPS = Seq(Tup(INT, Seq(PACKT)))
PACKER = Opaque("Packer")
always_truthy(PACKER, "packer objects define neither __bool__ nor __len__")
attr_sort("Packer.new_pack", Opt(PACKT))
exceptions(RetryWithNewPacks="Exception")


def retired(c, upto):
    """every pack of the first `upto` operations is out of the in-memory list"""
    ops = c.old.pack_operations
    return forall([PACKT, INT], lambda p, j: Implies(And(0 <= j, j < upto, In(p, ops[j][1])), Not(In(attr(p, "name"), c.self._names))))


PACK4 = assumed("packer.pack", local=True, modifies=["self._names", "g.present", "self._packs_at_load", "g.combined"], result=Opt(PACKT),
                requires=lambda c: And(CI(c.g), memory_names_present(c, c.self._names)),
                ensures=lambda c: And(CI(c.g), memory_names_present(c, c.self._names), c.g.combined == Not(c.result.is_none),
                                      # the combined pack gets a fresh name: no pack that exists already is called like it
                                      forall([PACKT], lambda p: Implies(Not(In(attr(p, "name"), c.old.self._names)), Not(In(attr(p, "name"), c.self._names)))),
                                      Implies(In(N0()[0], c.old.g.present), In(N0()[0], c.g.present)), Implies(In(M0(), c.old.g.present), In(M0(), c.g.present))),
                raises={"RetryWithNewPacks": "unchanged", "Exception": lambda c: And(CI(c.g), c.g.disk_names == c.old.g.disk_names)},
                note="Packer.pack (not under contract): writes ONE new pack, finishes and allocates it (contracts above); never touches existing files; "
                     "ASSUMED: the new pack's name (md5 of its content) differs from the names of the packs being combined")
assumed("packer_class", pure=True, no_raise=True, result=PACKER)
assumed("packer.new_pack.abort", result=NONE, raises={"Exception": "unchanged"})
RMP4 = assumed("self._remove_pack_from_memory", local=True, result=NONE, modifies=["self._names"],
               # a pack is retired only when the packer has produced the pack that replaces it (otherwise its revisions would vanish)
               requires=lambda c: c.g.combined,
               ensures=lambda c: And(Not(In(attr(c.args[0], "name"), c.self._names)),
                                     forall([STR], lambda x: Implies(In(x, c.self._names), In(x, c.old.self._names)))),
               raises={"Exception": "unchanged"}, note="pops the pack's name from self._names (and in-memory index bookkeeping)")
SAVE4X = assumed("self._save_pack_names", local=True, modifies=["g.names_locked", "g.disk_idx", "g.disk_names", "g.built", "g.written", "g.obs_deleted",
                                                               "g.present", "self._packs_at_load", "self._names"],
                 requires=lambda c: save_pre(c, Opt(Seq(PACKT)).some(c.kw["obsolete_packs"] if isinstance(c.kw["obsolete_packs"].s, Seq)
                                                                     else lift([], Seq(PACKT)))), ensures=lambda c: CI(c.g),
                 raises={"Exception": lambda c: CI(c.g)}, note="verified above (target _save_pack_names[crash])")
target(P + "_execute_pack_operations", local_contracts=[PACK4, RMP4, SAVE4X],
       params=dict(pack_operations=OPS, packer_class=ANY, reload_func=ANY), locals=dict(to_be_obsoleted=Seq(PACKT), packs=Seq(PACKT)),
       requires=lambda c: And(CI(c.g), memory_names_present(c, c.self._names), Not(c.g.names_locked), Not(c.g.written)),
       loops={1: loop(r"for _revision_count, packs in pack_operations", index="i", inv=lambda c: And(
                  CI(c.g), memory_names_present(c, c.self._names), Not(c.g.names_locked), Not(c.g.written),
                  c.g.disk_names == c.old.g.disk_names, retired(c, c.i))),
              2: loop(r"for pack in packs", prefix="seen", index="m",
                      # membership in a prefix that is one element longer (a fact about sequences, stated as an instance for the solver)
                      hints=lambda c: Implies(And(0 <= c.m, c.m < Len(c.packs)), forall([PACKT], lambda p: In(p, c.packs[0:c.m + 1]) == Or(
                          In(p, c.packs[0:c.m]), p == c.packs[c.m]))),
                      inv=lambda c: And(
                  CI(c.g), memory_names_present(c, c.self._names), Not(c.g.names_locked), Not(c.g.written),
                  c.g.disk_names == c.old.g.disk_names, retired(c, c.i), c.packs == c.old.pack_operations[c.i][1], c.g.combined,
                  forall([PACKT], lambda p: Implies(In(p, c.seen), Not(In(attr(p, "name"), c.self._names)))))),
              3: loop(r"for _, packs in pack_operations", index="k", inv=lambda c: And(
                  CI(c.g), memory_names_present(c, c.self._names), Not(c.g.names_locked), Not(c.g.written),
                  retired(c, Len(c.old.pack_operations)),
                  forall([PACKT], lambda p: Implies(In(p, c.to_be_obsoleted), exists([INT], lambda j: And(0 <= j, j < c.k, In(p, c.old.pack_operations[j][1])))))))},
       crash_inv=lambda c: CI(c.g),
       ensures={"listed_packs_are_complete": lambda c: CI(c.g),
                "one_rewrite_after_all_new_packs_exist": lambda c: lift(c.calls("self._save_pack_names") <= 1 and c.before("packer.pack", "self._save_pack_names"))},
       raises={"Exception": lambda c: CI(c.g)},
       canary=lambda c: lift(c.calls("self._save_pack_names") == 0),
       equivalent_mutants={r"packer\.new_pack is not None|new_pack\.abort\(\)": "cleaning up the half-written pack in upload/ after a retry request"},
       note="crash invariant after every effectful step of autopack / pack")
