# C04 - pack repositories are crash-atomic: at every point of a commit, autopack or pack, every pack that pack-names lists has all its
# files in packs/ and indices/ (so a reader that starts after a crash at that point sees a complete set of revisions), and what
# pack-names lists changes in ONE atomic step from the old set to the new set.
# Built on the pack-names model of C05 (three-way merge under the names lock), with one more piece of ghost state:
#   present = the pack names whose pack file and index files are in place in packs/ and indices/.
include("C05_pack_names_merge.py")
ghost(present=SetS(STR))
PACKT = Opaque("Pack")
X0 = ufunc("x0", PACKT)          # an arbitrary pack object


def named(packs_sort_seq):
    return None


NoPackNamedN0 = fold_all("NoPackNamedN0", Seq(PACKT), lambda e: attr(e, "name") != N0()[0])
NoPackNamedM0 = fold_all("NoPackNamedM0", Seq(PACKT), lambda e: attr(e, "name") != M0())


def CI(g):
    """the crash invariant, for an arbitrary node N0: whatever pack-names lists is completely on disk"""
    return Implies(In(N0(), g.disk_names), In(N0()[0], g.present))


def memory_names_present(c, names):
    """data invariant of the collection: every pack it has in memory (self._names) is completely on disk"""
    return And(Implies(In(N0()[0], names), In(N0()[0], c.g.present)), Implies(In(M0(), names), In(M0(), c.g.present)))


def obsolete_of(c):
    return If(c.old.obsolete_packs.is_none, lift([], Seq(PACKT)), c.old.obsolete_packs.val)


# ---- contracts of the effectful steps, as C04 needs them (local to the C04 targets)
LOCK4 = assumed("self.lock_names", local=True, result=NONE, modifies=["g.names_locked", "g.disk_idx"],
                requires=lambda c: Not(c.g.names_locked),
                ensures=lambda c: And(
                    c.g.names_locked,
                    # RELY 1: other processes keep the crash invariant too: what they list is completely on disk
                    Implies(Not(NoneIsN0(c.g.disk_idx)), In(N0()[0], c.g.present)),
                    # RELY 2: pack names are chosen by their writer (random, 128 bit): nobody else lists, under a name this process
                    # is about to retire, anything but the entry this process loaded
                    Implies(And(Not(NoneIsN0(c.g.disk_idx)), Not(NoPackNamedN0(obsolete_of(c)))), In(N0(), c.self._packs_at_load))),
                raises={"Exception": "unchanged"},
                note="RELY: other writers preserve 'listed => present' and never add entries under this process's pack names")
PUT4 = assumed("self.transport.put_file", local=True, result=NONE, modifies=["g.disk_names", "g.written"],
               # the one atomic step: what is about to be listed must be completely on disk already
               requires=lambda c: And(c.g.names_locked, eq(c.args[0], "pack-names"), Implies(In(N0(), c.g.built), In(N0()[0], c.g.present))),
               ensures=lambda c: And(c.g.disk_names == c.g.built, c.g.written),
               raises={"Exception": "unchanged"},
               note="transport.put_file replaces pack-names atomically (temp file + rename); a failing write changes nothing")
OBS4 = verified(("RepositoryPackCollection", "_obsolete_packs"), local=True, params=["packs"], result=NONE, modifies=["g.present"],
                # files are moved away only for packs that pack-names no longer lists
                requires=lambda c: And(c.g.written, Not(c.g.names_locked), Implies(In(N0(), c.g.disk_names), NoPackNamedN0(c.packs))),
                ensures=lambda c: And(Implies(And(In(N0()[0], c.old.g.present), NoPackNamedN0(c.packs)), In(N0()[0], c.g.present)),
                                      Implies(And(In(M0(), c.old.g.present), NoPackNamedM0(c.packs)), In(M0(), c.g.present))),
                no_raise=True)
SYNC4 = assumed("self._syncronize_pack_names_from_disk_nodes", local=True, result=Tup(Seq(STR), Seq(STR), Seq(STR)), modifies=["self._names"],
                requires=lambda c: Not(c.g.names_locked),
                ensures=lambda c: And(Implies(In(N0()[0], c.self._names), exists([BYTES], lambda v: In(NODE.mk(N0()[0], v), c.args[0]))),
                                      Implies(In(M0(), c.self._names), exists([BYTES], lambda v: In(NODE.mk(M0(), v), c.args[0])))),
                note="afterwards the in-memory names are the names of the nodes just written (assumed; the function rebuilds self._names from them)")

target(P + "_save_pack_names", variant="crash", local_contracts=[LOCK4, PUT4, OBS4, SYNC4],
       params=dict(clear_obsolete_packs=BOOL, obsolete_packs=Opt(Seq(PACKT))),
       locals=dict(already_obsolete=Seq(STR), to_preserve=Opt(SetS(STR))), result=Seq(STR),
       requires=lambda c: And(Not(c.g.names_locked), Not(c.g.written), CI(c.g), memory_names_present(c, c.self._names),
                              # the packs to retire have been taken out of the in-memory list already
                              Implies(Not(c.obsolete_packs.is_none),
                                      And(Implies(In(N0()[0], c.self._names), NoPackNamedN0(c.obsolete_packs.val)),
                                          Implies(In(M0(), c.self._names), NoPackNamedM0(c.obsolete_packs.val))))),
       loops={1: loop(r"for name, value in disk_nodes", done="done", inv=lambda c: And(
           c.g.names_locked, Not(c.g.written), c.g.built == c.done, c.g.disk_names == c.old.g.disk_names, c.g.present == c.old.g.present,
           c.self._packs_at_load == c.old.self._packs_at_load, c.self._names == c.old.self._names))},
       modifies=["g.names_locked", "g.disk_idx", "g.disk_names", "g.built", "g.written", "g.obs_deleted", "g.present", "self._packs_at_load",
                 "self._names"],
       crash_inv=lambda c: CI(c.g),
       ensures={"listed_packs_are_complete_afterwards": lambda c: CI(c.g),
                "memory_names_are_complete_afterwards": lambda c: memory_names_present(c, c.self._names),
                "one_atomic_switch": lambda c: lift(c.calls("self.transport.put_file") == 1)},
       raises={"Exception": lambda c: CI(c.g)},
       canary=lambda c: c.g.present == c.old.g.present,
       skip_mutants=False,
       equivalent_mutants={r"already_obsolete|to_preserve|clear_obsolete_packs": "clearing obsolete_packs/ never touches packs/ or indices/ (C05)",
                           r"_packs_at_load = disk_nodes": "bookkeeping for the next merge (C05)"},
       note="crash invariant after every effectful step: whatever pack-names lists is completely on disk")
