# C01 - a commit records exactly the selected state; a commit that raises leaves tip and visible revisions unchanged.
include("_commit_model.py")
P = "breezy/commit.py::"
CH = Opaque("Change")
attr_sort("Change.path", Tup(Opt(STR), Opt(STR)))
attr_sort("Change.versioned", Tup(BOOL, BOOL))
attr_sort("Change.kind", Tup(Opt(STR), Opt(STR)))
CHS = Seq(CH)
LOG_EQUIV = {r"_set_progress_stage|mutter\(|log_exception_quietly|reporter\.|report_changes|_next_progress_entry|trace\.warning":
             "progress, reports to the user and tracing: outside the property",
             r"\| (old_path|new_path) = change\.path": "locals that only feed the reporter",
             r'kind == "tree-reference"': "recursing into nested trees (tree references): outside the statement"}

# ------------------------------------------------------------------ selection: filter_excluded
Excl = ufunc("ExclSet", ANY)
InAny = ufunc("InAny", STR, BOOL)       # osutils.is_inside_any(exclude, path) (Rust, assumed): path is an excluded path or inside one
assumed("is_inside_any", pure=True, no_raise=True, returns=lambda c: InAny(c.args[1]))


def excluded(e):
    p = attr(e, "path")
    return Or(And(Not(p[0].is_none), InAny(p[0].val)), And(Not(p[1].is_none), InAny(p[1].val)))


Kept = fold_cat("Kept", CHS, CHS, lambda e: If(excluded(e), lift([], CHS), lift([e], CHS)))
target(P + "filter_excluded", params=dict(iter_changes=CHS, exclude=ANY), generator=CH,
       loops={1: loop(r"for change in iter_changes", prefix="seen", inv=lambda c: c.g.yielded == Kept(c.seen))},
       ensures={"exactly_the_changes_outside_every_excluded_path_in_order": lambda c: c.g.yielded == Kept(c.old.iter_changes)},
       raises={}, canary=lambda c: Len(c.g.yielded) == 0)

# ------------------------------------------------------------------ selection: Commit._filter_iter_changes
Discard = ufunc("Discard", CH, CH)      # change.discard_new(): the same change with no new path and not versioned afterwards
SymOK = ufunc("SymlinksSupported", BOOL)
assumed("change.discard_new", pure=True, no_raise=True, returns=lambda c: Discard(c.change),
        ensures=lambda c: And(attr(c.result, "versioned")[0] == attr(c.change, "versioned")[0], Not(attr(c.result, "versioned")[1]),
                              attr(c.result, "path")[0] == attr(c.change, "path")[0], attr(c.result, "path")[1].is_none))
assumed("self.work_tree.supports_symlinks", pure=True, no_raise=True, returns=lambda c: SymOK())
assumed(rx(r"reporter\.\w+"), pure=True, no_raise=True)
assumed("self._commit_nested_tree", result=NONE, raises={"Exception": "unchanged"})
assumed("self._next_progress_entry", pure=True, no_raise=True, result=NONE)
pure("gettext")


def missing(e):
    return And(attr(e, "kind")[1].is_none, attr(e, "versioned")[1])


def skipped_symlink(e):
    return And(eq(attr(e, "kind")[0], "symlink"), Not(SymOK()))


def out_of(e):
    v = attr(e, "versioned")
    return If(missing(e), If(skipped_symlink(e), lift([], CHS), If(v[0], lift([Discard(e)], CHS), lift([], CHS))),
              If(Or(v[0], v[1]), lift([e], CHS), lift([], CHS)))


def deleted_of(e):
    return If(And(missing(e), Not(skipped_symlink(e))), lift([attr(e, "path")[1]], Seq(Opt(STR))), lift([], Seq(Opt(STR))))


Out = fold_cat("Out", CHS, CHS, out_of)
Del = fold_cat("Del", CHS, Seq(Opt(STR)), deleted_of)
cls("Commit", fields={"branch": BR, "master_branch": Opt(BR), "bound_branch": Opt(BR), "local": BOOL, "rev_id": Opt(REV),
                      "_lossy": BOOL, "builder": ANY, "work_tree": ANY, "config_stack": ANY, "parents": Seq(REV),
                      "basis_tree": ANY, "reporter": ANY, "deleted_paths": Seq(Opt(STR)), "message": ANY, "pb": ANY,
                      "specific_files": Opt(Seq(STR)), "exclude": ANY, "allow_pointless": BOOL, "recursive": ANY},
    pure_methods=["_set_progress_stage", "_emit_progress", "_next_progress_entry"])
target(P + "Commit._filter_iter_changes", params=dict(iter_changes=CHS), generator=CH, locals=dict(deleted_paths=Seq(Opt(STR))),
       loops={1: loop(r"for change in iter_changes", prefix="seen",
                      inv=lambda c: And(c.g.yielded == Out(c.seen), c.deleted_paths == Del(c.seen)))},
       ensures={"yields_exactly_the_versioned_changes_with_missing_files_as_deletions": lambda c: c.g.yielded == Out(c.old.iter_changes),
                "records_exactly_the_missing_paths_for_unversioning": lambda c: c.self.deleted_paths == Del(c.old.iter_changes)},
       raises={"Exception": True}, canary=lambda c: Len(c.g.yielded) == 0, equivalent_mutants=LOG_EQUIV)

# ---- the selection: a caller's list of paths - even an EMPTY one ("commit no files") - stays a filter; only None means "everything"
assumed("minimum_path_selection", pure=True, no_raise=True, result=SetS(STR))
target(P + "Commit.commit", variant="selection", block={"stmt": "If", "contains": r"self\.specific_files = sorted\(minimum_path_selection\(specific_files\)\)"}, cls="Commit",
       params=dict(specific_files=Opt(Seq(STR))), modifies=["self.specific_files"],
       ensures={"a_given_selection_stays_a_selection": lambda c: c.self.specific_files.is_none == c.old.specific_files.is_none},
       raises={}, canary=lambda c: c.self.specific_files.is_none,
       note="block: [] means no files at all, None means no filter")

undecided("equality of the committed tree with basis-plus-selection (iter_changes, record_iter_changes, inventories: external)")
undecided("the working tree reporting no changes afterwards (dirstate, external)")

# ------------------------------------------------------------------ the commit pipeline: the part of Commit.commit from the creation
# of the commit builder to the return (a block contract). A revision becomes visible in the repository only through builder.commit.
assumed("self.branch.get_commit_builder", modifies=["g.bstate"], requires=lambda c: c.g.bstate == "none",
        ensures=lambda c: c.g.bstate == "open", raises={"Exception": "unchanged"},
        note="opens the write group of the commit builder; nothing is visible to readers until builder.commit")
assumed("self.builder.abort", result=NONE, modifies=["g.bstate"], ensures=lambda c: c.g.bstate == "aborted",
        raises={"Exception": lambda c: c.g.bstate == "aborted"}, note="aborting discards everything the builder wrote")
assumed("self.builder.finish_inventory", result=NONE, requires=lambda c: c.g.bstate == "open", raises={"Exception": "unchanged"})
assumed("self.builder.commit", result=REV, modifies=["g.bstate"], requires=lambda c: c.g.bstate == "open",
        ensures=lambda c: And(c.g.bstate == "committed", c.result == c.g.new_rev), raises={"Exception": "unchanged"},
        note="commits the write group: the new revision becomes visible, or fails leaving the builder open")
assumed("self.builder.get_basis_delta", pure=True)
assumed("self.reporter.started", pure=True, no_raise=True)
assumed("self.reporter.completed", pure=True, result=NONE, raises={"Exception": None})
assumed("self._update_builder_with_changes", result=NONE, modifies=["self.deleted_paths"], requires=lambda c: c.g.bstate == "open",
        raises={"Exception": "unchanged"}, note="feeds the selected changes to the builder (record_iter_changes: external); moves no tip")
assumed("self._check_pointless", pure=True, result=NONE, raises={"PointlessCommit": None})
assumed("message_callback", pure=True, raises={"Exception": None})
assumed("self.work_tree.unversion", result=NONE, raises={"Exception": "unchanged"})
assumed("self.work_tree.update_basis_by_delta", result=NONE, requires=lambda c: And(c.g.bstate == "committed", Implies(Not(attr(c.self.builder, "updates_branch")), c.args[0] == c.g.local_tip)),
        raises={"Exception": "unchanged"}, note="must be given the revision that is now the branch tip")
assumed("self._process_post_hooks", result=NONE, raises={"Exception": "unchanged"})


def nothing_happened(c):
    return And(c.g.bstate != "committed", c.g.bstate != "open", tips_untouched(c))


target(P + "Commit.commit", variant="pipeline", block=(r"self\.builder = self\.branch\.get_commit_builder\(", r"return self\.rev_id"),
       cls="Commit",
       params=dict(message_callback=ANY, old_revno=Opt(INT), old_revid=REV, new_revno=Opt(INT), lossy=BOOL, timestamp=ANY, timezone=ANY,
                   committer=ANY, rev_id=ANY, stack=ANY),
       # what the earlier part of commit() has established (bound only after _check_bound_branch - verified in C23 - locked the master)
       requires=lambda c: And(c.g.bstate == "none", c.self.rev_id.is_none,
                              Implies(Not(c.self.bound_branch.is_none), And(c.g.master_locked, Not(c.self.master_branch.is_none)))),
       ensures={"revision_visible_and_tip_moved": lambda c: And(c.g.bstate == "committed", Not(c.self.rev_id.is_none)),
                "tip_is_the_new_revision": lambda c: Implies(Not(attr(c.self.builder, "updates_branch")), c.g.local_tip == c.self.rev_id.val),
                "order_commit_then_branches_then_tree": lambda c: lift(
                    c.before("self.builder.commit", "Commit._update_branches") and
                    c.before("Commit._update_branches", "self.work_tree.update_basis_by_delta") and
                    c.calls("self.builder.commit") == 1 and c.calls("self.work_tree.update_basis_by_delta") == 1)},
       raises={"Exception": {"a_commit_that_raises_leaves_tip_and_visible_revisions_unchanged": nothing_happened},
               "AssertionError": {"a_commit_that_raises_leaves_tip_and_visible_revisions_unchanged": nothing_happened},
               "PointlessCommit": {"a_commit_that_raises_leaves_tip_and_visible_revisions_unchanged": nothing_happened}},
       canary=lambda c: c.g.bstate == "open", equivalent_mutants=LOG_EQUIV)
