# C51 - rebase plans: BOUNDED stand-in only (bounded/C51.py), labelled exploration, never counted as proved.
# generate_simple_plan works over an external graph (vcsgraph heads, topo_sort) and byte-string plan files; the laws of the statement are
# checked function-level on the real functions over all small DAGs.
LEVEL = "exploration"
undecided("everything: no obligation is discharged deductively for this property; see bounded/C51.py for the stated bounds")
