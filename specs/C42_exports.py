# C42 - exports contain exactly the exported tree: the entry selection of _export_iter_entries and the directory exporter.
ENTRY = Opaque("Entry")
attr_sort("Entry.kind", STR)
attr_sort("Entry.name", STR)
TREE = Opaque("Tree")
ENTRIES = Seq(Tup(STR, ENTRY))
OUT3 = Seq(Tup(STR, STR, ENTRY))
Entries = ufunc("Entries", ENTRIES)            # tree.iter_entries_by_dir(): (path, entry) pairs, parents before children
Special = ufunc("Special", STR, BOOL)          # tree.is_special_path (control files such as .bzrignore handling)
Present = ufunc("Present", STR, BOOL)          # tree.has_filename
Strip = ufunc("Strip", STR, STR)               # subdir.rstrip("/")
SUB = ufunc("sub", Opt(STR))                   # the normalised sub-directory argument (None: whole tree)
SKIP = ufunc("skip", BOOL)
assumed("tree.iter_entries_by_dir", pure=True, returns=lambda c: Entries(), raises={"Exception": None})
assumed("tree.is_special_path", pure=True, no_raise=True, returns=lambda c: Special(c.args[0]))
assumed("tree.has_filename", pure=True, no_raise=True, returns=lambda c: Present(c.args[0]))
assumed("subdir.rstrip", pure=True, no_raise=True, returns=lambda c: Strip(c.subdir.val))
E3 = lift([], OUT3)


def startswith(s, p):
    return And(Len(s) >= Len(p), s[0:Len(p)] == p)


def out_of(e):
    path, entry = e[0], e[1]
    sub = SUB()
    one = lambda fp: If(Present(path), lift([Tup(STR, STR, ENTRY).mk(fp, path, entry)], OUT3), E3)
    return If(Or(path == lift(""), And(SKIP(), Special(path))), E3,
              If(And(Not(sub.is_none), path == sub.val), If(attr(entry, "kind") == lift("directory"), E3, one(attr(entry, "name"))),
                 If(Not(sub.is_none),
                    If(startswith(path, sub.val + lift("/")), one(path[Len(sub.val) + 1:Len(path)]), E3),
                    one(path))))


Out = fold_cat("Out", ENTRIES, OUT3, out_of)
target("breezy/export.py::_export_iter_entries", params=dict(tree=TREE, subdir=Opt(STR), skip_special=BOOL, recurse_nested=BOOL),
       generator=Tup(STR, STR, ENTRY),
       requires=lambda c: And(c.skip_special == SKIP(),
                              SUB() == If(Or(c.subdir.is_none, c.subdir.val == lift("")), Opt(STR).none(), Opt(STR).some(Strip(c.subdir.val)))),
       loops={1: loop(r"for path, entry in entries", prefix="seen", inv=lambda c: And(c.g.yielded == Out(c.seen), eq(c.subdir, SUB())))},
       ensures={"exactly_the_entries_of_the_requested_subtree_made_relative": lambda c: c.g.yielded == Out(Entries())},
       raises={"Exception": True}, canary=lambda c: Len(c.g.yielded) == 0)

# ---- the directory exporter: one directory / symlink / file per entry, all under dest, modes from the tree, refusal when dest is not empty
Join = ufunc("Join", STR, STR, STR)            # osutils.pathjoin(dest, relative path)
LinkTarget = ufunc("LinkTarget", STR, STR)     # tree.get_symlink_target(tree path)
IsExec = ufunc("IsExec", STR, BOOL)            # tree.is_executable(tree path)
DestEmpty = ufunc("DestEmpty", BOOL)
exceptions(FileExistsError="OSError", OSError="Exception", BzrError="Exception")
ghost(dirs=SetS(STR), links=MapS(STR, STR), opened=MapS(STR, INT), dest_created=BOOL)
ITER = verified("_export_iter_entries", pure=True, result=OUT3, raises={"Exception": None})
assumed("osutils.pathjoin", pure=True, no_raise=True, returns=lambda c: Join(c.args[0], c.args[1]))
assumed("os.mkdir", result=NONE, modifies=["g.dirs", "g.dest_created"],
        # (which directory is made is read off the call site: os.mkdir(dest) creates the destination itself)
        ensures=lambda c: And(c.g.dest_created, c.g.dirs == c.old.g.dirs) if c.arg_text[0] == "dest" else
        And(c.g.dirs == (c.old.g.dirs | mkset(SetS(STR), c.args[0])), c.g.dest_created == c.old.g.dest_created),
        raises={"FileExistsError": "unchanged", "OSError": "unchanged"})
assumed("os.listdir", pure=True, result=Seq(STR), ensures=lambda c: (Len(c.result) == 0) == DestEmpty(), raises={"OSError": None})
assumed("tree.get_symlink_target", pure=True, returns=lambda c: LinkTarget(c.args[0]), raises={"OSError": None})
assumed("os.symlink", result=NONE, modifies=["g.links"], ensures=lambda c: c.g.links == mapstore(c.old.g.links, c.args[1], c.args[0]),
        raises={"OSError": "unchanged"})
assumed("tree.is_executable", pure=True, no_raise=True, returns=lambda c: IsExec(c.args[0]))
assumed("os.open", modifies=["g.opened"], result=INT, ensures=lambda c: c.g.opened == mapstore(c.old.g.opened, c.args[0], c.args[2]),
        raises={"OSError": "unchanged"})
assumed("os.fdopen", pure=True, raises={"OSError": None})
assumed("os.fdopen.__exit__", pure=True, no_raise=True)
assumed("out.writelines", result=NONE, raises={"OSError": "unchanged"}, note="writes the chunks it is given to the opened file")
assumed("tree.get_file_mtime", pure=True, raises={"Exception": None})
assumed("os.utime", pure=True, raises={"OSError": None})
FETCH = Seq(Tup(STR, Tup(STR, STR, NONE)))
assumed("tree.iter_files_bytes", pure=True, result=Seq(Tup(Tup(STR, STR, NONE), ANY)), raises={"Exception": None},
        note="yields the requested (identifier, chunks) pairs in any order")
pure("getattr")


def first_loop_step(c):
    """what one entry may cause: exactly the one creation that its kind asks for, at dest/<relative path>"""
    full = Join(c.dest, c.dp)
    kind = attr(c.ie, "kind")
    mk, sl = c.calls_in_iteration("os.mkdir"), c.calls_in_iteration("os.symlink")
    known = Or(kind == lift("file"), kind == lift("directory"), kind == lift("tree-reference"), kind == lift("symlink"))
    return And(known,         # an entry of any other kind is refused, never skipped
               Implies(kind == lift("file"), lift(mk == 0 and sl == 0)),
               Implies(Or(kind == lift("directory"), kind == lift("tree-reference")),
                       And(lift(mk == 1 and sl == 0), In(full, c.g.dirs))),
               Implies(kind == lift("symlink"), And(lift(mk == 0 and sl == 1), In(full, c.g.links), c.g.links[full] == LinkTarget(c.tp))))


def second_loop_step(c):
    full = Join(c.dest, c.relpath)
    return And(lift(c.calls_in_iteration("os.open") == 1 and c.calls_in_iteration("out.writelines") == 1), In(full, c.g.opened),
               c.g.opened[full] == If(IsExec(c.treepath), 0o777, 0o666),
               lift(c.calls_in_iteration("os.mkdir") + c.calls_in_iteration("os.symlink") == 0))


target("breezy/export.py::dir_exporter_generator",
       params=dict(tree=TREE, dest=STR, root=ANY, subdir=Opt(STR), force_mtime=Opt(ANY), fileobj=ANY, recurse_nested=BOOL),
       generator=NONE, locals=dict(to_fetch=FETCH),
       loops={1: loop(r"for dp, tp, ie in _export_iter_entries\(", lambda c: Or(c.g.dest_created, DestEmpty()), body_post=first_loop_step),
              2: loop(r"for \(relpath, treepath, _unused_none\), chunks in tree\.iter_files_bytes\(to_fetch\)", lambda c: Or(c.g.dest_created, DestEmpty()),
                      body_post=second_loop_step)},
       ensures={"destination_was_created_or_was_empty": lambda c: Or(c.g.dest_created, DestEmpty())},
       raises={"BzrError": lambda c: Or(
                   # refusal of a non-empty destination, before anything is created
                   And(Not(DestEmpty()), lift(c.calls("os.symlink") + c.calls("os.open") == 0 and not c.in_loop())),
                   # a symlink that could not be created, or an entry of a kind that cannot be exported
                   lift(c.calls("os.symlink", failed=True) + c.calls("tree.get_symlink_target", failed=True) >= 1),
                   And(attr(c.ie, "kind") != lift("file"), attr(c.ie, "kind") != lift("directory"), attr(c.ie, "kind") != lift("tree-reference"),
                       attr(c.ie, "kind") != lift("symlink")) if c.has("ie") else FALSE),
               "Exception": True,
               # (observation: when get_symlink_target itself fails the handler's message refers to the unbound symlink_target)
               "UnboundLocalError": True},
       canary=lambda c: c.g.dest_created,
       equivalent_mutants={r"mtime|os\.utime|O_BINARY|O_TRUNC|O_CREAT|flags": "modification times and open flags: outside the statement (content and mode are)"})

undecided("that every file entry queued in the first loop is written in the second (the queue is handed to the external iter_files_bytes) and that "
          "the written bytes are the tree's (chunks are passed through)")
undecided("tar and zip exporters (archive byte formats), filtered content, per-file timestamps")

# ---- tar archives: what one entry becomes (prepare_tarball_item): a file keeps its exact content, its length and its executable bit
#      (0755 / 0644); a directory is a directory entry named with a trailing slash; a symlink keeps its target
TI = cls("TarInfo", fields={"name": STR, "mtime": ANY, "type": BYTES, "mode": INT, "size": INT, "linkname": STR})
TextOf = ufunc("TextOf", STR, BYTES)
BIO = Opaque("BytesIO")
BioContent = ufunc("BioContent", BIO, BYTES)
const("tarfile.REGTYPE", b"0")
const("tarfile.DIRTYPE", b"5")
const("tarfile.SYMTYPE", b"2")
assume_note("tarfile.REGTYPE / DIRTYPE / SYMTYPE are b'0' / b'5' / b'2' (standard library constants; the replay driver compares them)")
assumed("tarfile.TarInfo", pure=True, no_raise=True, result=TI, ensures=lambda c: eq(c.view(c.result).name, c.args[0]))
assumed("tree.get_file_text", pure=True, returns=lambda c: TextOf(c.args[0]), raises={"Exception": None})
assumed("BytesIO", pure=True, no_raise=True, result=BIO, ensures=lambda c: BioContent(c.result) == c.args[0])
ENT = Opaque("Entry")
attr_sort("Entry.kind", STR)
exceptions(BzrError="Exception")


def tar_item(c):
    item, fobj = c.view(c.result.t[0]), c.result.t[1]
    k, tp = attr(c.old.entry, "kind"), c.old.tree_path
    fn = Join(c.old.root, c.old.final_path)
    return If(k == lift("file"),
              And(item.type == lift(b"0"), item.name == fn, item.mode == If(IsExec(tp), 0o755, 0o644), item.size == Len(TextOf(tp)),
                  Not(fobj.is_none), BioContent(fobj.val) == TextOf(tp)),
              If(Or(k == lift("directory"), k == lift("tree-reference")),
                 And(item.type == lift(b"5"), item.name == fn + lift("/"), item.size == 0, item.mode == 0o755, fobj.is_none),
                 And(k == lift("symlink"), item.type == lift(b"2"), item.name == fn, item.size == 0, item.linkname == LinkTarget(tp),
                     fobj.is_none)))


target("breezy/archive/tar.py::prepare_tarball_item", params=dict(tree=ANY, root=STR, final_path=STR, tree_path=STR, entry=ENT, force_mtime=ANY),
       locals=dict(fileobj=Opt(BIO), content=BYTES),
       ensures={"the_entry_is_archived_faithfully": tar_item},
       raises={"BzrError": lambda c: Not(Or(*[attr(c.old.entry, "kind") == lift(k_) for k_ in ("file", "directory", "tree-reference", "symlink")])),
               "Exception": True},
       canary=lambda c: c.view(c.result.t[0]).size == 0,
       equivalent_mutants={r"mtime": "time stamps are outside the statement (they are forced or taken from the tree)"},
       note="one entry of a tar export")
