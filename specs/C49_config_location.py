# C49 - configuration by location: a section is selected iff it has no more path components than the location and every component
# matches (glob match per component); the extra path is the unmatched tail of the location.
PARTS = Seq(STR)
LP = ufunc("LP", PARTS)                       # the components of the location (location.rstrip('/').split('/'))
PathOf = ufunc("PathOf", STR, STR)            # local path of a 'file://' section name (urlutils, assumed)
PartsOf = ufunc("PartsOf", STR, PARTS)        # components of a section path
FnMatch = ufunc("FnMatch", STR, STR, BOOL)    # fnmatch.fnmatch(name, pattern)
JoinSlash = ufunc("JoinSlash", PARTS, STR)    # "/".join
AllM = ufunc("AllM", PARTS, INT, BOOL)        # the first j components of the location match (glob, per component) the first j of the section
assume_note("AllM(sp, j) is the conjunction of fnmatch(LP[k], sp[k]) for k < j: AllM(sp,0); AllM(sp,j+1) == AllM(sp,j) and fnmatch(LP[j], sp[j]); "
            "a false prefix stays false (definition and its monotonicity; instances stated where used)")


def all_match(sp, j):
    return AllM(sp, j)


def inner_hints(c):
    sp, j = c.section_parts, c.j
    return And(AllM(sp, 0),
               Implies(j < Len(sp), And(AllM(sp, j + 1) == And(AllM(sp, j), FnMatch(LP()[j], sp[j])),
                                        Implies(Not(AllM(sp, j + 1)), Not(AllM(sp, Len(sp)))))))

assumed("location.rstrip('/').split", pure=True, no_raise=True, returns=lambda c: LP())
assumed("section_path.rstrip('/').split", pure=True, no_raise=True, returns=lambda c: PartsOf(c.section_path))
assumed("urlutils.local_path_from_url", pure=True, returns=lambda c: PathOf(c.args[0]), raises={"Exception": None})
assumed("fnmatch.fnmatch", pure=True, no_raise=True, returns=lambda c: FnMatch(c.args[0], c.args[1]))
assumed("'/'.join", pure=True, no_raise=True, returns=lambda c: JoinSlash(c.args[0]))


def path_of(s):
    return If(And(Len(s) >= 7, s[0:7] == lift("file://")), PathOf(s), s)


def selected(s):
    sp = PartsOf(path_of(s))
    return And(Len(sp) <= Len(LP()), all_match(sp, Len(sp)))


OUT = Seq(Tup(STR, STR, INT))
Sel = fold_cat("Sel", Seq(STR), OUT, lambda s: If(selected(s), lift([Tup(STR, STR, INT).mk(
    s, JoinSlash(LP()[Len(PartsOf(path_of(s))):Len(LP())]), Len(PartsOf(path_of(s))))], OUT), lift([], OUT)))


target("breezy/config.py::_iter_for_location_by_parts", params=dict(sections=Seq(STR), location=STR), generator=Tup(STR, STR, INT),
       locals=dict(location_parts=PARTS, section_parts=PARTS),
       loops={1: loop(r"for section in sections", prefix="seen", inv=lambda c: And(c.g.yielded == Sel(c.seen), c.location_parts == LP())),
              2: loop(r"for name in zip\(location_parts, section_parts", index="j",
                      inv=lambda c: And(c.matched, all_match(c.section_parts, c.j), c.location_parts == LP(), c.g.yielded == c.pre.g.yielded,
                                        Len(c.section_parts) <= Len(LP()), c.section_parts == c.pre.section_parts),
                      hints=inner_hints)},
       ensures={"exactly_the_matching_sections_in_order_with_their_unmatched_tail": lambda c: c.g.yielded == Sel(c.old.sections)},
       raises={"Exception": True}, canary=lambda c: Len(c.g.yielded) == 0)
