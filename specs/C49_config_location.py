# C49 - configuration by location: a section is selected iff it has no more path components than the location and every component
# matches (glob match per component); the extra path is the unmatched tail of the location.
PARTS = Seq(STR)
LP = ufunc("LP", PARTS)                       # the components of the location (location.rstrip('/').split('/'))
PathOf = ufunc("PathOf", STR, STR)            # local path of a 'file://' section name (urlutils, assumed)
PartsOf = ufunc("PartsOf", STR, PARTS)        # components of a section path
FnMatch = ufunc("FnMatch", STR, STR, BOOL)    # fnmatch.fnmatch(name, pattern)
JoinSlash = ufunc("JoinSlash", PARTS, STR)    # "/".join
AllM = ufunc("AllM", PARTS, INT, BOOL)        # the first j components of the location match (glob, per component) the first j of the section
assume_note("AllM(sp, j) is the conjunction of fnmatch(LP[k], sp[k]) for k < j: AllM(sp,0); AllM(sp,j+1) == AllM(sp,j) and fnmatch(LP[j], sp[j]); "
            "a false prefix stays false (definition and its monotonicity; instances stated where used)")


def all_match(sp, j):
    return AllM(sp, j)


def inner_hints(c):
    sp, j = c.section_parts, c.j
    return And(AllM(sp, 0),
               Implies(j < Len(sp), And(AllM(sp, j + 1) == And(AllM(sp, j), FnMatch(LP()[j], sp[j])),
                                        Implies(Not(AllM(sp, j + 1)), Not(AllM(sp, Len(sp)))))))

assumed("location.rstrip('/').split", pure=True, no_raise=True, returns=lambda c: LP())
assumed("section_path.rstrip('/').split", pure=True, no_raise=True, returns=lambda c: PartsOf(c.section_path))
assumed("urlutils.local_path_from_url", pure=True, returns=lambda c: PathOf(c.args[0]), raises={"Exception": None})
assumed("fnmatch.fnmatch", pure=True, no_raise=True, returns=lambda c: FnMatch(c.args[0], c.args[1]))
assumed("'/'.join", pure=True, no_raise=True, returns=lambda c: JoinSlash(c.args[0]))


def path_of(s):
    return If(And(Len(s) >= 7, s[0:7] == lift("file://")), PathOf(s), s)


def selected(s):
    sp = PartsOf(path_of(s))
    return And(Len(sp) <= Len(LP()), all_match(sp, Len(sp)))


OUT = Seq(Tup(STR, STR, INT))
Sel = fold_cat("Sel", Seq(STR), OUT, lambda s: If(selected(s), lift([Tup(STR, STR, INT).mk(
    s, JoinSlash(LP()[Len(PartsOf(path_of(s))):Len(LP())]), Len(PartsOf(path_of(s))))], OUT), lift([], OUT)))


target("breezy/config.py::_iter_for_location_by_parts", params=dict(sections=Seq(STR), location=STR), generator=Tup(STR, STR, INT),
       locals=dict(location_parts=PARTS, section_parts=PARTS),
       loops={1: loop(r"for section in sections", prefix="seen", inv=lambda c: And(c.g.yielded == Sel(c.seen), c.location_parts == LP())),
              2: loop(r"for name in zip\(location_parts, section_parts", index="j",
                      inv=lambda c: And(c.matched, all_match(c.section_parts, c.j), c.location_parts == LP(), c.g.yielded == c.pre.g.yielded,
                                        Len(c.section_parts) <= Len(LP()), c.section_parts == c.pre.section_parts),
                      hints=inner_hints)},
       ensures={"exactly_the_matching_sections_in_order_with_their_unmatched_tail": lambda c: c.g.yielded == Sel(c.old.sections)},
       raises={"Exception": True}, canary=lambda c: Len(c.g.yielded) == 0)

# ---- LocationMatcher.get_sections: the most specific matching section comes first (more components first; ties broken by section id)
SEC = Opaque("LocationSection")
attr_sort("LocationSection.id", STR)
MATCH = Tup(INT, SEC)
Matching = ufunc("Matching", Seq(MATCH))       # what _get_matching_sections returns: (number of components, section) for every matching section
IgnoreParents = ufunc("IgnoreParents", SEC, Opt(STR))
BoolFrom = ufunc("BoolFrom", STR, Opt(BOOL))
cls("LocationMatcher", fields={"store": ANY, "location": STR})
assumed("self._get_matching_sections", pure=True, returns=lambda c: Matching(), raises={"Exception": None})
assumed("section.get", pure=True, returns=lambda c: IgnoreParents(c.section), raises={"Exception": None})
assumed("ui.bool_from_string", pure=True, returns=lambda c: BoolFrom(c.args[0].val), raises={"Exception": None})
def ignoring(sec):
    """the section sets ignore_parents to a true value: less specific sections are not consulted"""
    v = IgnoreParents(sec)
    return And(Not(v.is_none), Not(BoolFrom(v.val).is_none), BoolFrom(v.val).val)


YOUT = Seq(Tup(ANY, SEC))
StoreOf = ufunc("StoreOf", ANY)
YMap = fold_cat("YMap", Seq(MATCH), YOUT, lambda e: lift([Tup(ANY, SEC).mk(StoreOf(), e[1])], YOUT))
NoIgnore = fold_all("NoIgnore", Seq(MATCH), lambda e: Not(ignoring(e[1])))
M0 = ufunc("m0", MATCH)                        # an arbitrary matching section
J0 = ufunc("j0", INT)


def seq_member_hint(c):
    """membership witness: if the arbitrary section M0 is in the ordered list it sits at some position J0 (skolem constant of the fold)"""
    if not c.has("sections"):
        return TRUE
    s_ = c.sections
    return Implies(Not(NoneIsM0(s_)), And(0 <= J0(), J0() < Len(s_), s_[J0()] == M0()))


NoneIsM0 = fold_all("NoneIsM0", Seq(MATCH), lambda e: e != M0())
target("breezy/config.py::LocationMatcher.get_sections", generator=Tup(ANY, SEC), locals=dict(sections=Seq(MATCH)),
       requires=lambda c: c.self.store == StoreOf(),
       loops={1: loop(r"for _, section in sections", index="k", prefix="seen",
                      inv=lambda c: And(Len(c.g.yielded) == c.k, c.g.yielded == YMap(c.seen), NoIgnore(c.seen),
                                        Implies(c.k > 0, c.g.yielded[0][1] == c.sections[0][1])))},
       ensures={"most_specific_matching_section_first": lambda c: Implies(
           And(Len(c.g.yielded) > 0, Not(NoneIsM0(c.sections))),
           # no matching section is more specific than the first one yielded: fewer components, or as many and a smaller-or-equal id
           Or(M0()[0] < c.sections[0][0],
              And(M0()[0] == c.sections[0][0], Or(attr(M0()[1], "id") == attr(c.sections[0][1], "id"), attr(M0()[1], "id") < attr(c.sections[0][1], "id"))))),
                "stops_at_the_first_section_that_ignores_its_parents": lambda c: And(
                    c.g.yielded == YMap(c.sections[0:Len(c.g.yielded)]), NoIgnore(c.sections[0:Len(c.g.yielded)]),
                    Or(Len(c.g.yielded) == Len(c.sections), ignoring(c.sections[Len(c.g.yielded)][1]))),
                "first_yielded_is_the_head_of_the_ordered_list": lambda c: Implies(Len(c.g.yielded) > 0, c.g.yielded[0][1] == c.sections[0][1])},
       hints=lambda c: seq_member_hint(c),
       raises={"Exception": True}, canary=lambda c: Len(c.g.yielded) == 0)
