# C48 - ignore patterns: exception precedence ('!!' over '!' over plain), classification, and batching that does not change answers.
GL = Opaque("Globster")
always_truthy(GL, "Globster defines neither __bool__ nor __len__")
PATS = Seq(STR)
MatchOf = ufunc("MatchOf", GL, STR, Opt(STR))      # Globster.match(filename): a pattern of that Globster matching the name, or None
G = "breezy/globbing.py::"
exceptions(InvalidPattern="Exception")

# ---- classification
target(G + "Globster.identify", params=dict(pattern=STR), result=STR,
       ensures={"by_the_documented_rules": lambda c: c.result == If(
           Or(c.old.pattern[0:3] == lift("RE:"), In(lift("/"), c.old.pattern)), lift("fullpath"),
           If(c.old.pattern[0:2] == lift("*."), lift("extension"), lift("basename")))},
       raises={}, canary=lambda c: c.result == lift("basename"))

# ---- precedence of exception patterns
EG = cls("ExceptionGlobster", fields={"_ignores": Seq(GL)})
for k in (0, 1, 2):
    assumed("self._ignores[%d].match" % k, pure=True, returns=(lambda kk: (lambda c: MatchOf(c.self._ignores[kk], c.args[0])))(k),
            raises={"InvalidPattern": None}, note="Globster.match (verified below modulo the regular-expression engine)")


def m(c, k):
    return MatchOf(c.self._ignores[k], c.old.filename)


target(G + "ExceptionGlobster.match", params=dict(filename=STR), result=Opt(STR),
       requires=lambda c: Len(c.self._ignores) == 3,
       ensures={"double_exception_wins_then_exception_suppresses_then_plain": lambda c: c.result == If(
           truthy(m(c, 2)), Opt(STR).some(lift("!!") + m(c, 2).val), If(truthy(m(c, 1)), Opt(STR).none(), m(c, 0)))},
       raises={"InvalidPattern": True}, canary=lambda c: c.result.is_none)

# ---- batching: the patterns are stored in order in batches of at most 99, so grouping cannot change which patterns exist
RX = Opaque("Regex")
RP = Seq(Tup(RX, PATS))
Flat = fold_cat("Flat", RP, PATS, lambda e: e[1])
Small = fold_all("Small", RP, lambda e: And(Len(e[1]) >= 1, Len(e[1]) <= 99))
cls("Globster", fields={"_regex_patterns": RP})
assumed("lazy_regex.lazy_compile", pure=True, no_raise=True, result=RX)
pure("translator", "'|'.join")
target(G + "Globster._add_patterns", params=dict(patterns=PATS, translator=ANY, prefix=STR), locals=dict(grouped_rules=Seq(STR)),
       loops={1: loop(r"while patterns", lambda c: And(Flat(c.self._regex_patterns) + c.patterns == Flat(c.old.self._regex_patterns) + c.old.patterns,
                                                       Implies(Small(c.old.self._regex_patterns), Small(c.self._regex_patterns))),
                      decreases=lambda c: Len(c.patterns),
                      # one regular-expression group per pattern of the batch: match.lastindex - 1 indexes the batch's own list
                      body_post=lambda c: Len(c.grouped_rules) == Len(c.self._regex_patterns[Len(c.self._regex_patterns) - 1][1]))},
       ensures={"all_patterns_kept_in_order": lambda c: Flat(c.self._regex_patterns) == Flat(c.old.self._regex_patterns) + c.old.patterns,
                "batches_of_at_most_99": lambda c: Implies(Small(c.old.self._regex_patterns), Small(c.self._regex_patterns))},
       raises={"Exception": True}, canary=lambda c: Len(c.self._regex_patterns) == Len(c.old.self._regex_patterns))

# ---- Globster.match: the answer is a pattern of the batch whose regular expression matched; the index stays inside the batch
MATCH = Opaque("Match")
always_truthy(MATCH, "re.Match objects are always true")
attr_sort("Match.lastindex", INT)
RP2 = RP
Matches = ufunc("Matches", RX, STR, Opt(MATCH))
assumed("regex.match", pure=True, returns=lambda c: Matches(c.regex, c.args[0]), raises={"InvalidPattern": None},
        note="re: the super-regex of a batch has exactly one capturing group per pattern; lastindex is the group of the alternative that matched")
BatchOK = fold_all("BatchOK", RP2, lambda e: forall([STR], lambda f: Implies(
    Not(Matches(e[0], f).is_none), And(1 <= attr(Matches(e[0], f).val, "lastindex"), attr(Matches(e[0], f).val, "lastindex") <= Len(e[1])))))
F0 = ufunc("f0", STR)
NoMatch = fold_all("NoMatchF0", RP2, lambda e: Matches(e[0], F0()).is_none)
Flat2 = fold_cat("Flat2", RP2, PATS, lambda e: e[1])
pure("Globster.is_pattern_valid")
target(G + "Globster.match", cls="Globster", params=dict(filename=STR), result=Opt(STR),
       requires=lambda c: And(BatchOK(c.self._regex_patterns), c.filename == F0()),
       loops={1: loop(r"for regex, patterns in self\._regex_patterns", prefix="seen", inv=lambda c: NoMatch(c.seen)),
              2: loop(r"for _, patterns in self\._regex_patterns", lambda c: TRUE),
              3: loop(r"for p in patterns", lambda c: TRUE)},
       ensures={"none_only_if_no_batch_matches": lambda c: Implies(c.result.is_none, NoMatch(c.self._regex_patterns)),
                "a_reported_pattern_belongs_to_the_first_matching_batch": lambda c: Implies(
                    Not(c.result.is_none), And(Not(NoMatch(c.self._regex_patterns)), In(c.result.val, Flat2(c.self._regex_patterns))))},
       raises={"InvalidPattern": True},      # in particular no IndexError: lastindex - 1 stays inside the batch
       canary=lambda c: c.result.is_none,
       equivalent_mutants={r"e\.msg|bad_patterns|mutter\(|is_pattern_valid": "error message for invalid patterns"})
