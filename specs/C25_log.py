# C25 - log lists the requested history completely and consistently: depth rebasing proved; reverse_by_depth bounded (bounded/C25.py).
VR = Seq(Tup(BYTES, ANY, INT))
I0 = ufunc("i0", INT)           # an arbitrary position
AllGEm = None

target("breezy/log.py::_rebase_merge_depth", params=dict(view_revisions=VR), result=VR,
       ensures={"same_revisions_same_order": lambda c: And(Len(c.result) == Len(c.old.view_revisions),
                                                            Implies(And(0 <= I0(), I0() < Len(c.result)),
                                                                    And(c.result[I0()][0] == c.old.view_revisions[I0()][0],
                                                                        c.result[I0()][1] == c.old.view_revisions[I0()][1]))),
                "depths_shifted_by_one_constant_or_untouched": lambda c: Or(
                    c.result == c.old.view_revisions,
                    exists([INT], lambda m: And(m != 0, forall([INT], lambda i: Implies(And(0 <= i, i < Len(c.result)),
                                                                                       c.result[i][2] == c.old.view_revisions[i][2] - m))))),
                "the_top_level_shown_is_depth_zero": lambda c: Implies(
                    Len(c.result) > 0, exists([INT], lambda i: And(0 <= i, i < Len(c.result), c.result[i][2] == 0))),
                "untouched_when_an_end_is_at_depth_zero": lambda c: Implies(
                    Or(Len(c.old.view_revisions) == 0, c.old.view_revisions[0][2] == 0, c.old.view_revisions[Len(c.old.view_revisions) - 1][2] == 0),
                    c.result == c.old.view_revisions)},
       raises={}, canary=lambda c: c.result == c.old.view_revisions)

# ---- per-file log: the merge stack of _filter_revisions_touching_path (block: the filtering loop). After each revision the stack has
#      exactly one slot per level down to that revision's depth (slot l: the revision of level l that merges what follows, or None once
#      it has been listed) - whatever the drop in depth between two consecutive revisions.
MergeSorted = ufunc("MergeSorted", VR, BOOL)
assume_note("MergeSorted(v): every depth is >= 0, the first is <= 1 and each is at most one more than the one before it (the order merge_sort "
            "produces); used through its instance at the loop position (loop hint)")


def ms_at(v, i):
    """the definition of MergeSorted instantiated at position i"""
    return Implies(And(MergeSorted(v), 0 <= i, i < Len(v)),
                   And(v[i][2] >= 0, Implies(i == 0, v[i][2] <= 1), Implies(i > 0, v[i][2] <= v[i - 1][2] + 1)))


INFO = Tup(BYTES, ANY, INT)
STACK = Seq(Opt(INFO))
target("breezy/log.py::_filter_revisions_touching_path", block=(r"current_merge_stack = \[None\]", r"^\s*for info in view_revisions"),
       params=dict(view_revisions=VR, modified_text_revisions=SetS(BYTES), include_merges=BOOL, result=VR),
       locals=dict(current_merge_stack=STACK),
       requires=lambda c: And(Len(c.var("result")) == 0, MergeSorted(c.view_revisions)),
       loops={2: loop(r"for info in view_revisions", index="i", hints=lambda c: And(ms_at(c.old.view_revisions, c.i), ms_at(c.old.view_revisions, c.i - 1)),
                      inv=lambda c: And(
                  MergeSorted(c.view_revisions), c.view_revisions == c.old.view_revisions,
                  Len(c.current_merge_stack) == If(c.i == 0, 1, c.view_revisions[c.i - 1][2] + 1),
                  # the deepest slot belongs to the revision just handled (None once it has been listed)
                  Implies(c.i > 0, Or(c.current_merge_stack[Len(c.current_merge_stack) - 1].is_none,
                                      c.current_merge_stack[Len(c.current_merge_stack) - 1].val == c.view_revisions[c.i - 1])))),
              3: loop(r"for idx in range\(len\(current_merge_stack\)\)", lambda c: And(
                  Len(c.current_merge_stack) == Len(c.pre.current_merge_stack),
                  Or(c.current_merge_stack[Len(c.current_merge_stack) - 1].is_none,
                     c.current_merge_stack[Len(c.current_merge_stack) - 1] == c.pre.current_merge_stack[Len(c.current_merge_stack) - 1])))},
       ensures={"one_slot_per_level_down_to_the_last_revision": lambda c: Len(c.current_merge_stack) == If(
           Len(c.old.view_revisions) == 0, 1, c.old.view_revisions[Len(c.old.view_revisions) - 1][2] + 1)},
       raises={}, canary=lambda c: Len(c.current_merge_stack) == 1,
       equivalent_mutants={r"rev_id in modified_text_revisions|node is not None and|include_merges or node\[2\] == 0":
                           "WHICH slots are listed is not part of this shape contract: the listing is decided by the bounded oracle "
                           "(bounded/C25.py, every profile up to length 6 x every modified set)"},
       note="block: the merge stack is truncated to the current depth however many levels the log drops at once")

undecided("generation of the view revisions over graphs (merge_sort: vcsgraph), revision ranges, batching adapters; per-file filtering: the merge-stack shape is proved, the listing itself is bounded (bounded/C25.py)")
undecided("reverse_by_depth (recursive, in-place slice assignment): bounded stand-in only (bounded/C25.py)")
