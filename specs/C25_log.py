# C25 - log lists the requested history completely and consistently: depth rebasing proved; reverse_by_depth bounded (bounded/C25.py).
VR = Seq(Tup(BYTES, ANY, INT))
I0 = ufunc("i0", INT)           # an arbitrary position
AllGEm = None

target("breezy/log.py::_rebase_merge_depth", params=dict(view_revisions=VR), result=VR,
       ensures={"same_revisions_same_order": lambda c: And(Len(c.result) == Len(c.old.view_revisions),
                                                            Implies(And(0 <= I0(), I0() < Len(c.result)),
                                                                    And(c.result[I0()][0] == c.old.view_revisions[I0()][0],
                                                                        c.result[I0()][1] == c.old.view_revisions[I0()][1]))),
                "depths_shifted_by_one_constant_or_untouched": lambda c: Or(
                    c.result == c.old.view_revisions,
                    exists([INT], lambda m: And(m != 0, forall([INT], lambda i: Implies(And(0 <= i, i < Len(c.result)),
                                                                                       c.result[i][2] == c.old.view_revisions[i][2] - m))))),
                "the_top_level_shown_is_depth_zero": lambda c: Implies(
                    Len(c.result) > 0, exists([INT], lambda i: And(0 <= i, i < Len(c.result), c.result[i][2] == 0))),
                "untouched_when_an_end_is_at_depth_zero": lambda c: Implies(
                    Or(Len(c.old.view_revisions) == 0, c.old.view_revisions[0][2] == 0, c.old.view_revisions[Len(c.old.view_revisions) - 1][2] == 0),
                    c.result == c.old.view_revisions)},
       raises={}, canary=lambda c: c.result == c.old.view_revisions)

undecided("generation of the view revisions over graphs (merge_sort: vcsgraph), revision ranges, per-file filtering, batching adapters")
undecided("reverse_by_depth (recursive, in-place slice assignment): bounded stand-in only (bounded/C25.py)")
