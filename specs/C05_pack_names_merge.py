# C05 - concurrent pack writers lose nothing: the pack-names list is rewritten as a three-way merge
# of (what is on disk now, what was on disk when we loaded it, what we have in memory), under the names lock.

NODE = Tup(STR, BYTES)               # (pack name, index sizes)
NODES = SetS(NODE)
IDX = Seq(Tup(ANY, Tup(BYTES), BYTES))   # entries of the pack-names index: (index, (name,), value)

N0 = ufunc("n0", NODE)               # an arbitrary node
M0 = ufunc("m0", STR)                # an arbitrary pack name
Dec = ufunc("Dec", BYTES, STR)       # ascii decode / encode (assumed inverse on pack names)
Enc = ufunc("Enc", STR, BYTES)

PACKEXT = lift(".pack")
NoneIsN0 = fold_all("NoneIsN0", IDX, lambda e: NODE.mk(Dec(e[1][0]), e[2]) != N0())

RPC = cls("RepositoryPackCollection", fields=dict(_names=MapS(STR, ANY), _packs_at_load=NODES))
# disk_idx: what pack-names holds before our own write. Other processes may rewrite it at any time until we hold the names lock.
ghost(names_locked=BOOL, disk_idx=IDX, disk_names=NODES, built=NODES, written=BOOL, obs_deleted=SetS(STR))

assumed("self._iter_disk_pack_index", pure=True, returns=lambda c: c.g.disk_idx, raises={"Exception": None},
        note="reads the pack-names index from disk")
assumed("key[0].decode", pure=True, returns=lambda c: Dec(c.key[0]), raises={"UnicodeDecodeError": None})

P = "breezy/bzr/pack_repo.py::RepositoryPackCollection."


def disk_set_is_image(c, D):
    return In(N0(), D) == Not(NoneIsN0(c.g.disk_idx))


def merge_shape(r, L):
    """Caller-visible part of the contract: (disk_nodes, deleted, new, orig)."""
    return And(r[0] == ((r[3] - r[1]) | r[2]),           # on-disk now, minus what we removed, plus what we add
               V(BOOL, (r[1] & r[2]).t == NODES.empty().t),
               (r[1] - L) == NODES.empty(), (r[2] & L) == NODES.empty())


def new_nodes_are_in_memory(r, names, L=None):
    """what we add to the disk list is named in self._names (the in-memory list); what we loaded and no longer hold in memory is deleted"""
    a = Implies(In(N0(), r[2]), In(N0()[0], names))
    if L is None:
        return a
    return And(a, Implies(And(In(N0(), L), Not(In(N0()[0], names))), In(N0(), r[1])))


DIFF = verified(("RepositoryPackCollection", "_diff_pack_names"), result=Tup(NODES, NODES, NODES, NODES),
                ensures=lambda c: And(merge_shape(c.result, c.self._packs_at_load), disk_set_is_image(c, c.result[3]),
                                      new_nodes_are_in_memory(c.result, c.self._names, c.self._packs_at_load)),
                raises={"Exception": None})

target(P + "_diff_pack_names", modifies=[],
       locals=dict(disk_nodes=NODES, current_nodes=NODES, orig_disk_nodes=NODES),
       result=Tup(NODES, NODES, NODES, NODES),
       loops={1: loop(r"for _index, key, value in self\._iter_disk_pack_index\(\)", prefix="seen",
                      inv=lambda c: In(N0(), c.disk_nodes) == Not(NoneIsN0(c.seen))),
              2: loop(r"for name, sizes in self\._names\.items\(\)", done="done",
                      inv=lambda c: And(Implies(In(N0(), c.current_nodes), In(N0()[0], c.done)),
                                        Implies(In(M0(), c.done), exists([BYTES], lambda v: In(NODE.mk(M0(), v), c.current_nodes)))))},
       ensures={
           "caller_contract": lambda c: And(merge_shape(c.result, c.old.self._packs_at_load), disk_set_is_image(c, c.result[3]),
                                            new_nodes_are_in_memory(c.result, c.old.self._names, c.old.self._packs_at_load)),
           # the statement's sentence: with D on disk now, L loaded at lock time, C in memory
           "three_way_merge": lambda c: And(c.result[0] == ((c.result[3] - (c.old.self._packs_at_load - c.current_nodes))
                                                            | (c.current_nodes - c.old.self._packs_at_load)),
                                            c.result[1] == (c.old.self._packs_at_load - c.current_nodes),
                                            c.result[2] == (c.current_nodes - c.old.self._packs_at_load)),
           "memory_nodes_are_the_memory_names": lambda c: And(
               Implies(In(N0(), c.current_nodes), In(N0()[0], c.old.self._names)),
               Implies(In(M0(), c.old.self._names), exists([BYTES], lambda v: In(NODE.mk(M0(), v), c.current_nodes)))),
       },
       raises={"Exception": True},
       canary=lambda c: c.result[0] == c.result[3])

# ---- _save_pack_names: writes exactly the merge, under the names lock, and always unlocks
assumed("self.lock_names", result=NONE, modifies=["g.names_locked", "g.disk_idx"],
        requires=lambda c: Not(c.g.names_locked), ensures=lambda c: c.g.names_locked,
        raises={"Exception": "unchanged"},
        note="RELY: until the names lock is ours other processes may rewrite pack-names (the on-disk index is arbitrary afterwards); "
             "while we hold it nobody else writes")
assumed("self._unlock_names", result=NONE, modifies=["g.names_locked"], no_raise=True,
        requires=lambda c: c.g.names_locked, ensures=lambda c: Not(c.g.names_locked),
        note="releasing the names lock (LockableFiles.unlock under only_raises) does not propagate errors")
assumed("self._index_builder_class", modifies=["g.built"], ensures=lambda c: c.g.built == NODES.empty())
assumed("name.encode", pure=True, returns=lambda c: Enc(c.name), ensures=lambda c: Dec(c.result) == c.name,
        raises={"UnicodeEncodeError": None})
assumed("builder.add_node", result=NONE, modifies=["g.built"],
        ensures=lambda c: c.g.built == (c.old.g.built | mkset(NODES, NODE.mk(Dec(c.args[0][0]), c.args[1]))))
assumed("builder.finish", pure=True)
assumed("self.repo.controldir._get_file_mode", pure=True)
assumed("self.transport.put_file", result=NONE, modifies=["g.disk_names", "g.written"],
        requires=lambda c: And(c.g.names_locked, eq(c.args[0], "pack-names")),
        ensures=lambda c: And(c.g.disk_names == c.g.built, c.g.written),
        note="transport.put_file replaces pack-names atomically (temp file + rename); a failing write changes nothing")
CLEAR = verified(("RepositoryPackCollection", "_clear_obsolete_packs"), params=["preserve"], result=Seq(STR),
                 modifies=["g.obs_deleted"],
                 # called under the lock, after the rewrite, and told to spare the packs that are about to be obsoleted
                 requires=lambda c: And(c.g.names_locked, c.g.written,
                                        Implies(truthy(c.obsolete_packs), Not(c.preserve.is_none))),
                 raises={"Exception": None})
assumed("self._syncronize_pack_names_from_disk_nodes", result=Tup(Seq(STR), Seq(STR), Seq(STR)), modifies=["self._names"],
        requires=lambda c: Not(c.g.names_locked))
assumed("self._obsolete_packs", result=NONE, requires=lambda c: And(c.g.written, Not(c.g.names_locked)),
        note="packs are moved to obsolete_packs only after pack-names has been rewritten without them")


attr_sort("Pack.name", STR)


def unlocked_again(c):
    return Not(c.g.names_locked)


target(P + "_save_pack_names",
       params=dict(clear_obsolete_packs=BOOL, obsolete_packs=Opt(Seq(Opaque("Pack")))),
       locals=dict(already_obsolete=Seq(STR), to_preserve=Opt(SetS(STR))), result=Seq(STR),
       equivalent_mutants={r"drop:Expr.*\| self\._obsolete_packs\(|\| obsolete_packs = \[|already_obsolete$":
                           "moving superseded packs to obsolete_packs (or not) cannot lose data that pack-names references"},
       requires=lambda c: And(Not(c.g.names_locked), Not(c.g.written)),
       loops={1: loop(r"for name, value in disk_nodes", done="done", inv=lambda c: And(c.g.names_locked, Not(c.g.written),
                                                                                      c.g.built == c.done, c.g.disk_names == c.old.g.disk_names,
                                                                                      c.self._packs_at_load == c.old.self._packs_at_load))},
       modifies=["g.names_locked", "g.disk_idx", "g.disk_names", "g.built", "g.written", "g.obs_deleted", "self._packs_at_load", "self._names"],
       ensures={"lock_released": unlocked_again,
                "writes_the_merge_once": lambda c: And(c.calls("self.transport.put_file") == 1, c.g.written,
                                                       c.g.disk_names == c.self._packs_at_load),
                "one_diff_under_the_lock": lambda c: c.calls("RepositoryPackCollection._diff_pack_names") == 1,
                "memory_resynchronised_once": lambda c: c.calls("self._syncronize_pack_names_from_disk_nodes") == 1,
                "obsolete_dir_cleared_iff_asked": lambda c: If(c.old.clear_obsolete_packs,
                                                               c.calls("RepositoryPackCollection._clear_obsolete_packs") == 1,
                                                               c.calls("RepositoryPackCollection._clear_obsolete_packs") == 0),
                "returns_the_new_names": lambda c: In(M0(), c.result) == exists([BYTES], lambda v: In(NODE.mk(M0(), v), c.new_nodes)),
                "written_content_is_the_three_way_merge": lambda c: And(
                    c.g.disk_names == c.disk_nodes,
                    merge_shape(Tup(NODES, NODES, NODES, NODES).mk(c.disk_nodes, c._deleted_nodes, c.new_nodes, c._orig_disk_nodes),
                                c.old.self._packs_at_load),
                    disk_set_is_image(c, c._orig_disk_nodes))},
       raises={"Exception": lambda c: And(unlocked_again(c),       # the names lock is released on every exceptional exit
                                          # pack-names is either untouched or completely rewritten with a merge
                                          If(c.g.written, c.calls("self.transport.put_file") == 1, c.g.disk_names == c.old.g.disk_names))},
       canary=lambda c: c.g.disk_names == c.old.g.disk_names)

# ---- _clear_obsolete_packs never deletes a preserved pack
ObsFiles = ufunc("ObsFiles", Seq(STR))
Stem = ufunc("Stem", STR, STR)
Ext = ufunc("Ext", STR, STR)
F0 = ufunc("f0", STR)
AllNotF0 = fold_all("AllNotF0", Seq(STR), lambda e: e != F0())
NoPackM0 = fold_all("NoPackM0", Seq(STR), lambda e: Not(And(Stem(e) == M0(), Ext(e) == ".pack")))
exceptions(NoSuchFile="PathError", PathError="Exception", TransportError="Exception")
assumed("self.transport.clone", pure=True)
assumed("obsolete_pack_transport.list_dir", pure=True, returns=lambda c: ObsFiles(),
        raises={"NoSuchFile": lambda c: Len(ObsFiles()) == 0, "Exception": None})   # no directory: nothing to list
assumed("osutils.splitext", pure=True, returns=lambda c: Tup(STR, STR).mk(Stem(c.args[0]), Ext(c.args[0])))
assumed("obsolete_pack_transport.delete", result=NONE, modifies=["g.obs_deleted"],
        ensures=lambda c: c.g.obs_deleted == (c.old.g.obs_deleted | mkset(SetS(STR), c.args[0])),
        raises={"PathError": "unchanged", "TransportError": "unchanged", "Exception": "unchanged"})


def preserved(c, stem):
    p = c.old.preserve
    return And(Not(p.is_none), In(stem, p.val))


target(P + "_clear_obsolete_packs",
       params=dict(preserve=Opt(SetS(STR))), locals=dict(found=Seq(STR)), result=Seq(STR),
       loops={1: loop(r"for filename in obsolete_pack_files", prefix="seen",
                      inv=lambda c: And(Implies(And(In(F0(), c.g.obs_deleted), Not(In(F0(), c.old.g.obs_deleted))),
                                                And(Not(AllNotF0(c.seen)), Not(preserved(c, Stem(F0()))))),
                                        In(M0(), c.found) == Not(NoPackM0(c.seen))))},
       modifies=["g.obs_deleted"],
       ensures={"deletes_only_listed_unpreserved_files": lambda c: Implies(
           And(In(F0(), c.g.obs_deleted), Not(In(F0(), c.old.g.obs_deleted))),
           And(In(F0(), ObsFiles()), Not(preserved(c, Stem(F0()))))),
                "reports_the_packs_found": lambda c: In(M0(), c.result) == Not(NoPackM0(ObsFiles()))},
       equivalent_mutants={r"drop:Expr.*\| (obsolete_pack_transport\.delete|warning)\(": "deleting less is not a violation of 'never deletes a preserved pack'"},
       raises={"Exception": lambda c: Implies(And(In(F0(), c.g.obs_deleted), Not(In(F0(), c.old.g.obs_deleted))),
                                              Not(preserved(c, Stem(F0()))))},
       canary=lambda c: c.g.obs_deleted == c.old.g.obs_deleted)

seq_lemma("member_of_listing", Seq(STR), lambda s: Implies(Not(AllNotF0(s)), In(F0(), s)))

undecided("everything over schedules: reload/retry after RetryWithNewPacks, readers racing renames into obsolete_packs")
undecided("_syncronize_pack_names_from_disk_nodes and _obsolete_packs bodies (pack objects are external)")

# ---- reload_pack_names: after a reload the base of the next three-way merge is exactly what was just read from disk
#      (otherwise packs that others have since removed would be taken for packs this process added, and written back)
assumed("self.ensure_loaded", result=BOOL, modifies=["self._names", "self._packs_at_load"], raises={"Exception": "unchanged"},
        note="first use: reads pack-names and sets the merge base to it (not under contract); returns True only then")
target(P + "reload_pack_names", result=BOOL, locals=dict(first_read=BOOL), modifies=["self._names", "self._packs_at_load"],
       requires=lambda c: Not(c.g.names_locked),
       ensures={"the_merge_base_is_what_was_read": lambda c: If(
                    truthy(c.first_read), lift(c.calls("RepositoryPackCollection._diff_pack_names") == 0),      # first load: ensure_loaded did it
                    And(lift(c.calls("RepositoryPackCollection._diff_pack_names") == 1), disk_set_is_image(c, c.self._packs_at_load))),
                "memory_resynchronised": lambda c: Or(truthy(c.first_read), lift(c.calls("self._syncronize_pack_names_from_disk_nodes") == 1))},
       raises={"Exception": True},
       canary=lambda c: lift(c.calls("RepositoryPackCollection._diff_pack_names") == 0),
       equivalent_mutants={r"retnone|return bool\(": "the 'something changed' answer only decides whether the caller retries"})
