# C50 - command-line splitting inverts quoting: BOUNDED stand-in only (bounded/C50.py), labelled exploration, never counted as proved.
# The splitter is a four-class state machine with dynamic dispatch and a push-back iterator; its top-level law needs an induction over
# the quoted string that is not worth the trusted encodings it would require.
LEVEL = "exploration"
undecided("everything: no obligation is discharged deductively for this property; see bounded/C50.py for the stated bounds")
