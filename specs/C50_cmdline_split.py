# C50 - command-line splitting inverts quoting. The property as a whole (split(quote(args)) == args) is decided by the bounded stand-in
# (bounded/C50.py, labelled exploration): the splitter is a four-class state machine with dynamic dispatch and a push-back iterator.
# One conjunct is proved: the backslash rule (_Backslash.process / finish), which is what makes quoting invertible:
#   2N backslashes before a quote character give N backslashes and the quote is handed back to the enclosing state;
#   2N+1 backslashes before a quote give N backslashes and a literal quote; N backslashes before anything else stay N backslashes.
LEVEL = "exploration"
ghost(pushed=Seq(STR))         # what was pushed back onto the input, in order
CTX = cls("Splitter", fields={"token": Seq(STR), "allowed_quote_chars": STR, "seq": ANY, "quoted": BOOL})
STATE = Opaque("State")
always_truthy(STATE, "state objects define neither __bool__ nor __len__")
BS = cls("_Backslash", fields={"exit_state": STATE, "count": INT})
assumed("context.seq.pushback", result=NONE, no_raise=True, modifies=["g.pushed"],
        ensures=lambda c: c.g.pushed == c.old.g.pushed + lift([c.args[0]], Seq(STR)), note="_PushbackSequence.pushback: the character is read again next")
B = "breezy/cmdline.py::_Backslash."
BSL = lift("\\")


def is_quote(c, ch):
    return In(ch, c.old.context.allowed_quote_chars)


target(B + "process", params=dict(next_char=STR, context=CTX), modifies=["self.count", "context.token", "g.pushed"],
       requires=lambda c: And(Len(c.next_char) == 1, c.self.count >= 0),
       ensures={"the_backslash_rule": lambda c: If(
           c.old.next_char == BSL,
           And(c.self.count == c.old.self.count + 1, c.context.token == c.old.context.token, c.g.pushed == c.old.g.pushed),
           If(is_quote(c, c.old.next_char),
              And(c.self.count == 0,
                  If(c.old.self.count % 2 == 1,
                     And(c.context.token == c.old.context.token + lift([Rep(BSL, c.old.self.count // 2)], Seq(STR)) + lift([c.old.next_char], Seq(STR)),
                         c.g.pushed == c.old.g.pushed),
                     And(c.context.token == c.old.context.token + lift([Rep(BSL, c.old.self.count // 2)], Seq(STR)),
                         c.g.pushed == c.old.g.pushed + lift([c.old.next_char], Seq(STR))))),
              And(c.self.count == 0, c.g.pushed == c.old.g.pushed + lift([c.old.next_char], Seq(STR)),
                  c.context.token == If(c.old.self.count > 0, c.old.context.token + lift([Rep(BSL, c.old.self.count)], Seq(STR)), c.old.context.token))))},
       raises={}, canary=lambda c: c.self.count == 0,
       equivalent_mutants={r"retnone": "WHICH state object is returned is not part of this contract (the result is the object itself or its exit state: "
                                       "two different sorts); the dispatch is decided by the bounded part"},
       note="2N backslashes + quote -> N backslashes, quote re-read; 2N+1 + quote -> N backslashes and a literal quote; otherwise N stay N")
target(B + "finish", params=dict(context=CTX), modifies=["context.token"],
       ensures={"trailing_backslashes_are_kept": lambda c: c.context.token == If(
           c.self.count > 0, c.old.context.token + lift([Rep(BSL, c.self.count)], Seq(STR)), c.old.context.token)},
       raises={}, canary=lambda c: c.context.token == c.old.context.token)

undecided("the other states (_Whitespace, _Quotes, _Word), the dispatch loop of Splitter._get_token and the top-level law "
          "split(quote(args)) == args: bounded stand-in only (bounded/C50.py)")
