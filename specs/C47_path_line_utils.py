# C47 - path and line utilities: every anchor is Rust (crates/osutils via breezy/_osutils_rs) - no Python source to put under
# contract. BOUNDED stand-in only (bounded/C47.py) on the functions as built in /repo, labelled exploration, never counted as proved.
LEVEL = "exploration"
undecided("everything: the implementations are compiled Rust; no deductive verifier for Rust is installed; the extension is exercised as built (not rebuilt by the check)")
