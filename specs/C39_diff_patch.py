# C39 - diffs apply back. Proved: the per-line rule of the patcher (block contract on the body of the hunk-line loop of
# iter_patched_from_hunks): an inserted line is emitted and consumes nothing of the original; a context or removed line consumes exactly
# one original line, which must be equal to the line the patch lists - otherwise PatchConflict is raised and nothing is emitted; a
# context line is emitted, a removed line is not. The round trip diff -> parse -> apply goes through patiencediff/difflib opcodes and a
# Rust-backed parser and is covered by the bounded stand-in (bounded/C39.py), never counted as proved.
LEVEL = "exploration"     # the property as a whole is decided by the bounded stand-in only; the block below is a proved conjunct
HL = Opaque("HunkLine")
class_tests(HL, ["InsertLine", "ContextLine", "RemoveLine"])
attr_sort("HunkLine.contents", BYTES)
always_truthy(HL, "hunk lines define neither __bool__ nor __len__")
exceptions(PatchConflict="Exception", StopIteration="Exception", AssertionError="Exception")
assume_note("a hunk line is an instance of exactly one of InsertLine, ContextLine, RemoveLine (three sibling classes of breezy.patches); "
            "stated as a precondition of the block")
pure("PatchConflict", "b''.join")


def one_kind(h):
    i, c, r = is_a(h, "InsertLine"), is_a(h, "ContextLine"), is_a(h, "RemoveLine")
    return And(Or(i, c, r), Not(And(i, c)), Not(And(i, r)), Not(And(c, r)))


def rule(c):
    h, o = c.old.hunk_line, c.old.orig_lines
    ins = is_a(h, "InsertLine")
    return If(ins,
              And(c.g.yielded == c.old.g.yielded + lift([attr(h, "contents")], Seq(BYTES)), c.orig_lines == o, c.line_no == c.old.line_no),
              And(Len(o) >= 1, o[0] == attr(h, "contents"), c.orig_lines == o[1:Len(o)], c.line_no == c.old.line_no + 1,
                  c.g.yielded == If(is_a(h, "ContextLine"), c.old.g.yielded + lift([o[0]], Seq(BYTES)), c.old.g.yielded)))


target("breezy/patches.py::iter_patched_from_hunks", block=(r"^\s*seen_patch\.append\(hunk_line\.contents\)", r"(?m)^\s*if isinstance\(hunk_line, InsertLine\):$"),
       params=dict(hunk_line=HL, orig_lines=Seq(BYTES), seen_patch=Seq(BYTES), line_no=INT, hunks=ANY, hunk=ANY), generator=BYTES,
       locals=dict(orig_line=BYTES),
       requires=lambda c: one_kind(c.hunk_line),
       ensures={"one_hunk_line_is_applied_by_the_rule": rule,
                "the_patch_text_seen_so_far_is_recorded": lambda c: c.seen_patch == c.old.seen_patch + lift([attr(c.old.hunk_line, "contents")], Seq(BYTES))},
       raises={"PatchConflict": lambda c: And(Not(is_a(c.old.hunk_line, "InsertLine")), Len(c.old.orig_lines) >= 1,
                                              c.old.orig_lines[0] != attr(c.old.hunk_line, "contents"), c.g.yielded == c.old.g.yielded),
               "StopIteration": lambda c: And(Not(is_a(c.old.hunk_line, "InsertLine")), Len(c.old.orig_lines) == 0, c.g.yielded == c.old.g.yielded),
               "AssertionError": lambda c: FALSE},
       canary=lambda c: c.g.yielded == c.old.g.yielded,
       note="block: how one line of a hunk is applied to the original text")

undecided("the hunk loop around the block (skipping to hunk.orig_pos, the tail after the last hunk), parsing and serialising of patches (Rust), "
          "diff generation: bounded stand-in only (bounded/C39.py)")
