# C39 - diffs apply back: BOUNDED stand-in only (bounded/C39.py), labelled exploration, never counted as proved.
# The pair goes through patiencediff/difflib opcodes and a Rust-backed parser (breezy._patch_rs); the per-line consumption rule of
# iter_patched_from_hunks is provable in principle (not built); the round trip is checked exhaustively on the real functions.
LEVEL = "exploration"
undecided("everything: no obligation is discharged deductively for this property; see bounded/C39.py for the stated bounds")
