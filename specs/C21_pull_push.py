# C21 - pull and push never silently drop history.

REV = BYTES
TIP = Tup(INT, REV)
NULL = lift(b"null:")
const("_mod_revision.NULL_REVISION", b"null:")
Desc = ufunc("Desc", REV, REV, BOOL)     # Desc(x, y): x is y or a descendant of y (ancestry partial order)
LHof = ufunc("LHof", REV, Seq(REV))      # left-hand ancestry of a revision, itself first
Dist = ufunc("Dist", REV, INT)           # graph.find_distance_to_null: length of the left-hand history
TIP0 = ufunc("tip0", REV)
ghost(tip=TIP)
exceptions(DivergedBranches="Exception", AppendRevisionsOnlyViolation="Exception", InvalidRevisionId="Exception",
           GhostRevisionsHaveNoRevno="Exception")


def order(a, b):
    """ancestry facts needed for two revisions"""
    return And(Desc(a, a), Desc(b, b), Implies(And(Desc(a, b), Desc(b, a)), a == b))


assumed("graph.heads", pure=True, result=SetS(REV),
        ensures=lambda c: c.result == If(Desc(c.args[0][1], c.args[0][0]), mkset(SetS(REV), c.args[0][1]),
                                         If(Desc(c.args[0][0], c.args[0][1]), mkset(SetS(REV), c.args[0][0]),
                                            mkset(SetS(REV), c.args[0][0], c.args[0][1]))),
        note="vcsgraph heads() of two revisions: the one that descends from the other, or both when unrelated")


def rel(a, b):
    return If(Desc(b, a), lift("b_descends_from_a"), If(Desc(a, b), lift("a_descends_from_b"), lift("diverged")))


RELS = verified(("Branch", "_revision_relations"), params=["revision_a", "revision_b", "graph"], pure=True, no_raise=True, result=STR,
                requires=lambda c: order(c.revision_a, c.revision_b), returns=lambda c: rel(c.revision_a, c.revision_b))
Branch = cls("Branch", fields={})
target("breezy/branch.py::Branch._revision_relations", params=dict(revision_a=REV, revision_b=REV), result=STR,
       requires=lambda c: order(c.revision_a, c.revision_b),
       ensures=lambda c: c.result == rel(c.old.revision_a, c.old.revision_b), raises={},
       canary=lambda c: c.result == "diverged", equivalent_mutants={r"drop:Raise.*AssertionError": "dead code: heads() of two revisions is one of the three cases"})

CHECK = verified("self.target._check_if_descendant_or_diverged", params=["revision_a", "revision_b", "graph", "other_branch"],
                 pure=True, result=BOOL, requires=lambda c: And(order(c.revision_a.val, c.revision_b.val), Not(c.graph.is_none)),
                 ensures=lambda c: And(c.result == Desc(c.revision_b.val, c.revision_a.val),
                                       Or(Desc(c.revision_b.val, c.revision_a.val), Desc(c.revision_a.val, c.revision_b.val))),
                 raises={"DivergedBranches": lambda c: And(Not(Desc(c.revision_a.val, c.revision_b.val)),
                                                          Not(Desc(c.revision_b.val, c.revision_a.val)))})
target("breezy/branch.py::Branch._check_if_descendant_or_diverged", params=dict(revision_a=REV, revision_b=REV), result=BOOL,
       requires=lambda c: order(c.revision_a, c.revision_b),
       ensures=lambda c: And(c.result == Desc(c.old.revision_b, c.old.revision_a),
                             Or(Desc(c.old.revision_b, c.old.revision_a), Desc(c.old.revision_a, c.old.revision_b))),
       raises={"DivergedBranches": lambda c: And(Not(Desc(c.old.revision_a, c.old.revision_b)), Not(Desc(c.old.revision_b, c.old.revision_a)))},
       canary=lambda c: c.result == True, equivalent_mutants={r"drop:Raise.*AssertionError": "dead code"})

# ---- GenericInterBranch._update_revisions: the target tip moves only forward unless overwrite
OtherRevno, OtherLast = ufunc("OtherRevno", INT), ufunc("OtherLast", REV)
assumed("self.source.lock_read", pure=True, raises={"Exception": None})
assumed("self.target.lock_write", pure=True, raises={"Exception": None})
assumed("self.source.last_revision_info", pure=True, returns=lambda c: TIP.mk(OtherRevno(), OtherLast()), raises={"Exception": None})
assumed("self.target.last_revision", pure=True, returns=lambda c: c.g.tip[1], raises={"Exception": None})
assumed("self.target.last_revision_info", pure=True, returns=lambda c: c.g.tip, raises={"Exception": None})
assumed("self.fetch", result=NONE, raises={"Exception": "unchanged"},
        note="copies revisions into the target repository; does not move the branch tip")
assumed("self.target.repository.get_graph", pure=True, raises={"Exception": None})
assumed("_mod_revision.is_null", pure=True, returns=lambda c: c.args[0] == NULL)
assumed("graph.find_distance_to_null", pure=True, requires=lambda c: Not(c.graph.is_none), returns=lambda c: Dist(c.args[0].val), raises={"GhostRevisionsHaveNoRevno": None, "Exception": None},
        note="vcsgraph: the length of the left-hand history of the revision")
assumed("self.target.set_last_revision_info", result=NONE, modifies=["g.tip"], ensures=lambda c: c.g.tip == TIP.mk(c.args[0].val, c.args[1].val))


def stop_of(c):
    return If(c.old.stop_revision.is_none, OtherLast(), c.old.stop_revision.val)


def revno_of(c):
    return If(c.old.stop_revision.is_none, OtherRevno(), Dist(c.old.stop_revision.val))


target("breezy/branch.py::GenericInterBranch._update_revisions",
       params=dict(stop_revision=Opt(REV), overwrite=BOOL, graph=Opt(ANY)),
       requires=lambda c: forall([REV, REV], lambda a, b: order(a, b)),
       modifies=["g.tip"],
       ensures={
           "nothing_to_pull_changes_nothing": lambda c: Implies(And(c.old.stop_revision.is_none, OtherLast() == NULL), c.g.tip == c.old.g.tip),
           "already_contained_is_a_no_op": lambda c: Implies(And(Not(c.old.overwrite), Desc(c.old.g.tip[1], stop_of(c))), c.g.tip == c.old.g.tip),
           "moves_only_forward_unless_overwrite": lambda c: Implies(
               And(c.g.tip != c.old.g.tip, Not(c.old.overwrite)),
               And(Desc(stop_of(c), c.old.g.tip[1]), stop_of(c) != c.old.g.tip[1])),
           "new_tip_is_the_stop_revision_with_its_number": lambda c: Or(c.g.tip == c.old.g.tip, c.g.tip == TIP.mk(revno_of(c), stop_of(c))),
           "strict_descendant_is_pulled": lambda c: Implies(
               And(Not(And(c.old.stop_revision.is_none, OtherLast() == NULL)),
                   Or(c.old.overwrite, Not(Desc(c.old.g.tip[1], stop_of(c))))),
               c.g.tip == TIP.mk(revno_of(c), stop_of(c))),
           # the tip is only ever set to a revision that was fetched first
           "fetched_before_the_tip_moves": lambda c: Implies(c.calls("self.target.set_last_revision_info") > 0,
                                                             c.calls("self.fetch") == 1 and c.before("self.fetch", "self.target.set_last_revision_info"))},
       equivalent_mutants={r"drop:Raise.*AssertionError": "dead code"},
       raises={"DivergedBranches": lambda c: And(c.g.tip == c.old.g.tip, Not(c.old.overwrite),
                                                Not(Desc(stop_of(c), c.old.g.tip[1])), Not(Desc(c.old.g.tip[1], stop_of(c)))),
               "Exception": lambda c: c.g.tip == c.old.g.tip},
       canary=lambda c: c.g.tip == c.old.g.tip)

# ---- BzrBranch.set_last_revision_info / append-only branches
AO = ufunc("AppendOnly", BOOL)
BB = cls("BzrBranch", fields=dict(_last_revision_info_cache=ANY))
assumed("self.lock_write", pure=True, raises={"Exception": None})
assumed("self.last_revision_info", pure=True, returns=lambda c: c.g.tip, raises={"Exception": None})
assumed("self.last_revision", pure=True, returns=lambda c: c.g.tip[1], raises={"Exception": None})
assumed("self.get_append_revisions_only", pure=True, returns=lambda c: AO(), raises={"Exception": None})
assumed("self._run_pre_change_branch_tip_hooks", result=NONE, note="hooks may veto (raise) but do not write the tip")
assumed("self._run_post_change_branch_tip_hooks", result=NONE)
assumed("self._clear_cached_state", result=NONE, modifies=["self._last_revision_info_cache"], no_raise=True)
assumed("self.repository.get_graph", pure=True, raises={"Exception": None})
exceptions(RevisionNotPresent="Exception")
assumed("graph.iter_lefthand_ancestry", pure=True, returns=lambda c: LHof(c.args[0]),
        raises={"RevisionNotPresent": None, "Exception": None},
        note="walking the left-hand ancestry fails with RevisionNotPresent when it meets a ghost")


def append_ok(old_tip, new_rev):
    return Or(old_tip == NULL, In(old_tip, LHof(new_rev)))


HV = verified(("BzrBranch", "_check_history_violation"), params=["revision_id"], pure=True, result=NONE,
              ensures=lambda c: append_ok(c.g.tip[1], c.revision_id),
              raises={"AppendRevisionsOnlyViolation": lambda c: Not(append_ok(c.g.tip[1], c.revision_id)), "Exception": None})
AllNotTip0 = fold_all("AllNotTip0", Seq(REV), lambda e: e != TIP0())
seq_lemma("member", Seq(REV), lambda s: Implies(AllNotTip0(s), Not(In(TIP0(), s))))
target("breezy/bzr/branch.py::BzrBranch8._check_history_violation", cls="BzrBranch", params=dict(revision_id=REV),
       requires=lambda c: c.g.tip[1] == TIP0(), modifies=[],
       loops={1: loop(r"for lh_ancestor in graph\.iter_lefthand_ancestry\(revision_id\)", prefix="seen", inv=lambda c: AllNotTip0(c.seen))},
       ensures=lambda c: append_ok(c.g.tip[1], c.old.revision_id),
       raises={"AppendRevisionsOnlyViolation": lambda c: Not(append_ok(c.g.tip[1], c.old.revision_id)), "Exception": True},
       canary=lambda c: c.g.tip[1] == NULL)

assumed("self._write_last_revision_info", result=NONE, modifies=["g.tip"],
        # append-only branches: the on-disk tip is rewritten only to extend the left-hand history
        requires=lambda c: Or(Not(AO()), append_ok(c.g.tip[1], c.args[1])),
        ensures=lambda c: c.g.tip == TIP.mk(c.args[0], c.args[1]))
target("breezy/bzr/branch.py::BzrBranch.set_last_revision_info", params=dict(revno=INT, revision_id=REV),
       modifies=["g.tip", "self._last_revision_info_cache"],
       ensures={"tip_is_set": lambda c: c.g.tip == TIP.mk(c.old.revno, c.old.revision_id),
                "append_only_branches_only_extend_history": lambda c: Implies(AO(), append_ok(c.old.g.tip[1], c.old.revision_id))},
       raises={"InvalidRevisionId": lambda c: And(c.g.tip == c.old.g.tip, Len(c.old.revision_id) == 0),
               "AppendRevisionsOnlyViolation": lambda c: And(c.g.tip == c.old.g.tip, AO(), Not(append_ok(c.old.g.tip[1], c.old.revision_id))),
               "Exception": lambda c: Or(c.g.tip == c.old.g.tip,
                                         And(c.g.tip == TIP.mk(c.old.revno, c.old.revision_id),
                                             Implies(AO(), append_ok(c.old.g.tip[1], c.old.revision_id))))},
       canary=lambda c: c.g.tip == c.old.g.tip,
       equivalent_mutants={r"InvalidRevisionId|if not revision_id or not isinstance": "argument validation: outside the history property",
                           r"_run_(pre|post)_change_branch_tip_hooks|_clear_cached_state|_last_revision_info_cache": "hooks and caches: outside the property (the on-disk tip is what is claimed)"})

census("_write_last_revision_info", ["breezy/bzr/branch.py"],
       [("breezy/bzr/branch.py", "BzrBranch.set_last_revision_info"), ("breezy/bzr/branch.py", "Converter5to6.convert")],
       "the on-disk tip of a bzr branch is written only by the guarded setter (and by the format converter initialising a NEW branch)")

undecided("remote (smart server) and git branches; bound-branch master updates during pull/push; fetch itself (C03)")

# ---- the callers of _update_revisions: only the 'history' overwrite flag may waive the descendant check
OW = ufunc("OverwriteSet", Seq(STR))
assumed("_fix_overwrite_type", pure=True, returns=lambda c: OW(),
        note="normalises True/False/iterable to the list of things to overwrite ('history', 'tags')")
UPD = verified("self._update_revisions", params=["stop_revision", "overwrite", "graph"], result=NONE, modifies=["g.tip"],
               # the flag handed down is exactly "'history' is to be overwritten" (a bool), never the whole collection
               requires=lambda c: lift(c.overwrite.s == BOOL) & (c.overwrite == In("history", OW()) if c.overwrite.s == BOOL else FALSE),
               ensures=lambda c: Or(c.g.tip == c.old.g.tip, truthy(c.overwrite),
                                    And(Desc(c.g.tip[1], c.old.g.tip[1]), c.g.tip[1] != c.old.g.tip[1])),
               raises={"Exception": "unchanged"})
for _name, _loops in (("_basic_push", {}), ("_pull", {1: loop(r"for hook in Branch\.hooks\[", lambda c: c.g.tip == c.pre.g.tip)})):
    target("breezy/branch.py::GenericInterBranch." + _name, loops=_loops,
           requires=lambda c: forall([REV, REV], lambda a, b: order(a, b)),
           ensures={"history_is_overwritten_only_on_request": lambda c: Or(
               c.g.tip == c.old.g.tip, In("history", OW()),
               And(Desc(c.g.tip[1], c.old.g.tip[1]), c.g.tip[1] != c.old.g.tip[1]))},
           raises={"Exception": lambda c: Or(c.g.tip == c.old.g.tip, In("history", OW()),
                                             And(Desc(c.g.tip[1], c.old.g.tip[1]), c.g.tip[1] != c.old.g.tip[1]))},
           equivalent_mutants={r".": "only the hand-over of the overwrite flag to _update_revisions is under contract for this caller"},
           note="caller contract: tags/hooks/result bookkeeping are assumed not to move the tip")
