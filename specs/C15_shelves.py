# C15 - shelves are numbered uniquely, written before the tree is touched, and survive until deleted.
# Ghost: the set of file names in the shelf directory. IdOf(name) is what the manager's pattern extracts from a file name
# (None: not a shelf file); Name(n) the file name the manager gives shelf n.
IdOf = ufunc("IdOf", STR, Opt(INT))
Name = ufunc("Name", INT, STR)
K0 = ufunc("k0", INT)                      # an arbitrary shelf id
Listing = ufunc("Listing", Seq(STR))       # what transport.list_dir(".") returns now
ghost(files=SetS(STR), open_files=INT, shelf_written=BOOL, tree_touched=BOOL)
assume_note("IdOf(Name(n)) == n for every n >= 1: the file-name format 'shelf-%d' and the pattern 'shelf-([1-9][0-9]*)' agree "
            "(checked natively for 1..20000 by the replay driver, not proved: regular expressions are outside the encoding)")
exceptions(FileNotFoundError="OSError", OSError="Exception", NoSuchShelfId="Exception", NoSuchFile="Exception")

SM = cls("ShelfManager", fields={"tree": ANY, "transport": ANY})
NoneIsK0 = fold_all("NoneIsK0", Seq(STR), lambda f: Not(eq(IdOf(f), K0())))
P = "breezy/shelf.py::ShelfManager."
MATCH = Opaque("Match")

assumed("re.compile", pure=True, no_raise=True)
assumed("matcher.match", pure=True, no_raise=True, result=Opt(MATCH),
        ensures=lambda c: c.result.is_none == IdOf(c.filename).is_none)
assumed("match.group", pure=True, no_raise=True, result=STR)
assumed("int", pure=True, no_raise=True, returns=lambda c: IdOf(c.filename).val,
        note="int(match.group(1)) is the number the pattern extracted from the file name")

IDS = verified(("ShelfManager", "get_shelf_ids"), params=["filenames"], pure=True, no_raise=True, result=Seq(INT),
               ensures=lambda c: In(K0(), c.result) == Not(NoneIsK0(c.filenames)))
target(P + "get_shelf_ids", params=dict(filenames=Seq(STR)), locals=dict(shelf_ids=Seq(INT)), contract=IDS, modifies=[],
       loops={1: loop(r"for filename in filenames", prefix="seen", inv=lambda c: In(K0(), c.shelf_ids) == Not(NoneIsK0(c.seen)))},
       ensures={"exactly_the_ids_of_the_shelf_files": lambda c: In(K0(), c.result) == Not(NoneIsK0(c.old.filenames))},
       raises={}, canary=lambda c: Len(c.result) == 0,
       equivalent_mutants={r"match\.group\(": "which group of the pattern is read: regular expressions are outside the encoding "
                                               "(the native check of IdOf/Name agreement covers it)"})

assumed("self.transport.list_dir", pure=True, returns=lambda c: Listing(), raises={"Exception": None})
ACTIVE = verified(("ShelfManager", "active_shelves"), pure=True, result=Seq(INT),
                  ensures=lambda c: And(In(K0(), c.result) == Not(NoneIsK0(Listing())),
                                        Implies(In(K0(), c.result), K0() <= c.result[Len(c.result) - 1])),
                  raises={"Exception": None})
target(P + "active_shelves", contract=ACTIVE, modifies=[],
       ensures={"the_ids_present_in_the_shelf_directory": lambda c: In(K0(), c.result) == Not(NoneIsK0(Listing())),
                "ascending": lambda c: Implies(In(K0(), c.result), And(c.result[0] <= K0(), K0() <= c.result[Len(c.result) - 1]))},
       raises={"Exception": True}, canary=lambda c: Len(c.result) == 0)

LAST = verified(("ShelfManager", "last_shelf"), pure=True, result=Opt(INT),
                ensures=lambda c: Implies(Not(NoneIsK0(Listing())), And(Not(c.result.is_none), K0() <= c.result.val)),
                raises={"Exception": None})
target(P + "last_shelf", contract=LAST, modifies=[],
       ensures={"no_active_shelf_has_a_larger_id": lambda c: Implies(Not(NoneIsK0(Listing())), And(Not(c.result.is_none), K0() <= c.result.val))},
       raises={"Exception": True}, canary=lambda c: c.result.is_none)

# ---- new_shelf: a fresh id, larger than every id in use
Unabs = ufunc("Unabs", STR, STR)
FH = Opaque("File")
assumed("self.transport.local_abspath", pure=True, no_raise=True, result=STR, ensures=lambda c: Unabs(c.result) == c.args[0])
assumed("open", result=FH, modifies=["g.files", "g.open_files"],
        ensures=lambda c: And(c.g.files == (c.old.g.files | mkset(SetS(STR), Unabs(c.args[0]))), c.g.open_files == c.old.g.open_files + 1),
        raises={"FileNotFoundError": "unchanged", "OSError": "unchanged"},
        note="opening for writing creates the file (truncating it)")
FNAME = verified(("ShelfManager", "get_shelf_filename"), params=["shelf_id"], pure=True, no_raise=True, returns=lambda c: Name(c.shelf_id))
NEW = verified(("ShelfManager", "new_shelf"), result=Tup(INT, FH), modifies=["g.files", "g.open_files"],
               ensures=lambda c: And(Implies(Not(NoneIsK0(Listing())), K0() < c.result[0]),
                                     c.g.files == (c.old.g.files | mkset(SetS(STR), Name(c.result[0]))),
                                     c.g.open_files == c.old.g.open_files + 1),
               raises={"Exception": "unchanged"})
target(P + "new_shelf", contract=NEW,
       ensures={"fresh_id_above_every_active_shelf": lambda c: Implies(Not(NoneIsK0(Listing())), K0() < c.result[0]),
                "creates_exactly_its_own_file": lambda c: c.g.files == (c.old.g.files | mkset(SetS(STR), Name(c.result[0]))),
                "one_file_opened": lambda c: c.g.open_files == c.old.g.open_files + 1},
       raises={"Exception": lambda c: And(c.g.files == c.old.g.files, c.g.open_files == c.old.g.open_files)},
       canary=lambda c: c.result[0] == 1,
       equivalent_mutants={r"int1@.*\| next_shelf = 1 if last_shelf is None": "numbering the first shelf 2 is still unique"})

# ---- shelve_changes: the shelf is written and closed before the tree is touched; the file is closed on every path
assumed("creator.write_shelf", result=NONE, modifies=["g.shelf_written"], requires=lambda c: Not(c.g.tree_touched),
        ensures=lambda c: c.g.shelf_written, raises={"Exception": "unchanged"})
assumed("shelf_file.close", result=NONE, modifies=["g.open_files"], no_raise=True, ensures=lambda c: c.g.open_files == c.old.g.open_files - 1)
assumed("creator.transform", result=NONE, modifies=["g.tree_touched"],
        requires=lambda c: c.g.shelf_written,
        ensures=lambda c: c.g.tree_touched, raises={"Exception": lambda c: TRUE},
        note="removes the shelved changes from the working tree (tree transform, C13)")
target(P + "shelve_changes", params=dict(creator=ANY, message=ANY), result=INT,
       requires=lambda c: And(Not(c.g.tree_touched), Not(c.g.shelf_written)),
       ensures={"shelf_stored_then_tree_changed": lambda c: And(c.g.shelf_written, c.g.tree_touched, lift(c.before("creator.write_shelf", "creator.transform")),
                                                                lift(c.before("shelf_file.close", "creator.transform"))),
                "file_closed": lambda c: c.g.open_files == c.old.g.open_files,
                "numbered_uniquely": lambda c: Implies(Not(NoneIsK0(Listing())), K0() < c.result),
                "only_its_own_shelf_file_is_created": lambda c: c.g.files == (c.old.g.files | mkset(SetS(STR), Name(c.result)))},
       raises={"Exception": {"file_closed": lambda c: c.g.open_files == c.old.g.open_files,
                             "tree_untouched_unless_the_shelf_was_stored": lambda c: Implies(c.g.tree_touched, c.g.shelf_written),
                             "a_failed_write_never_touches_the_tree": lambda c: Implies(lift(c.calls("creator.write_shelf", failed=True) == 1),
                                                                                        Not(c.g.tree_touched))}},
       canary=lambda c: Not(c.g.tree_touched))

# ---- delete_shelf removes exactly the named shelf; nothing else in shelf.py deletes shelf files
assumed("self.transport.delete", result=NONE, modifies=["g.files"], ensures=lambda c: c.g.files == (c.old.g.files - mkset(SetS(STR), c.args[0])),
        raises={"Exception": "unchanged"})
target(P + "delete_shelf", params=dict(shelf_id=INT),
       ensures={"removes_exactly_that_shelf": lambda c: c.g.files == (c.old.g.files - mkset(SetS(STR), Name(c.old.shelf_id)))},
       raises={"Exception": lambda c: c.g.files == c.old.g.files}, canary=lambda c: c.g.files == c.old.g.files)
census("delete", ["breezy/shelf.py"], [("breezy/shelf.py", "ShelfManager.delete_shelf")],
       "shelves survive until deleted: only delete_shelf may delete from the shelf directory")

lemma("fresh_ids_are_unique", [("n", INT)],
      lambda n: [Implies(Not(NoneIsK0(Listing())), K0() < n)],     # new_shelf's postcondition for the arbitrary id K0
      lambda n: Implies(Not(NoneIsK0(Listing())), K0() != n),
      note="the id handed out differs from every id in use")

undecided("that the shelved transform removes exactly the selected changes and unshelving restores them (ShelfCreator/Unshelver over tree transforms and serialised records: external)")
undecided("the pattern 'shelf-([1-9][0-9]*)' itself (regular expressions are outside the encoding): IdOf/Name agreement is assumed and cross-checked natively")

# ---- ShelfCreator.shelve_change: every change offered by iter_shelvable is shelved by the one method for its kind (once); an unknown
#      kind is refused, never dropped
SC = cls("ShelfCreator", fields={})
for _m in ("shelve_rename", "shelve_deletion", "shelve_creation", "shelve_content_change", "shelve_modify_target"):
    assumed("self." + _m, result=NONE, raises={"Exception": "unchanged"}, requires=lambda c: c.args[0] == c.change[1])
exceptions(ValueError="Exception")


target("breezy/shelf.py::ShelfCreator.shelve_change", params=dict(change=Tup(STR, BYTES)),
       ensures={"dispatched_to_the_method_of_its_kind_exactly_once": lambda c: lift(
           c.calls("self.shelve_rename") + c.calls("self.shelve_deletion") + c.calls("self.shelve_creation")
           + c.calls("self.shelve_content_change") + c.calls("self.shelve_modify_target") == 1),
                "rename": lambda c: Implies(c.old.change[0] == lift("rename"), lift(c.calls("self.shelve_rename") == 1)),
                "deletion": lambda c: Implies(c.old.change[0] == lift("delete file"), lift(c.calls("self.shelve_deletion") == 1)),
                "creation": lambda c: Implies(c.old.change[0] == lift("add file"), lift(c.calls("self.shelve_creation") == 1)),
                "content": lambda c: Implies(Or(c.old.change[0] == lift("change kind"), c.old.change[0] == lift("modify text")),
                                             lift(c.calls("self.shelve_content_change") == 1)),
                "target": lambda c: Implies(c.old.change[0] == lift("modify target"), lift(c.calls("self.shelve_modify_target") == 1))},
       raises={"ValueError": lambda c: Not(Or(*[c.old.change[0] == lift(k_) for k_ in ("rename", "delete file", "add file", "change kind",
                                                                                    "modify text", "modify target")])),
               "Exception": True},
       canary=lambda c: lift(c.calls("self.shelve_rename") == 1))
