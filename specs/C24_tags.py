# C24 - tag transfer never loses or silently rewrites tags.
# Pointwise over an arbitrary tag name N0 (a universally quantified constant), so invariants stay quantifier-free.

TAGS = MapS(STR, BYTES)
CONF = Seq(Tup(STR, BYTES, BYTES))
N0 = ufunc("n0", STR)                  # the arbitrary tag name
Sel = ufunc("Sel", STR, BOOL)          # ghost: what the selector callable answers for a name

NoConfN0 = fold_all("NoConfN0", CONF, lambda e: e[0] != N0())

assumed("selector", pure=True, returns=lambda c: Sel(c.args[0]),
        note="the selector is a deterministic predicate on tag names without side effects")


def selected(c, n):
    return Or(Not(truthy(c.old.selector)), Sel(n))


def decided(c, res, upd, conf, src, dst, n):
    """What the statement requires for tag n once it has been considered (n in src)."""
    same = And(In(n, dst), dst[n] == src[n])
    keep_dest = And(In(n, res) == In(n, dst), Implies(In(n, dst), res[n] == dst[n]), Not(In(n, upd)))
    take_src = And(In(n, res), res[n] == src[n], In(n, upd), upd[n] == src[n], NoConfN0(conf))
    conflict = And(In(n, res), res[n] == dst[n], Not(In(n, upd)), In(Tup(STR, BYTES, BYTES).mk(n, src[n], dst[n]), conf))
    return If(Or(Not(selected(c, n)), same), And(keep_dest, NoConfN0(conf)),
              If(Or(Not(In(n, dst)), c.old.overwrite), take_src, conflict))


def untouched(res, upd, conf, dst, n):
    return And(In(n, res) == In(n, dst), Implies(In(n, dst), res[n] == dst[n]), Not(In(n, upd)), NoConfN0(conf))


def rec_inv(c):
    n = N0()
    src, dst = c.old.source_dict, c.old.dest_dict
    res = c.var("result")
    return If(In(n, c.done), decided(c, res, c.updates, c.conflicts, src, dst, n),
              untouched(res, c.updates, c.conflicts, dst, n))


def rec_post(c, res, upd, conf, src, dst):
    n = N0()
    return If(In(n, src), decided(c, res, upd, conf, src, dst, n), untouched(res, upd, conf, dst, n))


REC = verified("_reconcile_tags", params=["source_dict", "dest_dict", "overwrite", "selector"], pure=True, no_raise=True,
               result=Tup(TAGS, TAGS, CONF),
               ensures=lambda c: rec_post(c, c.result[0], c.result[1], c.result[2], c.source_dict, c.dest_dict))

target("breezy/tag.py::_reconcile_tags",
       params=dict(source_dict=TAGS, dest_dict=TAGS, overwrite=BOOL, selector=Opt(ANY)),
       locals=dict(conflicts=CONF, updates=TAGS, result=TAGS),
       result=Tup(TAGS, TAGS, CONF),
       loops={1: loop(r"for name, target in source_dict\.items\(\)", rec_inv, done="done")},
       ensures={"pointwise_merge": lambda c: rec_post(c, c.result[0], c.result[1], c.result[2], c.old.source_dict, c.old.dest_dict),
                # the statement's clauses, spelled out for the arbitrary tag
                "only_in_destination_is_kept": lambda c: Implies(
                    And(Not(In(N0(), c.old.source_dict)), In(N0(), c.old.dest_dict)),
                    And(In(N0(), c.result[0]), c.result[0][N0()] == c.old.dest_dict[N0()], Not(In(N0(), c.result[1])))),
                "different_definitions_never_silently_rewritten": lambda c: Implies(
                    And(In(N0(), c.old.source_dict), In(N0(), c.old.dest_dict), selected(c, N0()),
                        c.old.source_dict[N0()] != c.old.dest_dict[N0()], Not(c.old.overwrite)),
                    And(c.result[0][N0()] == c.old.dest_dict[N0()],
                        In(Tup(STR, BYTES, BYTES).mk(N0(), c.old.source_dict[N0()], c.old.dest_dict[N0()]), c.result[2]))),
                "nothing_invented": lambda c: Implies(And(Not(In(N0(), c.old.source_dict)), Not(In(N0(), c.old.dest_dict))),
                                                      Not(In(N0(), c.result[0])))},
       raises={}, canary=lambda c: Len(c.result[2]) == 0)

# ---- InterTags._merge_to: stores exactly the reconciled dictionary
ghost(dest=TAGS)
assumed("to_tags.get_tag_dict", result=TAGS, ensures=lambda c: c.result == c.g.dest)
assumed("to_tags._set_tag_dict", result=NONE, modifies=["g.dest"],
        ensures=lambda c: And(In(N0(), c.g.dest) == In(N0(), c.args[0]), Implies(In(N0(), c.args[0]), c.g.dest[N0()] == c.args[0][N0()])),
        note="the tag store holds the dictionary it was given (stated for the arbitrary tag)")

target("breezy/tag.py::InterTags._merge_to",
       params=dict(source_dict=TAGS, overwrite=BOOL, selector=Opt(ANY)),
       modifies=["g.dest"],
       ensures={"destination_holds_the_merge": lambda c: rec_post(c, c.g.dest, c.result[0], c.result[1], c.old.source_dict, c.old.g.dest)},
       raises={"Exception": lambda c: Or(c.g.dest == c.old.g.dest, TRUE)},
       canary=lambda c: Len(c.result[1]) == 0)

undecided("git and in-memory tag stores; the bencode byte format itself (external): bdecode(bencode(x)) == x is assumed")

# ---- the tag file: names are stored utf-8 encoded in a bencoded dictionary and read back by decoding
BTAGS = MapS(BYTES, BYTES)
Enc8 = ufunc("Enc8", STR, BYTES)
Dec8 = ufunc("Dec8", BYTES, STR)
Ben = ufunc("Ben", BTAGS, BYTES)
Bdec = ufunc("Bdec", BYTES, BTAGS)
B0 = ufunc("b0", BYTES)
assumed("k.encode", pure=True, returns=lambda c: Enc8(c.k), ensures=lambda c: Dec8(c.result) == c.k,
        raises={"UnicodeEncodeError": None}, note="utf-8 encoding is injective: decoding gives the name back")
assumed("k.decode", pure=True, returns=lambda c: Dec8(c.k), raises={"UnicodeDecodeError": None})
assumed("bencode.bencode", pure=True, returns=lambda c: Ben(c.args[0]))
assumed("bencode.bdecode", pure=True, returns=lambda c: Bdec(c.args[0]), raises={"ValueError": None})

BT = "breezy/bzr/tag.py::BasicTags."
target(BT + "_serialize_tag_dict", params=dict(tag_dict=TAGS), locals=dict(td=BTAGS), result=BYTES,
       ensures={"bencodes_the_encoded_names": lambda c: c.result == Ben(c.td),
                "every_tag_is_stored_under_its_utf8_name": lambda c: Implies(
                    In(N0(), c.old.tag_dict), And(In(Enc8(N0()), c.td), c.td[Enc8(N0())] == c.old.tag_dict[N0()])),
                "nothing_else_is_stored": lambda c: Implies(
                    In(B0(), c.td), exists([STR], lambda n: And(In(n, c.old.tag_dict), Enc8(n) == B0())))},
       raises={"UnicodeEncodeError": True}, canary=lambda c: c.td == BTAGS.empty())

target(BT + "_deserialize_tag_dict", params=dict(tag_content=BYTES), locals=dict(r=TAGS), result=TAGS,
       loops={1: loop(r"for k, v in bencode\.bdecode\(tag_content\)\.items\(\)", done="done",
                      inv=lambda c: And(Implies(In(B0(), c.done), In(Dec8(B0()), c.r)),
                                        Implies(In(N0(), c.r), exists([BYTES], lambda b: And(In(b, c.done), Dec8(b) == N0(),
                                                                                              c.r[N0()] == Bdec(c.old.tag_content)[b])))))},
       ensures={"every_stored_name_is_read_back": lambda c: Implies(
                    And(c.old.tag_content != lift(b""), In(B0(), Bdec(c.old.tag_content))), In(Dec8(B0()), c.result)),
                "every_tag_read_was_stored": lambda c: Implies(
                    In(N0(), c.result), And(c.old.tag_content != lift(b""),
                                            exists([BYTES], lambda b: And(In(b, Bdec(c.old.tag_content)), Dec8(b) == N0(),
                                                                          c.result[N0()] == Bdec(c.old.tag_content)[b]))))},
       raises={"ValueError": True}, canary=lambda c: c.result == TAGS.empty())

# round trip, as a lemma over the two contracts (with bdecode(bencode(x)) = x and utf-8 decode(encode(n)) = n)
lemma("tag_dictionary_round_trips",
      [("d", TAGS), ("td", BTAGS), ("r", TAGS)],
      lambda d, td, r: [
          forall([STR], lambda n: Dec8(Enc8(n)) == n),
          # serialize contract
          forall([STR], lambda n: Implies(In(n, d), And(In(Enc8(n), td), td[Enc8(n)] == d[n]))),
          forall([BYTES], lambda b: Implies(In(b, td), exists([STR], lambda n: And(In(n, d), Enc8(n) == b)))),
          # deserialize contract on bdecode(bencode(td)) == td
          forall([BYTES], lambda b: Implies(In(b, td), In(Dec8(b), r))),
          forall([STR], lambda n: Implies(In(n, r), exists([BYTES], lambda b: And(In(b, td), Dec8(b) == n, r[n] == td[b]))))],
      lambda d, td, r: And(In(N0(), r) == In(N0(), d), Implies(In(N0(), d), r[N0()] == d[N0()])))

# ---- InterTags.merge: the orchestration - the target's tags are always reconciled with the source's (under the target's write lock), and
#      the target's master branch too unless the caller asked to leave it alone
BRX = Opaque("BranchX")
always_truthy(BRX, "branch objects define neither __bool__ nor __len__")
TAGSX = cls("TagsX", fields={"branch": BRX})
IT = cls("InterTags", fields={"source": TAGSX, "target": TAGSX})
MasterOf = ufunc("MasterOf", BRX, Opt(BRX))
SupportsTags = ufunc("SupportsTags", BRX, BOOL)
SourceTags = ufunc("SourceTags", TAGS)
assumed("self.source.branch.supports_tags", pure=True, no_raise=True, returns=lambda c: SupportsTags(c.self.source.branch))
assumed("self.source.get_tag_dict", pure=True, returns=lambda c: SourceTags(), raises={"Exception": None})
assumed("self.target.branch.lock_write", raises={"Exception": "unchanged"}, note="takes the target branch's write lock")
assumed("self.target.branch.get_master_branch", pure=True, returns=lambda c: MasterOf(c.self.target.branch), raises={"Exception": None})
assumed("master.lock_write", raises={"Exception": "unchanged"})
assumed("stack.enter_context", pure=True, raises={"Exception": None})
assumed("self._merge_to", result=Tup(MapS(STR, ANY), Seq(ANY)), raises={"Exception": "unchanged"}, note="InterTags._merge_to, verified above")
target("breezy/tag.py::InterTags.merge", params=dict(overwrite=BOOL, ignore_master=BOOL, selector=Opt(ANY)), locals=dict(master=Opt(BRX)),
       ensures={"target_always_and_master_unless_told_otherwise": lambda c: If(
                    Or(c.self.source.branch == c.self.target.branch, Not(SupportsTags(c.self.source.branch)), Not(truthy(SourceTags()))),
                    lift(c.calls("self._merge_to") == 0),
                    If(Or(c.old.ignore_master, MasterOf(c.self.target.branch).is_none),
                       lift(c.calls("self._merge_to") == 1), lift(c.calls("self._merge_to") == 2))),
                "tags_are_changed_only_under_the_targets_write_lock": lambda c: lift(
                    c.before("self.target.branch.lock_write", "self._merge_to")
                    and (c.calls("self._merge_to") == 0 or c.calls("self.target.branch.lock_write") == 1)),
                "the_master_is_locked_before_its_tags_change": lambda c: lift(c.calls("self._merge_to") < 2 or c.calls("master.lock_write") == 1)},
       raises={"Exception": True},
       canary=lambda c: lift(c.calls("self._merge_to") == 0),
       equivalent_mutants={r"updates\.update|conflicts \+=|retnone|return updates": "the report of what changed (outside 'what ends up stored')"},
       note="which tag stores are reconciled")
