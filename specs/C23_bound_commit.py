# C23 - a commit in a bound branch records the revision in the master first, then locally; refused when the master moved.
include("_commit_model.py")
P = "breezy/commit.py::Commit."
LOG_EQUIV = {r"_set_progress_stage|note\(|warning_lines|gettext|if tag_conflicts": "progress and user messages: outside the property",
             r"drop:Expr.*\| self\._process_pre_hooks\(": "whether pre_commit hooks run for builders that update the branch themselves: hook policy, not tips",
             r"drop:Expr.*\| self\.branch\.fetch\(": "lossy commits to foreign masters fetch the rewritten revision back: outside the property"}

# ---- _check_bound_branch
target(P + "_check_bound_branch", params=dict(stack=ANY, possible_master_transports=ANY),
       requires=lambda c: And(c.self.bound_branch.is_none, c.self.master_branch.is_none, Not(c.g.master_locked)),
       modifies=["g.master_locked", "self.master_branch", "self.bound_branch"],
       ensures={"bound_commit_only_when_in_step": lambda c: Implies(
                    Not(c.self.bound_branch.is_none),
                    And(c.g.local_tip == c.g.master_tip, c.g.master_locked, Not(c.old.self.local), c.self.bound_branch.val == c.self.branch,
                        Not(truthy(MasterBoundTo())), lift(c.calls("self.master_branch.lock_write") == 1))),
                "unbound_or_local_leaves_the_master_alone": lambda c: Implies(
                    c.self.bound_branch.is_none, And(Not(c.g.master_locked), lift(c.calls("self.master_branch.lock_write") == 0),
                                                     c.self.master_branch.val == c.self.branch)),
                "local_commit_never_asks_for_the_master": lambda c: Implies(
                    c.old.self.local, lift(c.calls("self.branch.get_master_branch") == 0))},
       raises={"BoundBranchOutOfDate": lambda c: And(c.g.local_tip != c.g.master_tip, Not(c.g.master_locked), c.self.bound_branch.is_none),
               "CommitToDoubleBoundBranch": lambda c: And(Not(c.g.master_locked), c.self.bound_branch.is_none, truthy(MasterBoundTo())),
               "LocalRequiresBoundBranch": lambda c: And(c.old.self.local, Not(c.g.master_locked), c.self.bound_branch.is_none),
               "Exception": lambda c: Not(c.g.master_locked)},
       canary=lambda c: c.self.bound_branch.is_none, equivalent_mutants=LOG_EQUIV)

# ---- _check_out_of_date_tree
MRevno = ufunc("MRevno", INT)
TreeParents = ufunc("TreeParents", Seq(REV))
StoresRevno = ufunc("StoresRevno", BOOL)
CalcRevnos = ufunc("CalcRevnos", BOOL)
assumed("self.work_tree.get_parent_ids", pure=True, no_raise=True, returns=lambda c: TreeParents())
assumed("self.master_branch._format.stores_revno", pure=True, no_raise=True, returns=lambda c: StoresRevno())
assumed("self.config_stack.get", pure=True, no_raise=True, returns=lambda c: CalcRevnos())
assumed("self.master_branch.last_revision_info", pure=True, returns=lambda c: Tup(INT, REV).mk(MRevno(), c.g.master_tip),
        raises={"UnsupportedOperation": None})
assumed("self.branch.revision_id_to_revno", pure=True, result=INT, raises={"Exception": None})
assumed("self.branch.repository.has_revision", pure=True, no_raise=True, result=BOOL)

target(P + "_check_out_of_date_tree", result=Tup(Opt(INT), REV, Opt(INT)), modifies=[],
       requires=lambda c: Not(c.self.master_branch.is_none),
       ensures={"tree_is_based_on_the_master_tip": lambda c: Or(
                    c.g.master_tip == NULL, And(Len(TreeParents()) > 0, TreeParents()[0] == c.g.master_tip)),
                "revision_numbers_known_when_the_format_stores_them": lambda c: Implies(
                    Or(StoresRevno(), CalcRevnos()), Not(c.result[0].is_none)),
                "returns_the_master_tip": lambda c: c.result[1] == c.g.master_tip,
                "next_number_follows_the_masters": lambda c: Implies(Not(c.result[2].is_none),
                                                                     And(Not(c.result[0].is_none), c.result[2].val == c.result[0].val + 1))},
       raises={"OutOfDateTree": lambda c: And(c.g.master_tip != NULL, Or(Len(TreeParents()) == 0, TreeParents()[0] != c.g.master_tip)),
               "Exception": None},
       canary=lambda c: c.result[2].is_none, equivalent_mutants=LOG_EQUIV)

undecided("update and pull in a checkout (BzrBranch.update, WorkingTree.update): tree-level merge through external code")
undecided("histories of several checkouts: only the per-commit contracts are decided")

# ---- BzrBranch.update (a checkout's branch is brought up to its master): with a master the local tip becomes the master's tip, by one
#      overwriting pull under the branch's write lock; without a master nothing changes; the old tip is handed back exactly when it was
#      pivoted out (is not an ancestor of the new tip)
IsAnc = ufunc("IsAnc", REV, REV, BOOL)
MasterB = ufunc("MasterB", Opt(BR))
cls("BzrBranch", fields={"repository": ANY})
assumed("self.lock_write", pure=True, raises={"Exception": None})
assumed("self.get_master_branch", pure=True, returns=lambda c: MasterB(), raises={"Exception": None})
assumed("self.last_revision", pure=True, no_raise=True, returns=lambda c: c.g.local_tip)
assumed("self.pull", modifies=["g.local_tip", "g.local_moves"], raises={"Exception": "unchanged"},
        requires=lambda c: And(eq(c.args[0], MasterB().val), truthy(c.kw["overwrite"])),
        ensures=lambda c: c.g.local_tip == c.g.master_tip,
        note="pull(master, overwrite=True): the local branch ends at the master's tip whatever it was before (InterBranch.pull: not under contract here)")
assumed("self.repository.get_graph().is_ancestor", pure=True, returns=lambda c: IsAnc(c.args[0], c.args[1]), raises={"Exception": None})
target("breezy/bzr/branch.py::BzrBranch.update", params=dict(possible_transports=ANY), result=Opt(REV), modifies=["g.local_tip", "g.local_moves"],
       ensures={"local_equals_master_afterwards": lambda c: If(MasterB().is_none, c.g.local_tip == c.old.g.local_tip, c.g.local_tip == c.g.master_tip),
                "the_old_tip_is_returned_iff_pivoted_out": lambda c: If(
                    And(Not(MasterB().is_none), Not(IsAnc(c.old.g.local_tip, c.g.local_tip))),
                    c.result == Opt(REV).some(c.old.g.local_tip), c.result.is_none),
                "the_master_is_never_changed": lambda c: c.g.master_tip == c.old.g.master_tip},
       raises={"Exception": lambda c: c.g.master_tip == c.old.g.master_tip},
       canary=lambda c: c.result.is_none,
       note="update in a checkout leaves the local branch equal to the master")
