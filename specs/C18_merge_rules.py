# C18 - merge decision rules are symmetric and consistent with their LCA extension.
# The value domain is an uninterpreted sort; the LCA list has any length.

VAL = Opaque("Val")
VALS = Seq(VAL)
VSET = SetS(VAL)


def TW(b, o, t):
    """Strongest postcondition of _three_way, as a spec function."""
    return If(b == o, lift("this"), If(And(t != b, t != o), lift("conflict"), If(t == o, lift("this"), lift("other"))))


def swap(r):
    return If(r == "this", lift("other"), If(r == "other", lift("this"), r))


U0 = ufunc("u0", VAL)            # an arbitrary value (universally quantified)
Uof = ufunc("Uof", VALS, VAL, VSET)   # ghost: the set of LCA values different from the base value


def F(b, U, o, t, allow):
    """Strongest postcondition of _lca_multi_way over U = {v in lcas : v != b}."""
    empty = U == VSET.empty()
    single = exists([VAL], lambda u: U == mkset(VSET, u))
    return If(o == t, lift("this"),
              If(empty, TW(b, o, t),
                 If(single, TW(Wit(U), o, t),
                    If(allow, If(In(o, U), If(In(t, U), lift("conflict"), lift("this")),
                                 If(In(t, U), lift("other"), lift("conflict"))),
                       lift("conflict")))))


Wit = ufunc("WitU", VSET, VAL)

TW_C = verified("Merge3Merger._three_way", params=["base", "other", "this"], pure=True, no_raise=True,
                result=STR, returns=lambda c: TW(c.base, c.other, c.this))

target("breezy/merge.py::Merge3Merger._three_way",
       params=dict(base=VAL, other=VAL, this=VAL), result=STR,
       ensures={
           "spec": lambda c: c.result == TW(c.base, c.other, c.this),
           "unchanged_side_never_wins": lambda c: And(
               Implies(And(c.other == c.base, c.this != c.base), c.result != "other"),
               Implies(And(c.this == c.base, c.other != c.base), c.result != "this")),
       },
       raises={}, canary=lambda c: c.result == "this")


def in_anc(x, c):
    return Or(x == c.old.bases[0], In(x, c.old.bases[1]))


target("breezy/merge.py::Merge3Merger._lca_multi_way",
       params=dict(bases=Tup(VAL, VALS), other=VAL, this=VAL, allow_overriding_lca=BOOL), result=STR,
       requires=lambda c: And(
           forall([VAL], lambda x: In(x, Uof(c.bases[1], c.bases[0])) == And(In(x, c.bases[1]), x != c.bases[0])),
           # Wit picks the element of a singleton
           forall([VAL], lambda u: Implies(Uof(c.bases[1], c.bases[0]) == mkset(VSET, u), Wit(Uof(c.bases[1], c.bases[0])) == u))),
       ensures={
           "spec": lambda c: c.result == F(c.old.bases[0], Uof(c.old.bases[1], c.old.bases[0]), c.old.other, c.old.this,
                                           c.old.allow_overriding_lca),
           "same_value_in_every_ancestor_is_plain_three_way": lambda c: Implies(
               And(Len(c.old.bases[1]) > 0, forall([VAL], lambda x: Implies(In(x, c.old.bases[1]), x == U0()))),
               c.result == TW(U0(), c.old.other, c.old.this)),
           "no_lcas_is_plain_three_way": lambda c: Implies(Len(c.old.bases[1]) == 0,
                                                           c.result == TW(c.old.bases[0], c.old.other, c.old.this)),
           "unchanged_side_never_wins": lambda c: And(
               Implies(And(in_anc(c.old.other, c), Not(in_anc(c.old.this, c))), c.result != "other"),
               Implies(And(in_anc(c.old.this, c), Not(in_anc(c.old.other, c))), c.result != "this")),
       },
       raises={}, canary=lambda c: c.result == "conflict")

lemma("three_way_symmetric", [("b", VAL), ("o", VAL), ("t", VAL)], None,
      lambda b, o, t: If(o == t, And(TW(b, o, t) == "this", TW(b, t, o) == "this"), TW(b, t, o) == swap(TW(b, o, t))),
      note="exchanging THIS and OTHER exchanges 'this' and 'other' and keeps 'conflict'; tie-break 'this' when both agree")

lemma("lca_multi_way_symmetric", [("b", VAL), ("U", VSET), ("o", VAL), ("t", VAL), ("allow", BOOL)],
      lambda b, U, o, t, allow: [forall([VAL], lambda u: Implies(U == mkset(VSET, u), Wit(U) == u))],
      lambda b, U, o, t, allow: If(o == t, And(F(b, U, o, t, allow) == "this", F(b, U, t, o, allow) == "this"),
                                   F(b, U, t, o, allow) == swap(F(b, U, o, t, allow))))

assume_note("values are compared with a well-behaved == (an equivalence relation consistent with `in` and set membership)")
undecided("nothing: all four laws are decided for every value domain and every number of LCAs")
