# C12 - revert/remove never destroy user-edited content unless asked to (block contracts); uncommit never touches tree files (C16).
WtSha = ufunc("WtSha", STR, BYTES)             # working_tree.get_file_sha1(path)
BasisPath = ufunc("BasisPath", STR, Opt(STR))  # where the basis tree has this file (InterTree.find_source_path), None: not in the basis
BasisSha = ufunc("BasisSha", STR, BYTES)       # basis_tree.get_file_sha1(path)
BackupName = ufunc("BackupName", STR, STR, STR)
assumed("working_tree.get_file_sha1", pure=True, returns=lambda c: WtSha(c.args[0].val), raises={"Exception": None})
assumed("working_tree.basis_tree", pure=True, raises={"Exception": None})
assumed("es.enter_context", pure=True, raises={"Exception": None})
assumed("basis_tree.lock_read", pure=True, raises={"Exception": None})
assumed("InterTree.get", pure=True, no_raise=True)
assumed("basis_inter.find_source_path", pure=True, returns=lambda c: BasisPath(c.args[0].val), raises={"Exception": None})
assumed("basis_tree.get_file_sha1", pure=True, returns=lambda c: BasisSha(c.args[0].val), raises={"Exception": None})
assumed("osutils.dirname", pure=True, no_raise=True, result=STR)
assumed("tt.trans_id_tree_path", pure=True, no_raise=True, result=STR)
assumed("tt._available_backup_name", pure=True, returns=lambda c: BackupName(c.args[0].val, c.args[1]), raises={"Exception": None})
assumed("tt.delete_contents", result=NONE, raises={"Exception": "unchanged"}, note="schedules the file's current content for deletion")
assumed("tt.adjust_path", result=NONE, raises={"Exception": "unchanged"}, note="moves the entry (here: the user's content to its backup name)")
assumed("tt.create_path", result=STR, raises={"Exception": "unchanged"})
assumed("tt.unversion_file", result=NONE, raises={"Exception": "unchanged"})
assumed("tt.version_file", result=NONE, raises={"Exception": "unchanged"})
pure("getattr")


def user_edited(c):
    """the working file's content differs from the basis and was not written by a previous merge"""
    p = c.old.wt_path.val
    from_merge = And(In(p, c.old.merge_modified), c.old.merge_modified[p] == WtSha(p))
    same_as_basis = And(Not(BasisPath(p).is_none), WtSha(p) == BasisSha(BasisPath(p).val))
    return And(eq(c.old.wt_kind, "file"), Not(from_merge), Not(same_as_basis))


target("breezy/transform.py::_alter_files", block=(r"keep_content = False", r"if wt_kind is not None:"),
       params=dict(es=ANY, working_tree=ANY, target_tree=ANY, tt=ANY, backups=BOOL, merge_modified=MapS(STR, BYTES), basis_tree=Opt(ANY),
                   wt_path=Opt(STR), wt_kind=Opt(STR), target_kind=Opt(STR), wt_name=Opt(STR), target_versioned=BOOL, wt_versioned=BOOL,
                   trans_id=STR, change=ANY, mode_id=Opt(STR)),
       requires=lambda c: Implies(Not(c.wt_kind.is_none), Not(c.wt_path.is_none)),
       ensures={
           "user_edited_content_is_not_deleted_when_backups_are_on": lambda c: Implies(
               And(c.old.backups, user_edited(c)), lift(c.calls("tt.delete_contents") == 0)),
           "kept_content_stays_in_place_or_moves_to_a_backup_name": lambda c: Implies(
               lift(c.calls("tt.delete_contents") == 0),
               If(Or(c.old.wt_kind.is_none, c.old.target_kind.is_none), lift(c.calls("tt.adjust_path") == 0),
                  lift(c.calls("tt.adjust_path") == 1 and c.calls("tt.create_path") == 1))),
           "content_is_deleted_at_most_once_and_never_moved_too": lambda c: lift(
               c.calls("tt.delete_contents") <= 1 and not (c.calls("tt.delete_contents") == 1 and c.calls("tt.adjust_path") > 0))},
       raises={"Exception": True},
       canary=lambda c: lift(c.calls("tt.delete_contents") == 0),
       equivalent_mutants={r"basis_tree = working_tree\.basis_tree\(\)": "without the basis tree the comparison fails (AttributeError on None) and nothing is deleted",
                           r"tt\.(un)?version_file\(": "versioning bookkeeping of the entry that receives the new content: not about the old content"},
       note="block: the decision to delete, keep or back up the working file's content for one change of a revert")

# ---- InventoryWorkingTree.remove: the per-file deletion step (block). files_to_backup holds what must not be lost: unknown / newly added
#      files and versioned files with changed content (built just before by the function when neither keep_files nor force is given).
Abs = ufunc("Abs", STR, STR)
assumed("self.abspath", pure=True, no_raise=True, returns=lambda c: Abs(c.args[0]))
assumed("osutils.lexists", pure=True, no_raise=True, result=BOOL)
assumed("osutils.isdir", pure=True, no_raise=True, result=BOOL)
assumed("os.listdir", pure=True, result=Seq(STR), raises={"OSError": None})
assumed("osutils.rmtree", result=NONE, raises={"Exception": "unchanged"}, note="deletes a directory tree",
        requires=lambda c: c.args[0] == Abs(c.f))        # only ever the path being removed
assumed("osutils.delete_any", result=NONE, raises={"Exception": "unchanged"}, note="deletes a file or empty directory",
        requires=lambda c: c.args[0] == Abs(c.f))
assumed("backup", result=STR, raises={"Exception": "unchanged"}, note="the nested helper: renames the path to a fresh backup name (never deletes)")
exceptions(OSError="Exception")
target("breezy/bzr/workingtree.py::InventoryWorkingTree.remove", block={"stmt": "If", "contains": r"if not keep_files:\n\s+abs_path = self\.abspath\(f\)"},
       params=dict(keep_files=BOOL, force=BOOL, f=STR, files_to_backup=Seq(STR), message=Opt(STR), abs_path=STR, backup=ANY),
       ensures={"keeping_files_deletes_nothing": lambda c: Implies(c.old.keep_files, lift(
                    c.calls("osutils.rmtree") + c.calls("osutils.delete_any") + c.calls("backup") == 0)),
                "whole_directories_are_deleted_only_with_force": lambda c: Implies(lift(c.calls("osutils.rmtree") > 0), c.old.force),
                "what_must_not_be_lost_is_renamed_not_deleted": lambda c: Implies(
                    And(In(c.old.f, c.old.files_to_backup), Not(c.old.force)),
                    lift(c.calls("osutils.rmtree") + c.calls("osutils.delete_any") == 0)),
                "at_most_one_action_per_path": lambda c: lift(c.calls("osutils.rmtree") + c.calls("osutils.delete_any") + c.calls("backup") <= 1)},
       raises={"Exception": True},
       canary=lambda c: lift(c.calls("osutils.delete_any") == 0),
       equivalent_mutants={r"message = |elif message is not None": "the message reported to the user",
                           r"osutils\.isdir\(abs_path\) and len\(os\.listdir": "which branch handles a path: both branches rename without force and delete only what is not to be backed up / with force"},
       note="block: the deletion step for one path")

# ---- "written by a previous merge": the merge-hash map that _alter_files trusts. It is filled by Merge3Merger.write_modified from
#      _TransformResults.modified_paths, which _apply_insertions builds. The chain under contract: a path enters modified_paths only if the
#      transform wrote NEW CONTENT there (a file that was merely renamed still carries the user's text), and write_modified records
#      hashes for those paths only.
assumed("self.path_changed", pure=True, result=BOOL, raises={"Exception": None})
for _path, _cls in (("breezy/bzr/transform.py", "InventoryTreeTransform"), ("breezy/git/transform.py", "GitTreeTransform")):
    cls(_cls, fields={"_new_contents": MapS(STR, STR)})
    target("%s::%s._apply_insertions" % (_path, _cls),
           block={"stmt": "If", "contains": r"^\s*if trans_id in self\._new_contents or self\.path_changed\(trans_id\):"},
           params=dict(trans_id=STR, full_path=STR, modified_paths=Seq(STR), path=STR),
           modifies=["modified_paths"],
           ensures={"only_paths_with_new_content_are_reported_as_written": lambda c: If(
                        In(c.old.trans_id, c.self._new_contents), c.modified_paths == c.old.modified_paths + lift([c.old.full_path], Seq(STR)),
                        c.modified_paths == c.old.modified_paths)},
           raises={"Exception": True},
           canary=lambda c: c.modified_paths == c.old.modified_paths,
           note="block: which paths one entry of the insertion phase reports as modified (they become merge hashes)")

Rel = ufunc("Rel", STR, STR)
Versioned = ufunc("Versioned", STR, BOOL)
Sha = ufunc("Sha", STR, Opt(BYTES))
assumed("self.working_tree.supports_merge_modified", pure=True, no_raise=True, result=BOOL)
assumed("self.working_tree.relpath", pure=True, returns=lambda c: Rel(c.args[0]), raises={"Exception": None})
assumed("self.working_tree.is_versioned", pure=True, returns=lambda c: Versioned(c.args[0]), raises={"Exception": None})
assumed("self.working_tree.get_file_sha1", pure=True, returns=lambda c: Sha(c.args[0]), raises={"Exception": None})
MH = MapS(STR, BYTES)
K0 = ufunc("K0", STR)                         # an arbitrary key (skolem constant: what is proved for it holds for every key)


def recorded_only_for_written(hashes, paths, n):
    """every recorded hash belongs to one of the first n paths the transform reported as written, and is that file's current hash"""
    k = K0()
    return Implies(In(k, hashes), exists([INT], lambda j: And(0 <= j, j < n, Rel(paths[j]) == k, Not(Sha(k).is_none), hashes[k] == Sha(k).val)))


assumed("self.working_tree.set_merge_modified", result=NONE, raises={"Exception": "unchanged"},
        # what is recorded: hashes of paths the transform reported as written, nothing else
        requires=lambda c: recorded_only_for_written(c.args[0], c.results.modified_paths, Len(c.results.modified_paths)))
RES = cls("_TransformResults", fields={"modified_paths": Seq(STR)})
target("breezy/merge.py::Merge3Merger.write_modified", params=dict(results=RES), locals=dict(modified_hashes=MH),
       loops={1: loop(r"for path in results\.modified_paths", index="i", inv=lambda c: recorded_only_for_written(c.modified_hashes, c.results.modified_paths, c.i))},
       ensures={"recorded_at_most_once": lambda c: lift(c.calls("self.working_tree.set_merge_modified") <= 1)},
       raises={"Exception": True},
       canary=lambda c: lift(c.calls("self.working_tree.set_merge_modified") == 0),
       equivalent_mutants={r"supports_merge_modified|is_versioned|modified_hashes\[wt_relpath\] = hash|set_merge_modified\(modified_hashes\)":
                           "recording FEWER merge hashes (or none) only makes revert keep more backups: the safe direction for this property"},
       note="merge hashes are recorded for paths in results.modified_paths only (precondition of set_merge_modified)")

undecided("merge, update, switch and pull into a tree (tree-level three-way merge over external code)")
undecided("that files_to_backup is complete (built from iter_changes: external tree comparison); unknown files are never iterated for deletion "
          "because only versioned paths and their nested content enter the list (not under contract)")
undecided("uncommit never modifies working-tree files: proved in the C16 check (frame clause: only lock/get_parent_ids/set_parent_ids are invoked on the tree)")
