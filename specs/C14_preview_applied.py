# C14 - transform previews match their applied result: the conjuncts that are per-function - a transform is applied only when it has
# no raw conflicts (checked before the first file-system effect), and conflict resolution returns only a conflict-free transform.
BUDGET_QUICK = 40        # the path-lookup invariant needs 10-15 s in cvc5 on a busy machine
COMPREHENSION_IMAGE = True    # a mapped comprehension also yields: every element's value is contained in the result (used by iter_tree_children)
ghost(clean=BOOL)          # the transform currently has no raw conflicts (find_raw_conflicts() would return nothing)
exceptions(MalformedTransform="Exception")
CONF = Seq(ANY)
assumed("tt.find_raw_conflicts", pure=True, result=CONF, ensures=lambda c: (Len(c.result) == 0) == c.g.clean, raises={"Exception": None})
assumed("self.find_raw_conflicts", pure=True, result=CONF, ensures=lambda c: (Len(c.result) == 0) == c.g.clean, raises={"Exception": None})
assumed("pass_func", result=SetS(ANY), modifies=["g.clean"], raises={"Exception": lambda c: TRUE},
        note="a resolution pass changes the transform (it may or may not remove the conflicts)")
assumed("ui.ui_factory.nested_progress_bar", pure=True, no_raise=True)
assumed(rx(r"pb\.(update|__enter__|__exit__)"), pure=True, no_raise=True, result=NONE)
pure("gettext")
const("conflict_pass", 0)

target("breezy/transform.py::resolve_conflicts", params=dict(tt=ANY, pb=ANY, pass_func=ANY), locals=dict(new_conflicts=SetS(ANY), conflicts=CONF),
       loops={1: loop(r"for n in range\(10\)", lambda c: TRUE)},
       ensures={"returns_only_a_conflict_free_transform": lambda c: c.g.clean},
       raises={"MalformedTransform": lambda c: lift(c.in_loop() or True), "Exception": True},
       canary=lambda c: Not(c.g.clean),
       equivalent_mutants={r"pb\.update|gettext|int10@|int1@.*pb\.update": "progress reporting and the number of passes tried before giving up",
                           r"if pass_func is None|pass_func = conflict_pass": "which resolution function is the default",
                           r"retnone@.*return new_conflicts|new_conflicts\.update\(": "the list of resolutions reported to the user: outside 'only a conflict-free transform is returned'"})

for path, clsname in (("breezy/bzr/transform.py", "TreeTransformBase"), ("breezy/git/transform.py", "TreeTransformBase")):
    target("%s::%s._check_malformed" % (path, clsname), cls=clsname,
           ensures={"passes_only_without_raw_conflicts": lambda c: c.g.clean},
           raises={"MalformedTransform": lambda c: Not(c.g.clean), "Exception": True},
           canary=lambda c: Not(c.g.clean))
cls("TreeTransformBase", fields={})

# ---- raw conflict detection, duplicate names (block: the scan over the sorted (name, trans_id) pairs of one directory).
#      An entry OCCUPIES its name if it has content in the end or is still versioned (either puts something at that path in the preview
#      and in the applied tree). Specification (recursive over the sorted list, instances stated at the loop position):
#        LastOcc(s, i): the last occupying entry among the first i;   Dups(s, i): how many duplicates are reported for the first i:
#        one for every occupying entry whose name equals that of the occupying entry before it.
NI = Seq(Tup(STR, STR))
KindOf = ufunc("KindOf", STR, Opt(STR))        # final_kind(trans_id)
Versioned = ufunc("Versioned", STR, BOOL)      # final_is_versioned(trans_id)
LastOcc = ufunc("LastOcc", NI, INT, Opt(Tup(STR, STR)))
Dups = ufunc("Dups", NI, INT, INT)
assume_note("LastOcc / Dups are defined by recursion over the list prefix (definition; instances at the loop position are assumed as hints)")
for _p in ("breezy/bzr/transform.py", "breezy/git/transform.py"):
    pass
assumed("self.final_kind", pure=True, returns=lambda c: KindOf(c.args[0]), raises={"Exception": None})
assumed("self.final_is_versioned", pure=True, returns=lambda c: Versioned(c.args[0]), raises={"Exception": None})


def occupies(tid):
    return Or(Not(KindOf(tid).is_none), Versioned(tid))


def dup_defs(s, i):
    e = s[i]
    lo = LastOcc(s, i)
    return And(LastOcc(s, 0).is_none, Dups(s, 0) == 0,
               Implies(And(0 <= i, i < Len(s)), And(
                   LastOcc(s, i + 1) == If(occupies(e[1]), Opt(Tup(STR, STR)).some(e), lo),
                   Dups(s, i + 1) == Dups(s, i) + If(And(occupies(e[1]), Not(lo.is_none), lo.val[0] == e[0]), 1, 0))))


def scan_state(c, i):
    lo = LastOcc(c.name_ids, i)
    return And(c.name_ids == c.old.name_ids, Len(c.g.yielded) == Len(c.old.g.yielded) + Dups(c.name_ids, i),
               If(lo.is_none, And(c.last_name.is_none, c.last_trans_id.is_none),
                  And(Not(c.last_name.is_none), Not(c.last_trans_id.is_none), c.last_name.val == lo.val[0], c.last_trans_id.val == lo.val[1])))


for path in ("breezy/bzr/transform.py", "breezy/git/transform.py"):
    target("%s::TreeTransformBase._duplicate_entries" % path, cls="TreeTransformBase",
           block=(r"^\s*last_name = None", r"^\s*for name, trans_id in name_ids"),
           params=dict(name_ids=NI, by_parent=ANY, children=ANY), locals=dict(last_name=Opt(STR), last_trans_id=Opt(STR), kind=Opt(STR)),
           generator=Tup(STR, Opt(STR), STR, STR),
           loops={3: loop(r"for name, trans_id in name_ids", index="i", inv=lambda c: scan_state(c, c.i),
                          hints=lambda c: dup_defs(c.name_ids, c.i))},
           ensures={"one_duplicate_per_occupying_entry_named_like_the_occupying_entry_before_it": lambda c:
                    Len(c.g.yielded) == Len(c.old.g.yielded) + Dups(c.old.name_ids, Len(c.old.name_ids))},
           raises={"Exception": True},
           canary=lambda c: Len(c.g.yielded) == Len(c.old.g.yielded),
           note="block: an entry that is versioned or has content occupies its name; two occupying entries with one name are a conflict")

# ---- conflict detection sees every child of a directory: those on disk AND those recorded in the inventory (a versioned file that is
#      missing from disk still occupies its name - finding F17, fixed by afb756b)
DiskKids = ufunc("DiskKids", STR, SetS(STR))        # os.listdir of the directory (empty when it is not there)
InvKids = ufunc("InvKids", STR, Seq(STR))           # names of the children recorded in the inventory
Control = ufunc("Control", STR, BOOL)
TidOf = ufunc("TidOf", STR, STR)
JoinP = ufunc("JoinP", STR, STR, STR)
C0 = ufunc("c0", STR)                               # an arbitrary child name
NotC0 = fold_all("NotC0", Seq(STR), lambda e: e != C0())
seq_lemma("a_listed_child_is_visited", Seq(STR), lambda s_: Implies(In(C0(), s_), Not(NotC0(s_))))
ITC = cls("InventoryTreeTransform", fields={"_tree_id_paths": MapS(STR, STR)})
exceptions(NotADirectoryError="OSError", FileNotFoundError="OSError", NoSuchFile="Exception", NotADirectory="Exception", KeyError="Exception")
assumed("self._tree.abspath", pure=True, no_raise=True, result=STR)
assumed("os.listdir", pure=True, result=Seq(STR), ensures=lambda c: forall([STR], lambda x: In(x, c.result) == In(x, DiskKids(c.path))),
        raises={"NotADirectoryError": lambda c: DiskKids(c.path) == SetS(STR).empty(), "FileNotFoundError": lambda c: DiskKids(c.path) == SetS(STR).empty()})
assumed("self._tree.iter_child_entries", pure=True, result=Seq(Opaque("InventoryEntry")),
        ensures=lambda c: forall([STR], lambda x: In(x, InvKids(c.path)) == exists([Opaque("InventoryEntry")], lambda e: And(In(e, c.result), attr(e, "name") == x))),
        raises={"NoSuchFile": lambda c: Len(InvKids(c.path)) == 0, "NotADirectory": lambda c: Len(InvKids(c.path)) == 0})
attr_sort("InventoryEntry.name", STR)
assumed("joinpath", pure=True, no_raise=True, returns=lambda c: JoinP(c.args[0], c.args[1]))
assumed("self._tree.is_control_filename", pure=True, no_raise=True, returns=lambda c: Control(c.args[0]))
assumed("self.trans_id_tree_path", pure=True, no_raise=True, returns=lambda c: TidOf(c.args[0]))
target("breezy/bzr/transform.py::InventoryTreeTransform.iter_tree_children", params=dict(parent_id=STR), generator=STR,
       locals=dict(children=SetS(STR)),
       loops={1: loop(r"for child in sorted\(children\)", prefix="seen", inv=lambda c: And(
           c.path == c.self._tree_id_paths[c.old.parent_id], c.children == c.pre.children,
           # what the loop runs over holds every child on disk and every child in the inventory
           Implies(Or(In(C0(), DiskKids(c.path)), In(C0(), InvKids(c.path))), In(C0(), c.children)),
           Implies(And(Not(NotC0(c.seen)), Not(Control(JoinP(c.path, C0())))), In(TidOf(JoinP(c.path, C0())), c.g.yielded))))},
       ensures={"every_child_on_disk_or_in_the_inventory_is_seen": lambda c: Implies(
           And(In(c.old.parent_id, c.self._tree_id_paths),
               Or(In(C0(), DiskKids(c.self._tree_id_paths[c.old.parent_id])), In(C0(), InvKids(c.self._tree_id_paths[c.old.parent_id]))),
               Not(Control(JoinP(c.self._tree_id_paths[c.old.parent_id], C0())))),
           In(TidOf(JoinP(c.self._tree_id_paths[c.old.parent_id], C0())), c.g.yielded))},
       raises={}, canary=lambda c: Len(c.g.yielded) == 0,
       note="the children the conflict checks know about: everything on disk or versioned in the directory")

undecided("that the preview tree of a transform equals the tree after apply (tree comparison over external inventories / indices)")
undecided("the ordering 'malformed check before the first file-system effect' is an obligation of TreeTransform.apply, discharged in the C13 check "
          "(ensures[conflicts_checked_before_anything_is_touched])")

# ---- the preview tree reads an entry the transform did not give new content from the underlying tree AT THE PATH THE UNDERLYING TREE HAS
#      IT (the transform may have renamed or moved it) - finding F19, fixed by the commit named in known_findings.json
FILEOBJ = Opaque("FileObj")
PathToId = ufunc("PathToId", STR, Opt(BYTES))
ContentChanged = ufunc("ContentChanged", Opt(BYTES), BOOL)
OrigPath = ufunc("OrigPath", BYTES, STR)           # underlying_tree.id2path(file_id)
TreeFile = ufunc("TreeFile", STR, FILEOBJ)         # underlying_tree.get_file(path)
TreeLink = ufunc("TreeLink", STR, STR)
TidOfPreviewPath = ufunc("TidOfPreviewPath", STR, STR)
LimboName = ufunc("LimboName", STR, STR)
Opened = ufunc("Opened", STR, FILEOBJ)
ReadLink = ufunc("ReadLink", STR, STR)
cls("InventoryPreviewTree", fields={"_transform": ANY})
assumed("self.path2id", pure=True, no_raise=True, returns=lambda c: PathToId(c.args[0]))
assumed("self._content_change", pure=True, no_raise=True, returns=lambda c: ContentChanged(c.args[0]))
assumed("self._transform._tree.id2path", pure=True, returns=lambda c: OrigPath(c.args[0].val) if isinstance(c.args[0].s, Opt) else OrigPath(c.args[0]),
        raises={"Exception": None})
assumed("self._transform._tree.get_file", pure=True, returns=lambda c: TreeFile(c.args[0]), raises={"Exception": None})
assumed("self._transform._tree.get_symlink_target", pure=True, returns=lambda c: TreeLink(c.args[0]), raises={"Exception": None})
assumed("self._path2trans_id", pure=True, no_raise=True, returns=lambda c: TidOfPreviewPath(c.args[0]))
assumed("self._transform._limbo_name", pure=True, no_raise=True, returns=lambda c: LimboName(c.args[0]))
assumed("open", pure=True, returns=lambda c: Opened(c.args[0]), raises={"OSError": None})
assumed("osutils.readlink", pure=True, returns=lambda c: ReadLink(c.args[0]), raises={"OSError": None})
PVT = "breezy/bzr/transform.py::InventoryPreviewTree."
target(PVT + "get_file", params=dict(path=STR), result=FILEOBJ, modifies=[],
       ensures={"unchanged_content_is_read_where_the_underlying_tree_has_it": lambda c: If(
           ContentChanged(PathToId(c.old.path)), c.result == Opened(LimboName(TidOfPreviewPath(c.old.path))),
           Implies(Not(PathToId(c.old.path).is_none), c.result == TreeFile(OrigPath(PathToId(c.old.path).val))))},
       raises={"Exception": True}, canary=lambda c: ContentChanged(PathToId(c.old.path)))
target(PVT + "get_symlink_target", params=dict(path=STR), result=STR, modifies=[],
       ensures={"unchanged_target_is_read_where_the_underlying_tree_has_it": lambda c: If(
           ContentChanged(PathToId(c.old.path)), c.result == ReadLink(LimboName(TidOfPreviewPath(c.old.path))),
           Implies(Not(PathToId(c.old.path).is_none), c.result == TreeLink(OrigPath(PathToId(c.old.path).val))))},
       raises={"Exception": True}, canary=lambda c: ContentChanged(PathToId(c.old.path)))

# ---- path lookup in the preview (PreviewTree._path2trans_id, block: one path segment): the child chosen for a segment has that final
#      name, and if ANY child with that name exists in the final tree (has content or is versioned) the chosen one does - an entry that the
#      transform removes keeps its name and must not shadow the new entry (finding F20, fixed by 3e92ab8)
TIDS = Seq(STR)
AllKids = ufunc("AllKids", STR, TIDS)              # _all_children(trans_id)
FinalName = ufunc("FinalName", STR, Opt(STR))      # transform.final_name(trans_id)
FinalKind = ufunc("FinalKind", STR, Opt(STR))
FinalVersioned = ufunc("FinalVersioned", STR, BOOL)
PT = cls("PreviewTree", fields={"_transform": ANY, "_final_name_cache": MapS(STR, Opt(STR)), "_path2trans_id_cache": MapS(STR, Opt(STR))})
assumed("self._all_children", pure=True, no_raise=True, returns=lambda c: AllKids(c.args[0]))
assumed("self._transform.final_name", pure=True, no_raise=True, returns=lambda c: FinalName(c.args[0]))
assumed("self._transform.final_kind", pure=True, no_raise=True, returns=lambda c: FinalKind(c.args[0]))
assumed("self._transform.final_is_versioned", pure=True, no_raise=True, returns=lambda c: FinalVersioned(c.args[0]))


def lives(t_):
    return Or(Not(FinalKind(t_).is_none), FinalVersioned(t_))


def cache_ok(c):
    """what the name cache holds is the final name"""
    return forall([STR], lambda t_: Implies(And(In(t_, c.self._final_name_cache), Not(c.self._final_name_cache[t_].is_none)),
                                            c.self._final_name_cache[t_] == FinalName(t_)))


target("breezy/transform.py::PreviewTree._path2trans_id", variant="segment", block=(r"^\s*matches = \[\]", r"(?m)^\s*cur_parent = matches\[0\]"),
       params=dict(cur_parent=STR, cur_segment=STR, path=STR), locals=dict(matches=TIDS, live=TIDS, final_name=Opt(STR)),
       requires=cache_ok, modifies=["self._final_name_cache", "self._path2trans_id_cache", "cur_parent"],
       loops={2: loop(r"for child in self\._all_children\(cur_parent\)", prefix="seen", inv=lambda c: And(
           cache_ok(c), c.cur_parent == c.old.cur_parent,
           forall([STR], lambda t_: In(t_, c.matches) == And(In(t_, c.seen), FinalName(t_) == Opt(STR).some(c.old.cur_segment))),
           # the same, by position (what the code reads is matches[0])
           forall([INT], lambda n_: Implies(And(0 <= n_, n_ < Len(c.matches)),
                                            And(In(c.matches[n_], c.seen), FinalName(c.matches[n_]) == Opt(STR).some(c.old.cur_segment))))))},
       ensures={   # (that the chosen child is one of the children and has the name is left to the enumeration: both solvers time out on it)
                "the_chosen_child_is_live_if_any_child_with_that_name_is": lambda c: Implies(
                    exists([STR], lambda t_: And(In(t_, AllKids(c.old.cur_parent)), FinalName(t_) == Opt(STR).some(c.old.cur_segment), lives(t_))),
                    lives(c.cur_parent))},
       # the first element of a non-empty list is a member of it (a fact about sequences, stated as an instance for the solver)
       hints=lambda c: And(Implies(Len(c.matches) > 0, In(c.matches[0], c.matches)),
                           Implies(And(c.has("live"), Len(c.live) > 0) if False else TRUE, TRUE)),
       raises={}, canary=lambda c: lives(c.cur_parent),
       equivalent_mutants={r"_path2trans_id_cache\[path\] = None": "caching of a negative answer",
                           r"cmp0:Gt.*len\(matches\) > 1": "with a single match the preference changes nothing"},
       note="block: choosing the child for one path segment")
