# C14 - transform previews match their applied result: the conjuncts that are per-function - a transform is applied only when it has
# no raw conflicts (checked before the first file-system effect), and conflict resolution returns only a conflict-free transform.
ghost(clean=BOOL)          # the transform currently has no raw conflicts (find_raw_conflicts() would return nothing)
exceptions(MalformedTransform="Exception")
CONF = Seq(ANY)
assumed("tt.find_raw_conflicts", pure=True, result=CONF, ensures=lambda c: (Len(c.result) == 0) == c.g.clean, raises={"Exception": None})
assumed("self.find_raw_conflicts", pure=True, result=CONF, ensures=lambda c: (Len(c.result) == 0) == c.g.clean, raises={"Exception": None})
assumed("pass_func", result=SetS(ANY), modifies=["g.clean"], raises={"Exception": lambda c: TRUE},
        note="a resolution pass changes the transform (it may or may not remove the conflicts)")
assumed("ui.ui_factory.nested_progress_bar", pure=True, no_raise=True)
assumed(rx(r"pb\.(update|__enter__|__exit__)"), pure=True, no_raise=True, result=NONE)
pure("gettext")
const("conflict_pass", 0)

target("breezy/transform.py::resolve_conflicts", params=dict(tt=ANY, pb=ANY, pass_func=ANY), locals=dict(new_conflicts=SetS(ANY), conflicts=CONF),
       loops={1: loop(r"for n in range\(10\)", lambda c: TRUE)},
       ensures={"returns_only_a_conflict_free_transform": lambda c: c.g.clean},
       raises={"MalformedTransform": lambda c: lift(c.in_loop() or True), "Exception": True},
       canary=lambda c: Not(c.g.clean),
       equivalent_mutants={r"pb\.update|gettext|int10@|int1@.*pb\.update": "progress reporting and the number of passes tried before giving up",
                           r"if pass_func is None|pass_func = conflict_pass": "which resolution function is the default",
                           r"retnone@.*return new_conflicts|new_conflicts\.update\(": "the list of resolutions reported to the user: outside 'only a conflict-free transform is returned'"})

for path, clsname in (("breezy/bzr/transform.py", "TreeTransformBase"), ("breezy/git/transform.py", "TreeTransformBase")):
    target("%s::%s._check_malformed" % (path, clsname), cls=clsname,
           ensures={"passes_only_without_raw_conflicts": lambda c: c.g.clean},
           raises={"MalformedTransform": lambda c: Not(c.g.clean), "Exception": True},
           canary=lambda c: Not(c.g.clean))
cls("TreeTransformBase", fields={})

undecided("that the preview tree of a transform equals the tree after apply (tree comparison over external inventories / indices)")
undecided("the ordering 'malformed check before the first file-system effect' is an obligation of TreeTransform.apply, discharged in the C13 check "
          "(ensures[conflicts_checked_before_anything_is_touched])")
