# Shared ghost model of a LockDir on a transport (used by C26 and C27).
#   <path>/held/info        the lock and its holder information
#   <path>/<random>.tmp/    pending / releasing / broken directories, each possibly with an info file

INFO = Opaque("Info")
attr_sort("Info.nonce", BYTES)
Complete = ufunc("Complete", INFO, BOOL)     # the info file holds the complete serialisation of the holder information
PINFO = MapS(STR, INFO)
ghost(held=BOOL, hinfo=Opt(INFO), pend=SetS(STR), pinfo=PINFO)

LD = cls("LockDir", fields={"path": STR, "_held_dir": STR, "_held_info_path": STR, "nonce": Opt(BYTES), "_lock_held": BOOL,
                            "_locked_via_token": BOOL, "_fake_read_lock": BOOL, "__INFO_NAME": STR, "transport": ANY,
                            "extra_holder_info": ANY, "_dir_modebits": ANY, "hooks": ANY})
exceptions(LockError="Exception", LockContention="LockError", LockFailed="LockError", LockBroken="LockError", LockNotHeld="LockError",
           LockBreakMismatch="LockError", LockCorrupt="LockError", PathError="Exception", NoSuchFile="PathError", FileExists="PathError",
           DirectoryNotEmpty="PathError", ResourceBusy="PathError", TransportError="Exception")
pure("rand_chars", "time.time", "lock.LockResult", "self.transport.abspath", "str", "urlutils.join", "gettext")


def crash_ok(g):
    """Whoever stops here leaves a recoverable lock: a held directory always carries a completely written info file."""
    return Implies(g.held, And(Not(g.hinfo.is_none), Complete(g.hinfo.val)))


def same_lock(c):
    return And(c.g.held == c.old.g.held, c.g.hinfo == c.old.g.hinfo)


assumed("self.transport.mkdir", result=NONE, modifies=["g.pend"],
        ensures=lambda c: And(Not(In(c.args[0], c.old.g.pend)), Not(In(c.args[0], c.old.g.pinfo)),
                              c.g.pend == (c.old.g.pend | mkset(SetS(STR), c.args[0]))),
        raises={"NoSuchFile": "unchanged", "FileExists": "unchanged", "Exception": "unchanged"},
        note="creates one new empty directory or fails without effect")
assumed("self.create", result=NONE, note="creates the (empty) lock directory itself")
assumed("LockHeldInfo.for_this_process", pure=True, result=INFO,
        ensures=lambda c: Implies(Not(c.g.hinfo.is_none), attr(c.result, "nonce") != attr(c.g.hinfo.val, "nonce")),
        note="nonces are unique: a freshly generated nonce differs from the nonce of whoever holds the lock")
assumed("info.to_bytes", pure=True)
JUNK = ufunc("Junk", INFO)
assumed("self.transport.put_bytes_non_atomic", result=NONE, modifies=["g.pinfo"],
        requires=lambda c: In(c.tmpname, c.g.pend),
        ensures=lambda c: And(c.g.pinfo == mapstore(c.old.g.pinfo, c.tmpname, c.info), Complete(c.info)),
        raises={"Exception": lambda c: And(Or(c.g.pinfo == c.old.g.pinfo, c.g.pinfo == mapstore(c.old.g.pinfo, c.tmpname, JUNK())),
                                           Not(Complete(JUNK())))},
        note="a non-atomic write: on failure the file may be missing or partially written")


def rename_post(c):
    a, b = c.args[0], c.args[1]
    into_place = And(In(a, c.old.g.pend), Not(c.old.g.held), c.g.held,
                     c.g.hinfo == If(In(a, c.old.g.pinfo), Opt(INFO).some(c.old.g.pinfo[a]), Opt(INFO).none()),
                     c.g.pend == (c.old.g.pend - mkset(SetS(STR), a)), c.g.pinfo == mapdel(c.old.g.pinfo, a))
    away = And(c.old.g.held, Not(c.g.held), c.g.hinfo.is_none, Not(In(b, c.old.g.pend)), Not(In(b, c.old.g.pinfo)),
               c.g.pend == (c.old.g.pend | mkset(SetS(STR), b)),
               c.g.pinfo == If(c.old.g.hinfo.is_none, c.old.g.pinfo, mapstore(c.old.g.pinfo, b, c.old.g.hinfo.val)))
    # which way the rename goes is read off the call site: rename(x, self._held_dir) takes the lock, rename(self._held_dir, x) gives it up
    if c.arg_text[1] == "self._held_dir":
        return into_place
    if c.arg_text[0] == "self._held_dir":
        return away
    raise RuntimeError("rename call site not understood: %r" % (c.arg_text,))


assumed("self.transport.rename", result=NONE, modifies=["g.held", "g.hinfo", "g.pend", "g.pinfo"],
        ensures=rename_post,
        raises={"Exception": "unchanged"},
        note="directory rename is atomic: it moves the whole directory or fails without effect (fails when the target exists)")
assumed("self.transport.delete", result=NONE, modifies=["g.pinfo"],
        ensures=lambda c: c.g.pinfo == mapdel(c.old.g.pinfo, c.tmpname), raises={"PathError": "unchanged", "Exception": "unchanged"})
assumed("self.transport.rmdir", result=NONE, modifies=["g.pend"],
        ensures=lambda c: c.g.pend == (c.old.g.pend - mkset(SetS(STR), c.args[0])),
        raises={"DirectoryNotEmpty": "unchanged", "PathError": "unchanged", "Exception": "unchanged"})
assumed("self.transport.delete_tree", result=NONE, modifies=["g.pend", "g.pinfo"],
        ensures=lambda c: And(c.g.pend == (c.old.g.pend - mkset(SetS(STR), c.args[0])), c.g.pinfo == mapdel(c.old.g.pinfo, c.args[0])))
