# Shared ghost model of a commit (used by C01 and C23): tips of the local branch and of the master, the commit builder's state.
BR = Opaque("Branch")
always_truthy(BR, "Branch defines neither __bool__ nor __len__")
REV = BYTES
BSTATE = Enum("BuilderState", ["none", "open", "committed", "aborted"])
ghost(local_tip=REV, master_tip=REV, local_moves=INT, master_moves=INT, master_locked=BOOL, bstate=BSTATE, new_rev=REV,
      local_revno=INT, master_revno=Opt(INT))
const("breezy.revision.NULL_REVISION", b"null:")
NULL = lift(b"null:")
exceptions(BoundBranchOutOfDate="Exception", CommitToDoubleBoundBranch="Exception", LocalRequiresBoundBranch="Exception",
           OutOfDateTree="Exception", UnsupportedOperation="Exception", ConflictsInTree="Exception", PointlessCommit="Exception",
           CannotCommitSelectedFileMerge="Exception", AssertionError="Exception", IndexError="Exception")
COMMIT = cls("Commit", fields={"branch": BR, "master_branch": Opt(BR), "bound_branch": Opt(BR), "local": BOOL, "rev_id": Opt(REV),
                               "_lossy": BOOL, "builder": ANY, "work_tree": ANY, "config_stack": ANY, "parents": Seq(REV),
                               "basis_tree": ANY, "reporter": ANY, "deleted_paths": ANY, "message": ANY, "pb": ANY,
                               "specific_files": ANY, "exclude": ANY, "allow_pointless": BOOL},
             pure_methods=["_set_progress_stage", "_emit_progress", "_next_progress_entry"])
attr_sort("*.updates_branch", BOOL)
pure("self._set_progress_stage", "gettext", "stack.enter_context", "stack.callback", "mutter", "trace.log_exception_quietly")

# --- the local branch
assumed("self.branch.get_bound_location", pure=True, no_raise=True, result=Opt(STR))
assumed("self.branch.last_revision", pure=True, no_raise=True, returns=lambda c: c.g.local_tip)
assumed("self.branch.set_last_revision_info", result=NONE, modifies=["g.local_tip", "g.local_moves", "g.local_revno"],
        ensures=lambda c: And(c.g.local_tip == c.args[1], c.g.local_moves == c.old.g.local_moves + 1, eq(c.g.local_revno, c.args[0])),
        raises={"Exception": "unchanged"}, note="moves the local tip or fails without effect")
assumed("self.branch.fetch", result=NONE, raises={"Exception": "unchanged"})
assumed("self.branch.tags.merge_to", pure=True, result=Tup(ANY, Seq(Tup(STR, ANY, ANY))), raises={"Exception": None},
        note="tag propagation does not move tips (C24)")
# --- the master
assumed("self.branch.get_master_branch", pure=True, result=Opt(BR), raises={"Exception": None})
MasterBoundTo = ufunc("MasterBoundTo", Opt(STR))     # where the master itself is bound to (None: not bound)
assumed("self.master_branch.get_bound_location", pure=True, no_raise=True, returns=lambda c: MasterBoundTo())
assumed("self.master_branch.last_revision", pure=True, no_raise=True, returns=lambda c: c.g.master_tip)
assumed("self.master_branch.lock_write", result=ANY, modifies=["g.master_locked"], ensures=lambda c: c.g.master_locked,
        raises={"Exception": "unchanged"})
assumed("self.master_branch.import_last_revision_info_and_tags", result=Tup(Opt(INT), REV), modifies=["g.master_tip", "g.master_moves", "g.master_revno"],
        requires=lambda c: c.g.master_locked,
        ensures=lambda c: And(c.g.master_tip == c.result[1], c.g.master_moves == c.old.g.master_moves + 1, c.g.master_revno == c.result[0],
                              Implies(Not(truthy(c.kw["lossy"])), c.result[1] == c.args[2])),
        raises={"Exception": "unchanged"},
        note="the master records the revision and moves its tip to it (returning the id it recorded), or fails without moving")

UPD_EQUIV = {r"_set_progress_stage|note\(|warning_lines|gettext|if tag_conflicts": "progress and user messages: outside the property",
             r"drop:Expr.*\| self\._process_pre_hooks\(": "whether pre_commit hooks run for builders that update the branch themselves: hook policy, not tips",
             r"drop:Expr.*\| self\.branch\.fetch\(": "lossy commits to foreign masters fetch the rewritten revision back: outside the property"}

# ---- _update_branches
assumed("self._process_pre_hooks", result=NONE, raises={"Exception": "unchanged"}, note="pre_commit hooks may veto by raising; they do not move tips")


def tips_untouched(c):
    return And(c.g.local_tip == c.old.g.local_tip, c.g.master_tip == c.old.g.master_tip,
               c.g.local_moves == c.old.g.local_moves, c.g.master_moves == c.old.g.master_moves)


def upd_requires(c):
    # commit() refuses builders that update the branch themselves when bound, and binds only with a master it has locked
    return And(Not(c.self.rev_id.is_none),
               Implies(Not(c.self.bound_branch.is_none),
                       And(c.g.master_locked, Not(c.self.master_branch.is_none), Not(attr(c.self.builder, "updates_branch")))))


UPD_MOD = ["g.local_tip", "g.master_tip", "g.local_moves", "g.master_moves", "g.local_revno", "g.master_revno", "self.rev_id"]
UPD = verified(("Commit", "_update_branches"), params=["old_revno", "old_revid", "new_revno"], result=NONE, modifies=UPD_MOD,
               requires=upd_requires,
               ensures=lambda c: And(Not(c.self.rev_id.is_none),
                                     Implies(Not(attr(c.self.builder, "updates_branch")), c.g.local_tip == c.self.rev_id.val),
                                     Implies(Not(c.old.self.bound_branch.is_none), c.g.local_tip == c.g.master_tip)),
               raises={"Exception": None})
target("breezy/commit.py::Commit._update_branches", params=dict(old_revno=Opt(INT), old_revid=REV, new_revno=Opt(INT)),
       requires=upd_requires,
       modifies=UPD_MOD,
       ensures={"callers_view": lambda c: And(Not(c.self.rev_id.is_none),
                                              Implies(Not(attr(c.self.builder, "updates_branch")), c.g.local_tip == c.self.rev_id.val),
                                              Implies(Not(c.old.self.bound_branch.is_none), c.g.local_tip == c.g.master_tip)),
                "both_end_with_the_same_tip": lambda c: Implies(
                    And(Not(c.old.self.bound_branch.is_none), Not(attr(c.self.builder, "updates_branch"))),
                    And(c.g.local_tip == c.g.master_tip, c.g.local_tip == c.self.rev_id.val,
                        c.g.master_moves == c.old.g.master_moves + 1, c.g.local_moves == c.old.g.local_moves + 1)),
                "master_first": lambda c: lift(c.before("self.master_branch.import_last_revision_info_and_tags",
                                                        "self.branch.set_last_revision_info")),
                "unbound_or_local_commit_changes_only_the_local_branch": lambda c: Implies(
                    c.old.self.bound_branch.is_none,
                    And(c.g.master_tip == c.old.g.master_tip, c.g.master_moves == c.old.g.master_moves,
                        lift(c.calls("self.master_branch.import_last_revision_info_and_tags") == 0))),
                "recorded_with_the_right_number": lambda c: Implies(
                    Not(attr(c.self.builder, "updates_branch")),
                    c.g.local_revno == If(c.old.self.bound_branch.is_none,
                                          If(c.old.new_revno.is_none, 1, c.old.new_revno.val),
                                          If(c.g.master_revno.is_none, 1, c.g.master_revno.val))),
                "a_veto_is_never_swallowed": lambda c: lift(c.calls("self._process_pre_hooks", failed=True) == 0),
                "local_tip_is_the_new_revision": lambda c: Implies(Not(attr(c.self.builder, "updates_branch")),
                                                                   And(c.g.local_tip == c.self.rev_id.val,
                                                                       c.g.local_moves == c.old.g.local_moves + 1))},
       raises={"Exception": {
           "master_failure_leaves_the_local_tip": lambda c: Implies(
               lift(c.calls("self.master_branch.import_last_revision_info_and_tags", failed=True) == 1), tips_untouched(c)),
           "vetoed_commit_moves_nothing": lambda c: Implies(
               And(lift(c.calls("self._process_pre_hooks", failed=True) == 1), Not(attr(c.self.builder, "updates_branch"))), tips_untouched(c)),
           "builder_updated_branch_is_put_back_when_vetoed": lambda c: Implies(
               And(lift(c.calls("self._process_pre_hooks", failed=True) == 1), attr(c.self.builder, "updates_branch"),
                   lift(c.calls("self.branch.set_last_revision_info", failed=True) == 0)),
               c.g.local_tip == c.old.old_revid),
           "local_never_ahead_of_a_master_that_failed": lambda c: Implies(
               Not(c.old.self.bound_branch.is_none),
               Or(c.g.local_moves == c.old.g.local_moves, c.g.master_moves == c.old.g.master_moves + 1))}},
       canary=lambda c: c.g.local_tip == c.old.g.local_tip, equivalent_mutants=UPD_EQUIV)

