# C46 - clean-tree deletes only what was asked for.

ITEMS = Seq(Tup(STR, STR))             # (absolute path, path relative to the tree)
TREE = Opaque("Tree")
ghost(deleted=SetS(STR), asked=BOOL, confirmed=BOOL)   # asked/confirmed: the interactive prompt and its answer               # every path handed to os.unlink / shutil.rmtree (even if that call then failed)

Extras = ufunc("Extras", TREE, Seq(STR))       # what tree.extras() lists
Abs = ufunc("Abs", TREE, STR, STR)
Ign = ufunc("Ign", TREE, STR, BOOL)
IsDir = ufunc("IsDir", STR, BOOL)
IsBranch = ufunc("IsBranch", STR, BOOL)              # ControlDir.open(path) succeeds: a control directory AT path
ContainsBranch = ufunc("ContainsBranch", STR, BOOL)  # a control directory at or anywhere below path
Allowed = ufunc("Allowed", STR, BOOL)   # ghost: ANY predicate containing every requested extra (parametricity)
X0 = ufunc("x0", STR)                   # an arbitrary path
T0 = ufunc("t0", TREE)                  # the tree being cleaned
FU, FI, FD = ufunc("f_unknown", BOOL), ufunc("f_ignored", BOOL), ufunc("f_detritus", BOOL)   # ghost copies of the flags

exceptions(NotBranchError="Exception")


def Det(s):
    """is_detritus, from the documentation: merge leftovers, backups and temp files."""
    def ends(x):
        return suffix(s, x)
    return Or(ends(".THIS"), ends(".BASE"), ends(".OTHER"), ends("~"), ends(".tmp"))


def suffix(s, x):
    x = lift(x)
    n, m = Len(s), Len(x)
    return And(n >= m, s[n - m:n] == x)


DetU = ufunc("DetU", STR, BOOL)   # "is detritus" as seen by callers: the value of the pure function is_detritus,
                                  # whose own contract (below) pins it to the documented suffix list


def wanted(s):
    return Or(And(FD(), DetU(s)), If(Ign(T0(), s), FI(), FU()))


AllAllowed = fold_all("AllAllowed", ITEMS, lambda e: Allowed(e[0]))
AllNotX0 = fold_all("AllNotX0", ITEMS, lambda e: e[0] != X0())
NoBranchDirs = fold_all("NoBranchDirs", ITEMS, lambda e: Not(And(IsDir(e[0]), IsBranch(e[0]))))
NoNestedBranches = fold_all("NoNestedBranches", ITEMS, lambda e: Not(And(IsDir(e[0]), ContainsBranch(e[0]))))
# parametricity, quantifier-free: Allowed holds for every requested extra of the tree
ExtrasAllowed = fold_all("ExtrasAllowed", Seq(STR), lambda e: Implies(wanted(e), Allowed(Abs(T0(), e))))
seq_lemma("deleted_path_is_no_branch_dir", ITEMS,
          lambda s: Implies(And(NoBranchDirs(s), Not(AllNotX0(s))), Not(And(IsDir(X0()), IsBranch(X0())))))
seq_lemma("deleted_path_is_allowed", ITEMS, lambda s: Implies(And(AllAllowed(s), Not(AllNotX0(s))), Allowed(X0())))

pure("gettext")
IS_DET = verified("is_detritus", params=["subp"], pure=True, no_raise=True, result=BOOL, returns=lambda c: DetU(c.subp))
target("breezy/clean_tree.py::is_detritus", params=dict(subp=STR), result=BOOL, raises={},
       ensures=lambda c: c.result == Det(c.old.subp), canary=lambda c: c.result == True)

assumed("tree.extras", pure=True, returns=lambda c: Extras(c.tree),
        note="extras() lists only unversioned paths not containing versioned ones (bzr and git implementations not verified)")
assumed("tree.abspath", pure=True, returns=lambda c: Abs(c.tree, c.args[0]))
assumed("tree.is_ignored", pure=True, returns=lambda c: Ign(c.tree, c.args[0]))


def flags(c):
    return And(c.tree == T0(), c.unknown == FU(), c.ignored == FI(), c.detritus == FD(), ExtrasAllowed(Extras(T0())))


ITER = verified("iter_deletables", params=["tree", "unknown", "ignored", "detritus"], pure=True, result=ITEMS,
                requires=lambda c: flags(c), ensures=lambda c: AllAllowed(c.result),
                raises={"Exception": None})
target("breezy/clean_tree.py::iter_deletables",
       params=dict(tree=TREE, unknown=BOOL, ignored=BOOL, detritus=BOOL), generator=Tup(STR, STR),
       requires=flags,
       loops={1: loop(r"for subp in tree\.extras\(\)", prefix="seen",
                      inv=lambda c: And(AllAllowed(c.g.yielded),
                                        # completeness for an arbitrary relative path: a requested extra already seen was yielded
                                        Implies(And(In(X0(), c.seen), wanted(X0())),
                                                In(Tup(STR, STR).mk(Abs(T0(), X0()), X0()), c.g.yielded))))},
       ensures={"only_requested_extras": lambda c: AllAllowed(c.g.yielded),
                "every_requested_extra": lambda c: Implies(And(In(X0(), Extras(T0())), wanted(X0())),
                                                           In(Tup(STR, STR).mk(Abs(T0(), X0()), X0()), c.g.yielded))},
       raises={}, canary=lambda c: Len(c.g.yielded) == 0)

# ---- nested control directories are preserved
assumed("isdir", pure=True, returns=lambda c: IsDir(c.args[0]))
assumed("controldir.ControlDir.open", pure=True, requires=None,
        ensures=lambda c: IsBranch(c.args[0]),
        raises={"NotBranchError": lambda c: Not(IsBranch(c.args[0])), "Exception": None},
        note="ControlDir.open(path) succeeds exactly when there is a control directory AT path")

FILTER = verified("_filter_out_nested_controldirs", params=["deletables"], pure=True, result=ITEMS,
                  ensures=lambda c: And(Implies(AllAllowed(c.deletables), AllAllowed(c.result)), NoBranchDirs(c.result)),
                  raises={"Exception": None})
target("breezy/clean_tree.py::_filter_out_nested_controldirs",
       params=dict(deletables=ITEMS), locals=dict(result=ITEMS), result=ITEMS,
       requires=lambda c: forall([STR], lambda p: Implies(IsBranch(p), ContainsBranch(p))),
       loops={1: loop(r"for path, subp in deletables", prefix="seen",
                      inv=lambda c: And(Implies(AllAllowed(c.seen), AllAllowed(c.var("result"))), NoBranchDirs(c.var("result")),
                                        Implies(AllNotX0(c.seen), AllNotX0(c.var("result")))))},
       ensures={"subsequence_of_allowed": lambda c: Implies(AllAllowed(c.old.deletables), AllAllowed(c.result)),
                "nothing_new": lambda c: Implies(AllNotX0(c.old.deletables), AllNotX0(c.result)),
                "no_branch_at_a_listed_directory": lambda c: NoBranchDirs(c.result),
                # the statement: directories CONTAINING nested branches are preserved
                "no_listed_directory_contains_a_branch": lambda c: NoNestedBranches(c.result)},
       raises={"Exception": True}, canary=lambda c: Len(c.result) == 0)

LOG_EQUIV = {r"\| (note|ui\.ui_factory\.note|ui\.ui_factory\.show_warning)\(": "user messages only",
             r"has_deleted": "has_deleted only selects which message is printed",
             r"drop:Expr.*\| (shutil\.rmtree|os\.unlink|delete_items)\(": "deleting less than requested does not violate 'deletes only what was asked for'",
             r"negate.*\| if isdir\(path\):": "which removal primitive is used for a path is outside the property (the path deleted is the same)",
             r"\| if len\(deletables\) == 0:|\| return 0$": "the early return / return value only short-cuts an empty deletion",
             r"drop:Expr.*\| ui\.ui_factory\.note\(": "user messages only"}
# ---- deletion
assumed("shutil.rmtree", result=NONE, modifies=["g.deleted"],
        ensures=lambda c: c.g.deleted == (c.old.g.deleted | mkset(SetS(STR), c.args[0])),
        raises={"Exception": lambda c: c.g.deleted == (c.old.g.deleted | mkset(SetS(STR), c.args[0]))},
        note="removes only the given path (and what is below it)")
assumed("os.unlink", result=NONE, modifies=["g.deleted"],
        ensures=lambda c: c.g.deleted == (c.old.g.deleted | mkset(SetS(STR), c.args[0])),
        raises={"PermissionError": "unchanged", "Exception": lambda c: c.g.deleted == (c.old.g.deleted | mkset(SetS(STR), c.args[0]))})
assumed("ui.ui_factory.get_boolean", result=BOOL, modifies=["g.asked", "g.confirmed"],
        ensures=lambda c: And(c.g.asked, c.g.confirmed == c.result), raises={"Exception": None})

DELETE = verified("delete_items", params=["deletables", ("dry_run", False)], result=NONE, modifies=["g.deleted"],
                  note="verified below",
                  ensures=lambda c: And(Implies(truthy(c.dry_run), c.g.deleted == c.old.g.deleted),
                                        Implies(AllNotX0(c.deletables), In(X0(), c.g.deleted) == In(X0(), c.old.g.deleted))),
                  raises={"Exception": lambda c: And(Implies(truthy(c.dry_run), c.g.deleted == c.old.g.deleted),
                                                     Implies(AllNotX0(c.deletables), In(X0(), c.g.deleted) == In(X0(), c.old.g.deleted)))})
target("breezy/clean_tree.py::delete_items", contract=DELETE,
       params=dict(deletables=ITEMS, dry_run=BOOL),
       loops={1: loop(r"for path, subp in deletables", prefix="seen",
                      inv=lambda c: And(Implies(c.old.dry_run, c.g.deleted == c.old.g.deleted),
                                        Implies(AllNotX0(c.seen), In(X0(), c.g.deleted) == In(X0(), c.old.g.deleted))))},
       ensures={"contract": lambda c: And(Implies(c.old.dry_run, c.g.deleted == c.old.g.deleted),
                                          Implies(AllNotX0(c.old.deletables), In(X0(), c.g.deleted) == In(X0(), c.old.g.deleted)))},
       raises={"Exception": lambda c: And(Implies(c.old.dry_run, c.g.deleted == c.old.g.deleted),
                                          Implies(AllNotX0(c.old.deletables), In(X0(), c.g.deleted) == In(X0(), c.old.g.deleted)))},
       canary=lambda c: c.g.deleted == c.old.g.deleted, equivalent_mutants=LOG_EQUIV)

# ---- the command
assumed("WorkingTree.open_containing", pure=True, result=Tup(TREE, ANY))
assumed("tree.lock_read", pure=True, raises={"Exception": None})


def only_allowed(c):
    return And(Implies(c.old.dry_run, c.g.deleted == c.old.g.deleted),
               Implies(And(In(X0(), c.g.deleted), Not(In(X0(), c.old.g.deleted))),
                       And(Allowed(X0()),
                           Not(And(IsDir(X0()), IsBranch(X0()))),       # a nested branch at a listed path is preserved
                           Or(c.old.no_prompt, And(c.g.asked, c.g.confirmed)))))   # never without consent


target("breezy/clean_tree.py::clean_tree",
       params=dict(unknown=BOOL, ignored=BOOL, detritus=BOOL, dry_run=BOOL, no_prompt=BOOL),
       locals=dict(deletables=ITEMS),
       requires=lambda c: And(c.unknown == FU(), c.ignored == FI(), c.detritus == FD(),
                              Not(c.g.asked),
                              forall([TREE], lambda t: t == T0()),     # one tree: the one opened for `directory`
                              ExtrasAllowed(Extras(T0()))),
       loops={1: loop(r"for _path, subp in deletables", lambda c: c.g.deleted == c.old.g.deleted)},
       modifies=["g.deleted", "g.asked", "g.confirmed"],
       ensures={"deletes_only_requested_extras_with_consent": only_allowed},
       raises={"Exception": only_allowed},
       canary=lambda c: c.g.deleted == c.old.g.deleted, equivalent_mutants=LOG_EQUIV)

undecided("that tree.extras() itself lists only unversioned paths (bzr and git working tree implementations are external/unverified)")

# ---- where tree.extras() looks (bzr working trees): only inside real directories of the tree.
# A versioned directory that was replaced on disk by a symlink must not be listed: its contents lie outside the tree.
ENTRY = Opaque("Entry")
attr_sort("Entry.kind", STR)
IsRealDir = ufunc("IsRealDir", STR, BOOL)      # osutils.isdir: lstat-based, false for a symlink to a directory
Unfs = ufunc("Unfs", ANY, STR)
assumed("self.iter_entries_by_dir", pure=True, result=Seq(Tup(STR, ENTRY)), raises={"Exception": None})
assumed("self.abspath", pure=True, result=STR)
assumed("osutils.isdir", pure=True, returns=lambda c: IsRealDir(c.args[0]))
assumed("inv.get_children", pure=True, result=MapS(STR, ANY), raises={"Exception": None})
assumed("os.fsencode", pure=True, ensures=lambda c: Unfs(c.result) == c.args[0])
assumed("os.listdir", result=Seq(ANY), requires=lambda c: IsRealDir(Unfs(c.args[0])),
        note="only real directories (never symlinks) are listed, so nothing outside the tree is ever reported as an extra")
assumed("os.fsdecode", pure=True, result=STR)
assumed("self.controldir.is_control_filename", pure=True, result=BOOL)
assumed("osutils.normalized_filename", pure=True, result=Tup(STR, BOOL))
assumed("osutils.pathjoin", pure=True, result=STR)
target("breezy/bzr/workingtree.py::InventoryWorkingTree.extras", generator=STR,
       locals=dict(fl=Seq(STR)),
       loops={1: loop(r"for path, dir_entry in self\.iter_entries_by_dir\(\)", lambda c: TRUE),
              2: loop(r"for subf in ", lambda c: TRUE),
              3: loop(r"for subf in fl", lambda c: TRUE)},
       ensures=lambda c: TRUE, raises={"Exception": True},
       equivalent_mutants={r".": "only the call.pre of os.listdir (never list a symlinked directory) is claimed for extras(); "
                                 "which unversioned names it reports is not under contract"},
       note="safety precondition only: os.listdir is reached only for lstat-real directories")
