# C29 - smart protocol bodies survive the wire unchanged, whatever the segmentation (length-prefixed bodies of protocol v1/v2).
include("_lpd_model.py")
include("_p3_model.py")

# ---- the buffer helpers of _StatefulDecoder
GETB = verified(("LengthPrefixedBodyDecoder", "_get_in_buffer"), result=BYTES, modifies=["self._in_buffer_list"],
                requires=lambda c: buffer_ok(c.self),
                ensures=lambda c: And(c.result == buf(c.old.self), buf(c.self) == buf(c.old.self), buffer_ok(c.self)),
                no_raise=True)
target(D + "_StatefulDecoder._get_in_buffer", cls="LengthPrefixedBodyDecoder", contract=GETB,
       ensures={"whole_buffer_unchanged": lambda c: And(c.result == buf(c.old.self), buf(c.self) == buf(c.old.self), buffer_ok(c.self))},
       raises={}, canary=lambda c: Len(c.result) == 0,
       equivalent_mutants={r"raise AssertionError|self\._in_buffer_list = \[in_buffer\]": "defensive length check (unreachable under the buffer invariant) and the caching of the joined buffer"})
SETB = verified(("LengthPrefixedBodyDecoder", "_set_in_buffer"), params=["new_buf"], result=NONE,
                modifies=["self._in_buffer_list", "self._in_buffer_len"],
                ensures=lambda c: And(buffer_ok(c.self), buf(c.self) == If(c.new_buf.is_none, lift(b""), c.new_buf.val)
                                      if isinstance(c.new_buf.s, Opt) else buf(c.self) == (lift(b"") if c.new_buf.s == NONE else c.new_buf)),
                no_raise=True)
target(D + "_StatefulDecoder._set_in_buffer", cls="LengthPrefixedBodyDecoder", params=dict(new_buf=Opt(BYTES)),
       modifies=["self._in_buffer_list", "self._in_buffer_len"],
       ensures={"buffer_is_exactly_the_argument": lambda c: And(buffer_ok(c.self), buf(c.self) == If(c.old.new_buf.is_none, lift(b""), c.old.new_buf.val))},
       raises={}, canary=lambda c: Len(buf(c.self)) == 0,
       equivalent_mutants={r"raise TypeError": "argument type check: the argument is a byte string here"})

# ---- the four state functions: each digests what it can and keeps the invariant; staying in the same state means nothing more can be done
LP = "LengthPrefixedBodyDecoder"
SMOD = ["self._in_buffer_list", "self._in_buffer_len", "self.bytes_left", "self.state_accept", "self.state_read", "self._body",
        "self._trailer_buffer", "self.unused_data", "self.finished_reading"]


def state_contract(name):
    return verified((LP, name), result=NONE, modifies=SMOD,
                    requires=lambda c: And(wf_message(), P(c.self, c.g.taken), c.self.state_accept == name),
                    ensures=lambda c: And(P(c.self, c.g.taken), delivered(c.self) == delivered(c.old.self),
                                          Implies(c.self.state_accept == name, resting(c.self))),
                    no_raise=True)


for _n in STATES.values:
    _c = state_contract(_n)
    target(D + LP + "." + _n, contract=_c, quick_mutants=4,
           ensures={"buffer_is_the_next_part_of_the_message": lambda c: P_common(c.self),
                    "fields_agree_with_the_message": lambda c: P_state(c.self, c.g.taken),
                    "nothing_lost_or_invented": lambda c: delivered(c.self) == delivered(c.old.self),
                    "same_state_means_nothing_more_to_digest": (lambda nm: lambda c: Implies(c.self.state_accept == nm, resting(c.self)))(_n)},
           raises={}, canary=(lambda nm: (lambda c: c.self.finished_reading) if nm == "_state_accept_expecting_length"
                              else (lambda c: c.self.state_accept == "_state_accept_expecting_length"))(_n))

# ---- accept_bytes: any next piece of the message, of any length, keeps the invariant and digests everything digestible
def next_piece(c):
    d = delivered(c.self)
    return And(d + Len(c.new_buf) <= Len(msg()), c.new_buf == msg()[d:d + Len(c.new_buf)])


target(D + "_StatefulDecoder.accept_bytes", cls=LP, params=dict(new_buf=BYTES), locals=dict(current_state=STATES), quick_mutants=5,
       requires=lambda c: And(wf_message(), R(c.self, c.g.taken), next_piece(c)),
       modifies=SMOD + ["self._number_needed_bytes"],
       loops={1: loop(r"while current_state != self\.state_accept", lambda c: And(
           P(c.self, c.g.taken), delivered(c.self) == delivered(c.old.self) + Len(c.old.new_buf),
           Implies(c.current_state == c.self.state_accept, resting(c.self))))},
       partial=True,
       ensures={"invariant_holds_for_the_longer_prefix": lambda c: And(
           R(c.self, c.g.taken), delivered(c.self) == delivered(c.old.self) + Len(c.old.new_buf))},
       raises={}, canary=lambda c: c.self.finished_reading,
       equivalent_mutants={r"raise TypeError|_number_needed_bytes": "argument type check; the needed-bytes hint is only used by the v3 decoder"})

# ---- the reader side: read_pending_data hands over body bytes in order, each once
verified((LP, "_state_read_body_buffer"), result=BYTES, modifies=["self._body"], no_raise=True,
         ensures=lambda c: And(c.result == c.old.self._body, c.self._body == lift(b"")))
verified((LP, "_state_read_no_data"), result=BYTES, pure=True, no_raise=True, ensures=lambda c: c.result == lift(b""))
target(D + LP + "._state_read_body_buffer", result=BYTES, modifies=["self._body"],
       ensures={"hands_over_the_buffered_body_once": lambda c: And(c.result == c.old.self._body, c.self._body == lift(b""))},
       raises={}, canary=lambda c: Len(c.result) == 0)
target(D + LP + "._state_read_no_data", result=BYTES, modifies=[],
       ensures={"nothing_before_the_length_is_known": lambda c: c.result == lift(b"")}, raises={}, skip_mutants=True)
target(D + LP + ".read_pending_data", result=BYTES, modifies=["self._body"],
       requires=lambda c: And(wf_message(), R(c.self, c.g.taken)),
       ensures={"body_bytes_in_order_each_once": lambda c: And(R(c.self, c.g.taken + c.result), delivered(c.self) == delivered(c.old.self))},
       raises={}, canary=lambda c: Len(c.result) > 0)

# ---- what the invariant means for the user of the decoder (the statement, as a lemma over the invariant)
def _view(n):
    class _S:      # a decoder state made of lemma constants
        pass
    return _S


lemma("finished_means_the_whole_body_and_exactly_the_trailing_bytes",
      [("st", STATES), ("body", BYTES), ("taken", BYTES), ("unused", BYTES), ("fin", BOOL), ("nbuf", INT)],
      lambda st, body, taken, unused, fin, nbuf: [
          # the clauses of R for a finished decoder (state reading_unused), restated over constants
          fin == (st == "_state_accept_reading_unused"),
          Implies(st == "_state_accept_reading_unused", And(taken + body == Body(), unused == Extra()[0:Len(unused)], nbuf == 0))],
      lambda st, body, taken, unused, fin, nbuf: Implies(fin, And(taken + body == Body(), unused == Extra()[0:Len(unused)])),
      note="everything handed to the reader plus what is still buffered is exactly the encoded body; unused_data is a prefix of what followed the message")

# ---- protocol v3 framing (ProtocolThreeDecoder)
include("_p3_targets.py")

undecided("the chunked body decoder (ChunkedBodyDecoder), the bencoding of structures (fastbencode, Rust) and the request/response handlers "
          "behind the v3 message handler interface: not under contract")
undecided("v3 is proved per part (what one step takes out of the buffer, what it hands to the handler and in which decoder state); the "
          "whole-message statement follows by induction over the parts, which is exercised natively for every 1-cut and byte-wise "
          "segmentation by the replay scenarios but not stated as one machine-checked lemma")
