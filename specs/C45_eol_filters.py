# C45 - end-of-line filters: BOUNDED stand-in only (bounded/C45.py), labelled exploration and never counted as proved.
# The converters need bytes.replace with a two-byte pattern and a look-behind regular expression; an inductive proof would rest
# mostly on trusted encodings of those builtins, so the contract is checked exhaustively on the real functions instead.
LEVEL = "exploration"
undecided("everything: no obligation is discharged deductively for this property; see bounded/C45.py for the stated bounds")
undecided("'a freshly checked-out tree with eol filters reports no changes' (working tree + dirstate: external)")
