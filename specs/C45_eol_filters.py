# C45 - eol content filters round-trip. The property as a whole (reader(writer(c)) == c for canonical content) is decided by the bounded
# stand-in (bounded/C45.py, labelled exploration; it carries known finding F8). Two conjuncts are proved for ALL inputs:
#   - both converters depend on the CONCATENATION of the chunks only (never on where the chunk boundaries fall) and return one chunk;
#   - content containing a NUL byte passes through both converters unchanged.
LEVEL = "exploration"
JoinB = fold_cat("JoinB", Seq(BYTES), BYTES, lambda e: e)
CrlfOf = ufunc("CrlfOf", BYTES, BYTES)        # _UNIX_NL_RE.sub(b"\r\n", content): every LF not preceded by CR becomes CR LF (regex: assumed a function of the content)
LfOf = ufunc("LfOf", BYTES, BYTES)            # content.replace(b"\r\n", b"\n")
NUL = lift(b"\x00")
assumed("b''.join", pure=True, no_raise=True, returns=lambda c: JoinB(c.args[0]))
assumed("_UNIX_NL_RE.sub", pure=True, no_raise=True, returns=lambda c: CrlfOf(c.args[1]),
        requires=lambda c: c.args[0] == lift(b"\r\n"))
assumed("content.replace", pure=True, no_raise=True, returns=lambda c: LfOf(c.content),
        requires=lambda c: And(c.args[0] == lift(b"\r\n"), c.args[1] == lift(b"\n")))
E = "breezy/filters/eol.py::"
target(E + "_to_crlf_converter", params=dict(chunks=Seq(BYTES), context=ANY), result=Seq(BYTES), modifies=[],
       ensures={"a_function_of_the_joined_content_only": lambda c: c.result == lift([If(In(NUL, JoinB(c.old.chunks)), JoinB(c.old.chunks),
                                                                                        CrlfOf(JoinB(c.old.chunks)))], Seq(BYTES)),
                "binary_content_is_untouched": lambda c: Implies(In(NUL, JoinB(c.old.chunks)), JoinB(c.result) == JoinB(c.old.chunks))},
       raises={}, canary=lambda c: Len(c.result) == 0)
target(E + "_to_lf_converter", params=dict(chunks=Seq(BYTES), context=ANY), result=Seq(BYTES), modifies=[],
       ensures={"a_function_of_the_joined_content_only": lambda c: c.result == lift([If(In(NUL, JoinB(c.old.chunks)), JoinB(c.old.chunks),
                                                                                        LfOf(JoinB(c.old.chunks)))], Seq(BYTES)),
                "binary_content_is_untouched": lambda c: Implies(In(NUL, JoinB(c.old.chunks)), JoinB(c.result) == JoinB(c.old.chunks))},
       raises={}, canary=lambda c: Len(c.result) == 0)

undecided("what the two substitutions do to the content (regex / bytes.replace) and therefore the round trip reader(writer(c)) == c: "
          "bounded stand-in only (bounded/C45.py); the per-setting filter table _eol_filter_stack_map")
