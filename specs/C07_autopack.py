# C07 - autopack planning is well-formed for every pack size distribution.

PACK = Opaque("Pack")
EP = Seq(Tup(INT, PACK))          # existing_packs: list of (revision count, pack)
DIST = Seq(INT)                   # pack_distribution
OPS = Seq(Tup(INT, Seq(PACK)))    # pack_operations: list of [count, [packs]]
PACKS = Seq(PACK)

cnt = ufunc("cnt", PACK, INT)           # ghost: the revision count that belongs to a pack
InInput = ufunc("InInput", PACK, BOOL)  # ghost: an arbitrary predicate true of every input pack

SumC = fold_sum("SumC", EP, lambda e: e[0])
AllC1 = fold_all("AllC1", EP, lambda e: e[0] >= 1)
AllMatch = fold_all("AllMatch", EP, lambda e: e[0] == cnt(e[1]))
AllInE = fold_all("AllInE", EP, lambda e: InInput(e[1]))
SumD = fold_sum("SumD", DIST, lambda e: e)
AllD1 = fold_all("AllD1", DIST, lambda e: e >= 1)
SumP = fold_sum("SumP", PACKS, lambda p: cnt(p))
AllInP = fold_all("AllInP", PACKS, lambda p: InInput(p))
OpSum = fold_sum("OpSum", OPS, lambda e: e[0])
OpN = fold_sum("OpN", OPS, lambda e: Len(e[1]))
OpPos = fold_all("OpPos", OPS, lambda e: And(e[0] >= Len(e[1]), Implies(Len(e[1]) == 0, e[0] == 0)))
OpMatch = fold_all("OpMatch", OPS, lambda e: e[0] == SumP(e[1]))
OpIn = fold_all("OpIn", OPS, lambda e: AllInP(e[1]))

seq_lemma("sum_ge_len_counts", EP, lambda s: Implies(AllC1(s), SumC(s) >= Len(s)))
seq_lemma("sum_ge_len_dist", DIST, lambda s: Implies(AllD1(s), SumD(s) >= Len(s)))
seq_lemma("opn_nonneg", OPS, lambda s: OpN(s) >= 0)
seq_lemma("opsum_ge_opn", OPS, lambda s: Implies(OpPos(s), OpSum(s) >= OpN(s)))


def outer_inv(c):
    ep, dist, ops = c.existing_packs, c.pack_distribution, c.pack_operations
    n0, L, T = Len(c.old.existing_packs), Len(c.old.pack_distribution), SumC(c.old.existing_packs)
    r, R, dl, SD = Len(ep), SumC(ep), Len(dist), SumD(dist)
    F = Len(ops) - 1
    cur, curlen = ops[-1][0], Len(ops[-1][1])
    K = n0 - r - OpN(ops)
    kept = T - R - OpSum(ops)
    return And(n0 > L, AllC1(ep), AllMatch(ep), AllInE(ep), AllD1(dist), Len(ops) >= 1,
               OpPos(ops), OpMatch(ops), OpIn(ops),
               cur >= curlen, Implies(curlen == 0, cur == 0),
               kept >= K, K >= 0,
               dl + K + F <= L,
               SD >= R + cur,
               F <= R + OpSum(ops) - SD,
               Implies(F == 0, SD == R + OpSum(ops)))


def inner_inv(c):
    # entered with the popped count c0 = pre.next_pack_rev_count >= pre.pack_distribution[0]
    nxt, dist = c.next_pack_rev_count, c.pack_distribution
    c0, dist0 = c.pre.next_pack_rev_count, c.pre.pack_distribution
    return And(AllD1(dist), nxt <= c0,
               SumD(dist) == SumD(dist0) - (c0 - If(nxt > 0, nxt, 0)),
               If(nxt == c0, dist == dist0, Len(dist) <= Len(dist0) - 1),
               Implies(nxt > 0, SumD(dist) >= nxt))


def final_inv(c):
    return And(c.final_rev_count == OpSum(c.done_ops), Len(c.final_pack_list) == OpN(c.done_ops),
               c.final_rev_count == SumP(c.final_pack_list), AllInP(c.final_pack_list),
               OpMatch(c.pack_operations), OpIn(c.pack_operations))


PLAN = verified(("RepositoryPackCollection", "plan_autopack_combinations"),
                params=["existing_packs", "pack_distribution"], result=OPS)

target("breezy/bzr/pack_repo.py::RepositoryPackCollection.plan_autopack_combinations",
       params=dict(existing_packs=EP, pack_distribution=DIST),
       locals=dict(pack_operations=OPS, final_pack_list=PACKS),
       result=OPS,
       requires=lambda c: And(AllC1(c.existing_packs), AllMatch(c.existing_packs), AllInE(c.existing_packs),
                              AllD1(c.pack_distribution),
                              SumC(c.existing_packs) == SumD(c.pack_distribution)),
       loops={1: loop(r"while len\(existing_packs\)", outer_inv, decreases=lambda c: Len(c.existing_packs)),
              2: loop(r"while next_pack_rev_count > 0", inner_inv,
                      decreases=lambda c: If(c.next_pack_rev_count > 0, c.next_pack_rev_count, 0)),
              3: loop(r"for num_revs, pack_files in pack_operations", final_inv, prefix="done_ops")},
       ensures={
           "within_bound_plans_nothing": lambda c: Implies(Len(c.old.existing_packs) <= Len(c.old.pack_distribution),
                                                           Len(c.result) == 0),
           "one_operation_of_at_least_two_packs": lambda c: Implies(
               Len(c.old.existing_packs) > Len(c.old.pack_distribution),
               And(Len(c.result) == 1, Len(c.result[0][1]) >= 2)),
           "result_within_bound": lambda c: Implies(
               Len(c.old.existing_packs) > Len(c.old.pack_distribution),
               Len(c.old.existing_packs) - Len(c.result[0][1]) + 1 <= Len(c.old.pack_distribution)),
           "count_is_sum_of_its_packs": lambda c: Implies(Len(c.result) == 1, c.result[0][0] == SumP(c.result[0][1])),
           "packs_come_from_input": lambda c: Implies(Len(c.result) == 1, AllInP(c.result[0][1])),
       },
       raises={},     # no IndexError, no AssertionError, nothing escapes
       canary=lambda c: Len(c.result) == 0,
       equivalent_mutants={
           r"drop:Expr.*\| existing_packs\.sort\(": "dropping the sort: the property does not depend on the order in which packs are considered (the proof never uses sortedness)",
           r"cmp0:GtE.*\| if next_pack_rev_count >= pack_distribution\[0\]": ">= to > on the keep/combine choice: ties go to the other branch, the plan stays well-formed (all obligations still discharge)",
           r"cmp0:GtE.*\| if pack_operations\[-1\]\[0\] >= pack_distribution\[0\]": ">= to > on closing a bucket: the plan stays well-formed",
           r"int1.*\| if len\(final_pack_list\) == 1": "the single-pack assertion is dead code (a plan has >= 2 packs), changing its constant is unobservable",
           r"drop:Raise.*\| raise AssertionError\(": "dead code: the AssertionError is unreachable",
           r"retnone.*\| return \[\]$": "dead code after the raise"})

assume_note("CombinedGraphIndex.key_count() equals the sum of the packs' revision counts, so the planner's "
            "precondition Sum(counts) == Sum(distribution) holds at its only call site (_do_autopack)")
