# Targets for ProtocolThreeDecoder (include after _lpd_model.py and _p3_model.py).
# ---- buffer helpers, for this class
G3 = verified((P3N, "_get_in_buffer"), result=BYTES, modifies=["self._in_buffer_list"], requires=lambda c: p3ok(c.self),
              ensures=lambda c: And(c.result == p3buf(c.old.self), p3buf(c.self) == p3buf(c.old.self), p3ok(c.self)), no_raise=True)
target(D + "_StatefulDecoder._get_in_buffer", cls=P3N, contract=G3, variant="v3",
       ensures={"whole_buffer_unchanged": lambda c: And(c.result == p3buf(c.old.self), p3buf(c.self) == p3buf(c.old.self), p3ok(c.self))},
       raises={}, skip_mutants=True)
S3 = verified((P3N, "_set_in_buffer"), params=["new_buf"], result=NONE, modifies=P3MOD,
              ensures=lambda c: And(p3ok(c.self), p3buf(c.self) == If(c.new_buf.is_none, lift(b""), c.new_buf.val)
                                    if isinstance(c.new_buf.s, Opt) else p3buf(c.self) == (lift(b"") if c.new_buf.s == NONE else c.new_buf)),
              no_raise=True)
target(D + "_StatefulDecoder._set_in_buffer", cls=P3N, params=dict(new_buf=Opt(BYTES)), modifies=P3MOD, variant="v3",
       ensures={"buffer_is_exactly_the_argument": lambda c: And(p3ok(c.self), p3buf(c.self) == If(c.old.new_buf.is_none, lift(b""), c.old.new_buf.val))},
       raises={}, skip_mutants=True)
GB3 = verified((P3N, "_get_in_bytes"), params=["count"], result=BYTES, modifies=["self._in_buffer_list"],
               requires=lambda c: And(p3ok(c.self), c.count >= 0, c.self._in_buffer_len >= c.count, c.self._in_buffer_len >= 1),
               ensures=lambda c: And(c.result == p3buf(c.old.self)[0:c.count], p3buf(c.self) == p3buf(c.old.self), p3ok(c.self)), no_raise=True)
target(D + "_StatefulDecoder._get_in_bytes", cls=P3N, params=dict(count=INT), contract=GB3,
       ensures={"peeks_the_first_bytes_without_consuming": lambda c: And(c.result == p3buf(c.old.self)[0:c.old.count],
                                                                         p3buf(c.self) == p3buf(c.old.self), p3ok(c.self))},
       raises={}, canary=lambda c: Len(c.result) == 0,
       equivalent_mutants={r"raise AssertionError": "defensive check, unreachable under the precondition (bytes are buffered)",
                           r"cmp0:Gt.*> count": "with >= the same bytes are returned through the other branch"})

# ---- taking one part out of the buffer
X1 = verified((P3N, "_extract_single_byte"), result=BYTES, modifies=P3MOD + ["g.needed"], requires=lambda c: p3ok(c.self),
              ensures=lambda c: And(p3ok(c.self), Len(p3buf(c.old.self)) >= 1, c.result == p3buf(c.old.self)[0:1],
                                    p3buf(c.self) == p3buf(c.old.self)[1:Len(p3buf(c.old.self))]),
              raises={"_NeedMoreBytes": lambda c: And(p3ok(c.self), p3buf(c.self) == p3buf(c.old.self), Len(p3buf(c.old.self)) == 0,
                                                      c.g.needed == 1)})
target(P3D + "_extract_single_byte", contract=X1,
       ensures={"takes_exactly_the_first_byte": lambda c: And(p3ok(c.self), Len(p3buf(c.old.self)) >= 1, c.result == p3buf(c.old.self)[0:1],
                                                              p3buf(c.self) == p3buf(c.old.self)[1:Len(p3buf(c.old.self))])},
       raises={"_NeedMoreBytes": lambda c: And(p3ok(c.self), p3buf(c.self) == p3buf(c.old.self), Len(p3buf(c.old.self)) == 0, c.g.needed == 1)},
       canary=lambda c: Len(p3buf(c.self)) == 0)


def xl_post(c):
    b = p3buf(c.old.self)
    return And(p3ok(c.self), Len(b) >= 4, Len(b) >= part_len(b), c.result == b[4:part_len(b)], p3buf(c.self) == b[part_len(b):Len(b)])


def xl_need(c):
    """asks for exactly what completes the part: the 4-byte prefix, or prefix plus announced length - never more"""
    b = p3buf(c.old.self)
    return And(p3ok(c.self), p3buf(c.self) == b,
               If(Len(b) < 4, c.g.needed == 4, And(Len(b) < part_len(b), c.g.needed == part_len(b))))


XL = verified((P3N, "_extract_length_prefixed_bytes"), result=BYTES, modifies=P3MOD + ["g.needed"], requires=lambda c: p3ok(c.self),
              ensures=xl_post, raises={"_NeedMoreBytes": xl_need})
target(P3D + "_extract_length_prefixed_bytes", contract=XL, locals=dict(length=INT),
       ensures={"takes_exactly_prefix_and_announced_bytes": xl_post}, raises={"_NeedMoreBytes": xl_need},
       canary=lambda c: Len(c.result) == 0)
XB = verified((P3N, "_extract_prefixed_bencoded_data"), modifies=P3MOD + ["g.needed"], requires=lambda c: p3ok(c.self),
              ensures=lambda c: And(p3ok(c.self), Len(p3buf(c.old.self)) >= 4, Len(p3buf(c.old.self)) >= part_len(p3buf(c.old.self)),
                                    c.result == Bdec(p3buf(c.old.self)[4:part_len(p3buf(c.old.self))]),
                                    p3buf(c.self) == p3buf(c.old.self)[part_len(p3buf(c.old.self)):Len(p3buf(c.old.self))]),
              raises={"_NeedMoreBytes": xl_need, "SmartProtocolError": lambda c: p3ok(c.self)})
target(P3D + "_extract_prefixed_bencoded_data", contract=XB,
       ensures={"decodes_exactly_the_announced_bytes": lambda c: And(
           p3ok(c.self), c.result == Bdec(p3buf(c.old.self)[4:part_len(p3buf(c.old.self))]),
           p3buf(c.self) == p3buf(c.old.self)[part_len(p3buf(c.old.self)):Len(p3buf(c.old.self))])},
       raises={"_NeedMoreBytes": xl_need, "SmartProtocolError": lambda c: p3ok(c.self)}, skip_mutants=True)

# ---- the handler runs with the decoder already at the next part boundary: accept_bytes restarts the state machine after a handler
#      error (SmartMessageHandlerError) and relies on the part being consumed and the state advanced
def handler_sees_boundary(n_of):
    return lambda c: And(c.self.state_accept == "_state_accept_expecting_message_part", p3ok(c.self))


for _h in ("headers_received", "byte_part_received", "bytes_part_received", "structure_part_received"):
    assumed("self.message_handler." + _h, result=NONE, modifies=[], requires=handler_sees_boundary(None), raises={"BaseException": "unchanged"},
            note="the message handler (request/response handlers: not under contract) may fail in any way; it does not touch the decoder")
assumed("self.message_handler.end_received", result=NONE, modifies=[], raises={"BaseException": "unchanged"},
        requires=lambda c: c.self.state_accept == "_state_accept_reading_unused")
exceptions(BaseException="Exception") if False else None


def part_target(name, n_of, handler, what, equiv=None):
    """n_of(old buffer) -> bytes this part occupies"""
    def post(c):
        return And(at_boundary_after(c, n_of(p3buf(c.old.self))), lift(c.calls("self.message_handler." + handler) == 1),
                   # a failing handler is never swallowed: it surfaces as SmartMessageHandlerError
                   lift(c.calls("self.message_handler." + handler, failed=True) == 0))

    def herr(c):
        return at_boundary_after(c, n_of(p3buf(c.old.self)))
    need = (lambda c: And(p3ok(c.self), p3buf(c.self) == p3buf(c.old.self), c.self.state_accept == c.old.self.state_accept,
                          Len(p3buf(c.old.self)) == 0, c.g.needed == 1)) if n_of is ONE else \
        (lambda c: And(xl_need(c), c.self.state_accept == c.old.self.state_accept))
    ct = verified((P3N, name), result=NONE, modifies=P3MOD + ["self.state_accept", "g.needed"],
                  requires=lambda c: And(p3ok(c.self), c.self.state_accept == name),
                  ensures=post, raises={"_NeedMoreBytes": need, "SmartMessageHandlerError": herr, "SmartProtocolError": lambda c: p3ok(c.self)})
    target(P3D + name, contract=ct,
           ensures={"part_consumed_state_advanced_handler_called_once": post},
           raises={"_NeedMoreBytes": need,
                   "SmartMessageHandlerError": {"after_a_handler_error_the_decoder_is_at_the_next_part": herr},
                   "SmartProtocolError": lambda c: p3ok(c.self)},
           canary=lambda c: c.self.state_accept == name, note=what, equivalent_mutants=equiv or {})
    return ct


ONE = lambda b: 1
LPART = lambda b: part_len(b)
part_target("_state_accept_expecting_one_byte", ONE, "byte_part_received", "an 'o' part: one status byte")
part_target("_state_accept_expecting_bytes", LPART, "bytes_part_received", "a 'b' part: length-prefixed body bytes")
part_target("_state_accept_expecting_structure", LPART, "structure_part_received", "an 's' part: length-prefixed bencoded structure")
part_target("_state_accept_expecting_headers", LPART, "headers_received", "the headers: a length-prefixed bencoded dict",
            equiv={r"isinstance\(decoded, dict\)|Header object|drop:Raise.*raise transport_errors\.SmartProtocolError": "type validation of the decoded headers (bencoded values are opaque here)"})

# ---- the end of a message: 'e' makes everything still buffered unused_data (it belongs to the next message) and nothing more is consumed
DONE3 = verified((P3N, "done"), result=NONE, modifies=P3MOD + ["self.state_accept", "self.unused_data"], requires=lambda c: p3ok(c.self),
                 ensures=lambda c: And(p3ok(c.self), Len(p3buf(c.self)) == 0, c.self.unused_data == p3buf(c.old.self),
                                       c.self.state_accept == "_state_accept_reading_unused"),
                 raises={"SmartMessageHandlerError": lambda c: And(p3ok(c.self), Len(p3buf(c.self)) == 0, c.self.unused_data == p3buf(c.old.self),
                                                                   c.self.state_accept == "_state_accept_reading_unused")})
target(P3D + "done", contract=DONE3,
       ensures={"rest_of_the_buffer_becomes_unused_data": lambda c: And(
           p3ok(c.self), Len(p3buf(c.self)) == 0, c.self.unused_data == p3buf(c.old.self), c.self.state_accept == "_state_accept_reading_unused",
           lift(c.calls("self.message_handler.end_received") == 1 and c.calls("self.message_handler.end_received", failed=True) == 0))},
       raises={"SmartMessageHandlerError": lambda c: And(p3ok(c.self), Len(p3buf(c.self)) == 0, c.self.unused_data == p3buf(c.old.self),
                                                         c.self.state_accept == "_state_accept_reading_unused")},
       canary=lambda c: Len(c.self.unused_data) == 0)


def kind_state(k):
    return If(k == lift(b"o"), lift("_state_accept_expecting_one_byte", P3STATES),
              If(k == lift(b"s"), lift("_state_accept_expecting_structure", P3STATES),
                 lift("_state_accept_expecting_bytes", P3STATES)))


def mp_post(c):
    b = p3buf(c.old.self)
    k = b[0:1]
    return And(p3ok(c.self), Len(b) >= 1,
               If(k == lift(b"e"),
                  And(Len(p3buf(c.self)) == 0, c.self.unused_data == b[1:Len(b)], c.self.state_accept == "_state_accept_reading_unused"),
                  And(Or(k == lift(b"o"), k == lift(b"s"), k == lift(b"b")), p3buf(c.self) == b[1:Len(b)],
                      c.self.unused_data == c.old.self.unused_data, c.self.state_accept == kind_state(k))))


MP = verified((P3N, "_state_accept_expecting_message_part"), result=NONE, modifies=P3MOD + ["self.state_accept", "self.unused_data", "g.needed"],
              requires=lambda c: p3ok(c.self), ensures=mp_post,
              raises={"_NeedMoreBytes": lambda c: And(p3ok(c.self), p3buf(c.self) == p3buf(c.old.self), Len(p3buf(c.old.self)) == 0,
                                                      c.self.state_accept == c.old.self.state_accept, c.g.needed == 1),
                      "SmartMessageHandlerError": lambda c: And(p3ok(c.self), p3buf(c.old.self)[0:1] == lift(b"e"),
                                                                c.self.unused_data == p3buf(c.old.self)[1:Len(p3buf(c.old.self))],
                                                                c.self.state_accept == "_state_accept_reading_unused"),
                      "SmartProtocolError": lambda c: p3ok(c.self)})
target(P3D + "_state_accept_expecting_message_part", contract=MP,
       ensures={"kind_byte_selects_the_part_and_e_ends_the_message": mp_post},
       raises={"_NeedMoreBytes": lambda c: And(p3ok(c.self), p3buf(c.self) == p3buf(c.old.self), Len(p3buf(c.old.self)) == 0,
                                               c.self.state_accept == c.old.self.state_accept, c.g.needed == 1),
               "SmartMessageHandlerError": lambda c: And(p3ok(c.self), p3buf(c.old.self)[0:1] == lift(b"e"),
                                                         c.self.unused_data == p3buf(c.old.self)[1:Len(p3buf(c.old.self))],
                                                         c.self.state_accept == "_state_accept_reading_unused"),
               "SmartProtocolError": lambda c: And(p3ok(c.self), Not(Or(*[p3buf(c.old.self)[0:1] == lift(x) for x in (b"o", b"s", b"b", b"e")])))},
       canary=lambda c: c.self.state_accept == "_state_accept_reading_unused")

target(P3D + "_state_accept_reading_unused", modifies=P3MOD + ["self.unused_data"], requires=lambda c: p3ok(c.self),
       ensures={"later_bytes_are_kept_in_order_as_unused_data": lambda c: And(
           p3ok(c.self), Len(p3buf(c.self)) == 0, c.self.unused_data == c.old.self.unused_data + p3buf(c.old.self))},
       raises={}, canary=lambda c: c.self.unused_data == c.old.self.unused_data)

# ---- what the decoder asks the medium to read next (C30): nothing once the message has ended; otherwise exactly what the last
#      _NeedMoreBytes asked for beyond what is buffered
target(P3D + "next_read_size", result=INT, modifies=[], requires=lambda c: p3ok(c.self),
       ensures={"nothing_after_the_end_of_the_message": lambda c: Implies(c.self.state_accept == "_state_accept_reading_unused", c.result == 0),
                "nothing_after_a_decoding_failure": lambda c: Implies(c.self.decoding_failed, c.result == 0),
                "otherwise_exactly_the_missing_bytes": lambda c: Implies(
                    And(c.self.state_accept != "_state_accept_reading_unused", Not(c.self.decoding_failed)),
                    And(Not(c.self._number_needed_bytes.is_none), c.result == c.self._number_needed_bytes.val - c.self._in_buffer_len))},
       raises={"AssertionError": lambda c: And(c.self._number_needed_bytes.is_none, Not(c.self.decoding_failed),
                                               c.self.state_accept != "_state_accept_reading_unused")},
       canary=lambda c: c.result == 0)

# ---- the version marker (client side: expect_version_marker=True)
const("MESSAGE_VERSION_THREE", b"bzr message 3 (bzr 1.6)\n")
assume_note("MESSAGE_VERSION_THREE is b'bzr message 3 (bzr 1.6)\\n' (a constant of the Rust extension _smart_rs; the replay driver compares it)")
MV = lift(b"bzr message 3 (bzr 1.6)\n")


def pv_need(c):
    b = p3buf(c.old.self)
    return And(p3ok(c.self), p3buf(c.self) == b, c.self.state_accept == c.old.self.state_accept, Len(b) < Len(MV), b == MV[0:Len(b)],
               c.g.needed == Len(MV))


def pv_post(c):
    b = p3buf(c.old.self)
    return And(p3ok(c.self), Len(b) >= Len(MV), b[0:Len(MV)] == MV, p3buf(c.self) == b[Len(MV):Len(b)],
               c.self.state_accept == "_state_accept_expecting_headers")


PV = verified((P3N, "_state_accept_expecting_protocol_version"), result=NONE, modifies=P3MOD + ["self.state_accept", "g.needed"],
              requires=lambda c: p3ok(c.self), ensures=pv_post,
              raises={"_NeedMoreBytes": pv_need, "UnexpectedProtocolVersionMarker": lambda c: p3ok(c.self)})
target(P3D + "_state_accept_expecting_protocol_version", contract=PV, locals=dict(needed_bytes=INT),
       ensures={"exactly_the_marker_is_consumed": pv_post},
       raises={"_NeedMoreBytes": pv_need,
               # refused as soon as what has arrived cannot become the marker any more - and only then
               "UnexpectedProtocolVersionMarker": lambda c: And(p3ok(c.self), p3buf(c.self) == p3buf(c.old.self),
                                                                If(Len(p3buf(c.old.self)) < Len(MV), p3buf(c.old.self) != MV[0:Len(p3buf(c.old.self))],
                                                                   p3buf(c.old.self)[0:Len(MV)] != MV))},
       canary=lambda c: Len(p3buf(c.self)) == 0)
RU = verified((P3N, "_state_accept_reading_unused"), result=NONE, modifies=P3MOD + ["self.unused_data"], requires=lambda c: p3ok(c.self),
              ensures=lambda c: And(p3ok(c.self), Len(p3buf(c.self)) == 0, c.self.unused_data == c.old.self.unused_data + p3buf(c.old.self)),
              no_raise=True)


# ---- running the state machine on newly arrived bytes: it stops either at the end of the message with an empty buffer, or asking for
#      MORE bytes than it holds (so next_read_size is positive and is exactly what completes the current part)
def settled(s):
    return Or(And(s.state_accept == "_state_accept_reading_unused", Len(p3buf(s)) == 0),
              And(Not(s._number_needed_bytes.is_none), s._number_needed_bytes.val > s._in_buffer_len))


def rest_unchanged(c):
    return And(*[eq(getattr(c.self, f), getattr(c.old.self, f)) for f in ("decoding_failed", "message_handler", "_has_dispatched",
                                                                          "finished_reading", "bytes_left")])


RUNMOD = P3MOD + ["self.state_accept", "self.unused_data", "self._number_needed_bytes", "g.needed"]
RUN = verified(rx(r"^_StatefulDecoder\.accept_bytes$"), params=["self", "new_buf"], result=NONE, modifies=RUNMOD,
               requires=lambda c: p3ok(c.self),
               ensures=lambda c: And(p3ok(c.self), settled(c.self)),
               raises={"SmartMessageHandlerError": lambda c: p3ok(c.self), "Exception": lambda c: p3ok(c.self)})
target(D + "_StatefulDecoder.accept_bytes", cls=P3N, variant="v3", params=dict(new_buf=BYTES), locals=dict(current_state=P3STATES),
       requires=lambda c: p3ok(c.self), modifies=RUNMOD,
       loops={1: loop(r"while current_state != self\.state_accept", lambda c: And(
           p3ok(c.self), rest_unchanged(c),
           # only the reading-unused state returns without moving on: every other state advances or raises
           Implies(c.current_state == c.self.state_accept, And(c.self.state_accept == "_state_accept_reading_unused", Len(p3buf(c.self)) == 0))))},
       ensures={"stops_at_the_end_or_asks_for_more_than_it_holds": lambda c: And(p3ok(c.self), settled(c.self))},
       raises={"SmartMessageHandlerError": lambda c: p3ok(c.self), "SmartProtocolError": lambda c: p3ok(c.self),
               "UnexpectedProtocolVersionMarker": lambda c: p3ok(c.self)},
       canary=lambda c: c.self.state_accept == "_state_accept_reading_unused",
       equivalent_mutants={r"raise TypeError": "argument type check: the argument is a byte string here",
                           r"drop:Assign.*self\._number_needed_bytes = None": "the reset is redundant: the value is set again when more bytes are needed "
                                                                            "and is not consulted once the message has ended",
                           r"drop:Assign.*current_state = self\.state_accept": "the loop then never ends: termination is not verified (partial correctness)"})

# ---- ProtocolThreeDecoder.accept_bytes: a handler error does not stop the decoder - the state machine is restarted on what is buffered
ExcVal = ufunc("ExcVal", ANY)
exc_attr("exc_value", lambda c: ExcVal())
assumed("self.message_handler.protocol_error", result=NONE, modifies=[], raises={"Exception": "unchanged"})
pure("log_exception_quietly")
exceptions(KeyboardInterrupt="BaseException", BaseException=None) if False else None
ACCMOD = RUNMOD + ["self.decoding_failed"]
ACC = verified((P3N, "accept_bytes"), params=["bytes"], result=NONE, modifies=ACCMOD, requires=lambda c: p3ok(c.self),
               ensures=lambda c: And(p3ok(c.self), Or(c.self.decoding_failed, settled(c.self)),
                                     Implies(c.old.self.decoding_failed, c.self.decoding_failed)),
               raises={"Exception": lambda c: p3ok(c.self)})
target(P3D + "accept_bytes", params=dict(bytes=BYTES), contract=ACC,
       ensures={"ready_for_next_read_size": lambda c: And(p3ok(c.self), Or(c.self.decoding_failed, settled(c.self))),
                "a_decoder_that_failed_stays_failed": lambda c: Implies(c.old.self.decoding_failed, c.self.decoding_failed),
                "every_failure_is_reported_to_the_handler": lambda c: lift(
                    c.calls(r"^_StatefulDecoder\.accept_bytes$", failed=True) == 0 or c.calls("self.message_handler.protocol_error") >= 1)},
       raises={"Exception": lambda c: p3ok(c.self)},
       canary=lambda c: c.self.decoding_failed,
       equivalent_mutants={r"log_exception_quietly|UnknownSmartMethod|UnexpectedProtocolVersionMarker": "logging policy",
                           r"drop:Raise@L\d+:12 \|\s+raise$|except KeyboardInterrupt": "interrupt handling",
                           r"self\._number_needed_bytes = None": "redundant with the same reset in _StatefulDecoder.accept_bytes"})
