# C08 - stacked branches stay readable: a commit to a stacked repository goes ahead only when the inventories of all the new
# revision's parents are present in the stacked repository itself (copied from the fallbacks when necessary), so the new revision's
# inventory delta and texts can be read back without depending on more than the stacking contract.
COMPREHENSION_IMAGE = True   # a mapped comprehension also yields: every element's value is contained in the result (sequence fact)
BUDGET_QUICK = 30
PKEY = Tup(BYTES)
MKEY = Tup(STR, BYTES)
ghost(local_inv=SetS(BYTES))           # revision ids whose inventory is present in the stacked repository itself (no fallbacks)
P0 = ufunc("p0", BYTES)                # an arbitrary revision id
REPO = cls("Repository", fields={"_fallback_repositories": Seq(ANY), "_format": ANY, "inventories": ANY})
CB = cls("VersionedFileCommitBuilder", fields={"repository": REPO, "parents": Seq(BYTES)})
attr_sort("*.supports_chks", BOOL)
exceptions(BzrError="Exception")
assumed("self.repository.inventories._index.get_parent_map", pure=True, result=MapS(PKEY, ANY),
        ensures=lambda c: forall([PKEY], lambda k: In(k, c.result) == And(In(k, c.args[0]), In(k[0], c.g.local_inv))),
        raises={"Exception": None},
        note="the index of the stacked repository itself (no fallbacks): answers exactly for the inventories it holds")
assumed("fallback_repo._get_source", pure=True, raises={"Exception": None})
assumed("self.repository._get_sink", pure=True, raises={"Exception": None})
assumed("sink.insert_missing_keys", result=Seq(MKEY), modifies=["g.local_inv"],
        ensures=lambda c: And(
            # whatever was asked for is now present locally or is reported back as still missing; nothing disappears
            forall([MKEY], lambda k: Implies(In(k, c.args[1]), Or(In(k[1], c.g.local_inv), In(k, c.result)))),
            forall([MKEY], lambda k: Implies(In(k, c.result), In(k, c.args[1]))),
            forall([BYTES], lambda r: Implies(In(r, c.old.g.local_inv), In(r, c.g.local_inv)))),
        raises={"Exception": lambda c: forall([BYTES], lambda r: Implies(In(r, c.old.g.local_inv), In(r, c.g.local_inv)))},
        note="StreamSink.insert_missing_keys (not under contract): copies the records it can get from the source, returns the keys still missing")
B = "breezy/bzr/vf_repository.py::VersionedFileCommitBuilder."


def covered(c, missing):
    """the arbitrary parent P0 has its inventory locally, or is still on the list of inventories to fetch"""
    return Implies(In(P0(), c.self.parents), Or(In(P0(), c.g.local_inv), In(MKEY.mk(lift("inventories"), P0()), missing)))


target(B + "_ensure_fallback_inventories", locals=dict(missing_keys=Seq(MKEY), fallback_repos=Seq(ANY), parent_keys=Seq(PKEY)),
       modifies=["g.local_inv"],
       loops={1: loop(r"while missing_keys and fallback_repos", lambda c: And(covered(c, c.missing_keys), c.self.parents == c.old.self.parents,
                                                                           c.self.repository == c.old.self.repository))},
       ensures={"all_parent_inventories_are_local_when_stacked": lambda c: Implies(
                    Len(c.old.self.repository._fallback_repositories) > 0, Implies(In(P0(), c.old.self.parents), In(P0(), c.g.local_inv))),
                "an_unstacked_repository_is_left_alone": lambda c: Implies(
                    Len(c.old.self.repository._fallback_repositories) == 0, c.g.local_inv == c.old.g.local_inv)},
       raises={"BzrError": lambda c: Len(c.old.self.repository._fallback_repositories) > 0, "Exception": True},
       canary=lambda c: Len(c.old.self.repository._fallback_repositories) == 0,
       equivalent_mutants={r"negate@.*supports_chks": "which formats are refused outright: refusing a commit is the safe direction"},
       note="a commit to a stacked repository proceeds only with every parent inventory present locally")

# ---- GCRepositoryPackCollection._check_new_inventories, the final step (block): every text key referenced by the new inventories
#      (collected into text_keys by the CHK difference walk just before) is looked up in the stacked repository's OWN text index, and
#      any that is absent is reported as a problem (which makes commit_write_group refuse the write group: C06)
TKEY = Tup(BYTES, BYTES)
LocalTexts = ufunc("LocalTexts", SetS(TKEY))        # text keys present in the repository itself (no fallbacks)
assumed("no_fallback_texts_index.get_parent_map", pure=True, result=MapS(TKEY, ANY),
        ensures=lambda c: forall([TKEY], lambda k: In(k, c.result) == And(In(k, c.args[0]), In(k, LocalTexts()))), raises={"Exception": None})
pure("sorted")
target("breezy/bzr/groupcompress_repo.py::GCRepositoryPackCollection._check_new_inventories",
       block=(r"^\s*present_text_keys = no_fallback_texts_index\.get_parent_map\(text_keys\)", r"(?m)^\s*if missing_text_keys:"),
       params=dict(text_keys=SetS(TKEY), problems=Seq(STR), no_fallback_texts_index=ANY), locals=dict(missing_text_keys=SetS(TKEY)),
       ensures={"a_referenced_text_that_is_not_local_is_reported": lambda c: (Len(c.problems) == Len(c.old.problems) + 1) == exists(
                    [TKEY], lambda k: And(In(k, c.old.text_keys), Not(In(k, LocalTexts())))),
                "nothing_else_is_reported_here": lambda c: Or(c.problems == c.old.problems, Len(c.problems) == Len(c.old.problems) + 1)},
       raises={"Exception": True}, canary=lambda c: c.problems == c.old.problems,
       note="block: the local-texts check of a write group into a (stacked) 2a repository")


@extra_check
def text_keys_reach_the_lookup_unfiltered(repo):
    """census: between the CHK walk that fills text_keys and the lookup above, text_keys is bound exactly once (to the empty set that the
    walk fills) - nothing narrows or replaces the set of referenced texts before it is checked"""
    import ast as _ast
    tree = _ast.parse(open(repo + "/breezy/bzr/groupcompress_repo.py").read())
    for n in _ast.walk(tree):
        if isinstance(n, _ast.FunctionDef) and n.name == "_check_new_inventories":
            binds = [t for a in _ast.walk(n) if isinstance(a, (_ast.Assign, _ast.AugAssign, _ast.AnnAssign))
                     for t in (a.targets if isinstance(a, _ast.Assign) else [a.target]) if isinstance(t, _ast.Name) and t.id == "text_keys"]
            muts = [c_ for c_ in _ast.walk(n) if isinstance(c_, _ast.Call) and isinstance(c_.func, _ast.Attribute)
                    and isinstance(c_.func.value, _ast.Name) and c_.func.value.id == "text_keys"
                    and c_.func.attr not in ("difference",)]
            if len(binds) != 1 or muts:
                from pyvc.state import SpecDrift
                raise SpecDrift("_check_new_inventories binds or mutates text_keys other than through the CHK walk (%d bindings, %d mutating calls)"
                                % (len(binds), len(muts)))
            return
    from pyvc.state import SpecDrift
    raise SpecDrift("_check_new_inventories not found")


undecided("the earlier steps of GCRepositoryPackCollection._check_new_inventories (the checks that refuse an incomplete write group "
          "after push/fetch into a stacked repository): not under contract in this build; exercised natively by the replay scenarios")
undecided("that the text keys enumerated through the external CHK difference are all texts that differ from the parents; everything over the smart server")

# ---- get_missing_parent_inventories: what a write group into a stacked repository still lacks. An empty answer (the write group may be
#      committed) is given only if every parent inventory of the added revisions is present locally, or - when texts are checked - every
#      text that the revisions at the edge introduce is present
RKEY = Tup(BYTES)
IKEY = Tup(STR, BYTES)
MissingParents = ufunc("MissingParents", SetS(RKEY))       # parents of the added revisions that are not themselves among the revisions present
LocalInvKeys = ufunc("LocalInvKeys", SetS(RKEY))           # inventories present in the repository itself (no fallbacks)
ReferrerKeys = ufunc("ReferrerKeys", Seq(Tup(RKEY)))       # (key,) of the added revisions that still refer to a missing parent inventory
Altered = ufunc("Altered", MapS(BYTES, SetS(BYTES)))       # file id -> text versions introduced by those revisions
PresentTexts = ufunc("PresentTexts", SetS(TKEY))           # text keys that texts.get_parent_map finds
VFR = cls("VersionedFileRepository", fields={"_format": ANY, "revisions": ANY, "inventories": ANY, "texts": ANY})
attr_sort("*.supports_external_lookups", BOOL)
InWG = ufunc("InWG", BOOL)
exceptions(AssertionError="Exception")
assumed("self.is_in_write_group", pure=True, no_raise=True, returns=lambda c: InWG())
assumed("self.revisions._index.get_missing_parents", pure=True, no_raise=True, returns=lambda c: MissingParents())
assumed("parents.discard", pure=True, no_raise=True, result=NONE,
        note="parents.discard(NULL_REVISION) on a set of key TUPLES never matches anything (a no-op in the real code too)")
assumed("unstacked_inventories.get_parent_map", pure=True, result=MapS(RKEY, ANY), no_raise=True,
        ensures=lambda c: forall([RKEY], lambda k: In(k, c.result) == And(In(k, LocalInvKeys()), In(k, c.parents))),
        note="asked for the keys of `parents` (each key[-1:] is the key itself for one-element keys): answers for those it holds")
assumed("key_deps.satisfy_refs_for_keys", result=NONE, no_raise=True)
assumed("key_deps.get_referrers", pure=True, no_raise=True, returns=lambda c: ReferrerKeys())
assumed("self.fileids_altered_by_revision_ids", pure=True, returns=lambda c: Altered(), raises={"Exception": None})
assumed("self.texts.get_parent_map", pure=True, result=MapS(TKEY, ANY),
        ensures=lambda c: forall([TKEY], lambda k: In(k, c.result) == And(In(k, c.args[0]), In(k, PresentTexts()))), raises={"Exception": None})


def still_missing(k):
    return And(In(k, MissingParents()), Not(In(k, LocalInvKeys())))


def all_introduced_texts_present():
    return forall([BYTES, BYTES], lambda f, v: Implies(And(In(f, Altered()), In(v, Altered()[f])), In(TKEY.mk(f, v), PresentTexts())))


target("breezy/bzr/vf_repository.py::VersionedFileRepository.get_missing_parent_inventories", params=dict(check_for_missing_texts=BOOL),
       locals=dict(parents=SetS(RKEY), missing_texts=SetS(TKEY)), result=SetS(IKEY), modifies=[],
       loops={1: loop(r"for file_id, version_ids in file_ids\.items\(\)", done="done", inv=lambda c: And(
           forall([RKEY], lambda k: In(k, c.parents) == still_missing(k)),
           forall([TKEY], lambda k: In(k, c.missing_texts) == And(In(k[0], c.done), In(k[0], Altered()), In(k[1], Altered()[k[0]])))))},
       ensures={"nothing_missing_only_when_complete": lambda c: Implies(
                    And(attr(c.self._format, "supports_external_lookups"), c.result == SetS(IKEY).empty()),
                    Or(forall([RKEY], lambda k: Not(still_missing(k))), And(c.old.check_for_missing_texts, all_introduced_texts_present()))),
                "what_is_reported_is_a_missing_parent_inventory": lambda c: forall([IKEY], lambda k: Implies(
                    In(k, c.result), And(k[0] == lift("inventories"), still_missing(RKEY.mk(k[1])))))},
       raises={"AssertionError": lambda c: Not(InWG()), "Exception": True},
       canary=lambda c: c.result == SetS(IKEY).empty(),
       note="the gate before committing a write group into a stacked repository")
