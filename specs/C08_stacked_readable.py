# C08 - stacked branches stay readable: a commit to a stacked repository goes ahead only when the inventories of all the new
# revision's parents are present in the stacked repository itself (copied from the fallbacks when necessary), so the new revision's
# inventory delta and texts can be read back without depending on more than the stacking contract.
COMPREHENSION_IMAGE = True   # a mapped comprehension also yields: every element's value is contained in the result (sequence fact)
BUDGET_QUICK = 30
PKEY = Tup(BYTES)
MKEY = Tup(STR, BYTES)
ghost(local_inv=SetS(BYTES))           # revision ids whose inventory is present in the stacked repository itself (no fallbacks)
P0 = ufunc("p0", BYTES)                # an arbitrary revision id
REPO = cls("Repository", fields={"_fallback_repositories": Seq(ANY), "_format": ANY, "inventories": ANY})
CB = cls("VersionedFileCommitBuilder", fields={"repository": REPO, "parents": Seq(BYTES)})
attr_sort("*.supports_chks", BOOL)
exceptions(BzrError="Exception")
assumed("self.repository.inventories._index.get_parent_map", pure=True, result=MapS(PKEY, ANY),
        ensures=lambda c: forall([PKEY], lambda k: In(k, c.result) == And(In(k, c.args[0]), In(k[0], c.g.local_inv))),
        raises={"Exception": None},
        note="the index of the stacked repository itself (no fallbacks): answers exactly for the inventories it holds")
assumed("fallback_repo._get_source", pure=True, raises={"Exception": None})
assumed("self.repository._get_sink", pure=True, raises={"Exception": None})
assumed("sink.insert_missing_keys", result=Seq(MKEY), modifies=["g.local_inv"],
        ensures=lambda c: And(
            # whatever was asked for is now present locally or is reported back as still missing; nothing disappears
            forall([MKEY], lambda k: Implies(In(k, c.args[1]), Or(In(k[1], c.g.local_inv), In(k, c.result)))),
            forall([MKEY], lambda k: Implies(In(k, c.result), In(k, c.args[1]))),
            forall([BYTES], lambda r: Implies(In(r, c.old.g.local_inv), In(r, c.g.local_inv)))),
        raises={"Exception": lambda c: forall([BYTES], lambda r: Implies(In(r, c.old.g.local_inv), In(r, c.g.local_inv)))},
        note="StreamSink.insert_missing_keys (not under contract): copies the records it can get from the source, returns the keys still missing")
B = "breezy/bzr/vf_repository.py::VersionedFileCommitBuilder."


def covered(c, missing):
    """the arbitrary parent P0 has its inventory locally, or is still on the list of inventories to fetch"""
    return Implies(In(P0(), c.self.parents), Or(In(P0(), c.g.local_inv), In(MKEY.mk(lift("inventories"), P0()), missing)))


target(B + "_ensure_fallback_inventories", locals=dict(missing_keys=Seq(MKEY), fallback_repos=Seq(ANY), parent_keys=Seq(PKEY)),
       modifies=["g.local_inv"],
       loops={1: loop(r"while missing_keys and fallback_repos", lambda c: And(covered(c, c.missing_keys), c.self.parents == c.old.self.parents,
                                                                           c.self.repository == c.old.self.repository))},
       ensures={"all_parent_inventories_are_local_when_stacked": lambda c: Implies(
                    Len(c.old.self.repository._fallback_repositories) > 0, Implies(In(P0(), c.old.self.parents), In(P0(), c.g.local_inv))),
                "an_unstacked_repository_is_left_alone": lambda c: Implies(
                    Len(c.old.self.repository._fallback_repositories) == 0, c.g.local_inv == c.old.g.local_inv)},
       raises={"BzrError": lambda c: Len(c.old.self.repository._fallback_repositories) > 0, "Exception": True},
       canary=lambda c: Len(c.old.self.repository._fallback_repositories) == 0,
       equivalent_mutants={r"negate@.*supports_chks": "which formats are refused outright: refusing a commit is the safe direction"},
       note="a commit to a stacked repository proceeds only with every parent inventory present locally")

# ---- GCRepositoryPackCollection._check_new_inventories, the final step (block): every text key referenced by the new inventories
#      (collected into text_keys by the CHK difference walk just before) is looked up in the stacked repository's OWN text index, and
#      any that is absent is reported as a problem (which makes commit_write_group refuse the write group: C06)
TKEY = Tup(BYTES, BYTES)
LocalTexts = ufunc("LocalTexts", SetS(TKEY))        # text keys present in the repository itself (no fallbacks)
assumed("no_fallback_texts_index.get_parent_map", pure=True, result=MapS(TKEY, ANY),
        ensures=lambda c: forall([TKEY], lambda k: In(k, c.result) == And(In(k, c.args[0]), In(k, LocalTexts()))), raises={"Exception": None})
pure("sorted")
target("breezy/bzr/groupcompress_repo.py::GCRepositoryPackCollection._check_new_inventories",
       block=(r"^\s*present_text_keys = no_fallback_texts_index\.get_parent_map\(text_keys\)", r"(?m)^\s*if missing_text_keys:"),
       params=dict(text_keys=SetS(TKEY), problems=Seq(STR), no_fallback_texts_index=ANY), locals=dict(missing_text_keys=SetS(TKEY)),
       ensures={"a_referenced_text_that_is_not_local_is_reported": lambda c: (Len(c.problems) == Len(c.old.problems) + 1) == exists(
                    [TKEY], lambda k: And(In(k, c.old.text_keys), Not(In(k, LocalTexts())))),
                "nothing_else_is_reported_here": lambda c: Or(c.problems == c.old.problems, Len(c.problems) == Len(c.old.problems) + 1)},
       raises={"Exception": True}, canary=lambda c: c.problems == c.old.problems,
       note="block: the local-texts check of a write group into a (stacked) 2a repository")


@extra_check
def text_keys_reach_the_lookup_unfiltered(repo):
    """census: between the CHK walk that fills text_keys and the lookup above, text_keys is bound exactly once (to the empty set that the
    walk fills) - nothing narrows or replaces the set of referenced texts before it is checked"""
    import ast as _ast
    tree = _ast.parse(open(repo + "/breezy/bzr/groupcompress_repo.py").read())
    for n in _ast.walk(tree):
        if isinstance(n, _ast.FunctionDef) and n.name == "_check_new_inventories":
            binds = [t for a in _ast.walk(n) if isinstance(a, (_ast.Assign, _ast.AugAssign, _ast.AnnAssign))
                     for t in (a.targets if isinstance(a, _ast.Assign) else [a.target]) if isinstance(t, _ast.Name) and t.id == "text_keys"]
            muts = [c_ for c_ in _ast.walk(n) if isinstance(c_, _ast.Call) and isinstance(c_.func, _ast.Attribute)
                    and isinstance(c_.func.value, _ast.Name) and c_.func.value.id == "text_keys"
                    and c_.func.attr not in ("difference",)]
            if len(binds) != 1 or muts:
                from pyvc.state import SpecDrift
                raise SpecDrift("_check_new_inventories binds or mutates text_keys other than through the CHK walk (%d bindings, %d mutating calls)"
                                % (len(binds), len(muts)))
            return
    from pyvc.state import SpecDrift
    raise SpecDrift("_check_new_inventories not found")


undecided("get_missing_parent_inventories and the earlier steps of GCRepositoryPackCollection._check_new_inventories (the checks that refuse an incomplete write group "
          "after push/fetch into a stacked repository): not under contract in this build; exercised natively by the replay scenarios")
undecided("that the text keys enumerated through the external CHK difference are all texts that differ from the parents; everything over the smart server")
