# C08 - stacked branches stay readable: a commit to a stacked repository goes ahead only when the inventories of all the new
# revision's parents are present in the stacked repository itself (copied from the fallbacks when necessary), so the new revision's
# inventory delta and texts can be read back without depending on more than the stacking contract.
COMPREHENSION_IMAGE = True   # a mapped comprehension also yields: every element's value is contained in the result (sequence fact)
BUDGET_QUICK = 30
PKEY = Tup(BYTES)
MKEY = Tup(STR, BYTES)
ghost(local_inv=SetS(BYTES))           # revision ids whose inventory is present in the stacked repository itself (no fallbacks)
P0 = ufunc("p0", BYTES)                # an arbitrary revision id
REPO = cls("Repository", fields={"_fallback_repositories": Seq(ANY), "_format": ANY, "inventories": ANY})
CB = cls("VersionedFileCommitBuilder", fields={"repository": REPO, "parents": Seq(BYTES)})
attr_sort("*.supports_chks", BOOL)
exceptions(BzrError="Exception")
assumed("self.repository.inventories._index.get_parent_map", pure=True, result=MapS(PKEY, ANY),
        ensures=lambda c: forall([PKEY], lambda k: In(k, c.result) == And(In(k, c.args[0]), In(k[0], c.g.local_inv))),
        raises={"Exception": None},
        note="the index of the stacked repository itself (no fallbacks): answers exactly for the inventories it holds")
assumed("fallback_repo._get_source", pure=True, raises={"Exception": None})
assumed("self.repository._get_sink", pure=True, raises={"Exception": None})
assumed("sink.insert_missing_keys", result=Seq(MKEY), modifies=["g.local_inv"],
        ensures=lambda c: And(
            # whatever was asked for is now present locally or is reported back as still missing; nothing disappears
            forall([MKEY], lambda k: Implies(In(k, c.args[1]), Or(In(k[1], c.g.local_inv), In(k, c.result)))),
            forall([MKEY], lambda k: Implies(In(k, c.result), In(k, c.args[1]))),
            forall([BYTES], lambda r: Implies(In(r, c.old.g.local_inv), In(r, c.g.local_inv)))),
        raises={"Exception": lambda c: forall([BYTES], lambda r: Implies(In(r, c.old.g.local_inv), In(r, c.g.local_inv)))},
        note="StreamSink.insert_missing_keys (not under contract): copies the records it can get from the source, returns the keys still missing")
B = "breezy/bzr/vf_repository.py::VersionedFileCommitBuilder."


def covered(c, missing):
    """the arbitrary parent P0 has its inventory locally, or is still on the list of inventories to fetch"""
    return Implies(In(P0(), c.self.parents), Or(In(P0(), c.g.local_inv), In(MKEY.mk(lift("inventories"), P0()), missing)))


target(B + "_ensure_fallback_inventories", locals=dict(missing_keys=Seq(MKEY), fallback_repos=Seq(ANY), parent_keys=Seq(PKEY)),
       modifies=["g.local_inv"],
       loops={1: loop(r"while missing_keys and fallback_repos", lambda c: And(covered(c, c.missing_keys), c.self.parents == c.old.self.parents,
                                                                           c.self.repository == c.old.self.repository))},
       ensures={"all_parent_inventories_are_local_when_stacked": lambda c: Implies(
                    Len(c.old.self.repository._fallback_repositories) > 0, Implies(In(P0(), c.old.self.parents), In(P0(), c.g.local_inv))),
                "an_unstacked_repository_is_left_alone": lambda c: Implies(
                    Len(c.old.self.repository._fallback_repositories) == 0, c.g.local_inv == c.old.g.local_inv)},
       raises={"BzrError": lambda c: Len(c.old.self.repository._fallback_repositories) > 0, "Exception": True},
       canary=lambda c: Len(c.old.self.repository._fallback_repositories) == 0,
       equivalent_mutants={r"negate@.*supports_chks": "which formats are refused outright: refusing a commit is the safe direction"},
       note="a commit to a stacked repository proceeds only with every parent inventory present locally")

undecided("get_missing_parent_inventories and GCRepositoryPackCollection._check_new_inventories (the checks that refuse an incomplete write group "
          "after push/fetch into a stacked repository): not under contract in this build; exercised natively by the replay scenarios")
undecided("that the text keys enumerated through the external CHK difference are all texts that differ from the parents; everything over the smart server")
