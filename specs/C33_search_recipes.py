# C33 - search recipes describe exactly the intended revisions: the (start, stop, count) triple computed from a parent map.
KEY = BYTES
KS = SetS(KEY)
PM = MapS(KEY, ANY)
X0 = ufunc("x0", KEY)                 # an arbitrary key
Par = ufunc("Par", PM, KS)            # every key referenced as a parent by some entry of the map
NULL = lift(b"null:")
const("revision.NULL_REVISION", b"null:")
assumed("itertools.chain.from_iterable", pure=True, no_raise=True, returns=lambda c: Par(c.parent_map),
        note="the union of the parent tuples of the map (itertools over dict values)")

target("breezy/bzr/vf_search.py::search_result_from_parent_map",
       params=dict(parent_map=PM, missing_keys=KS), locals=dict(start_set=KS, result_parents=KS, stop_keys=KS, included_keys=KS),
       result=Tup(KS, KS, INT),
       requires=lambda c: truthy(c.parent_map),          # the empty map gives the empty recipe ([], [], 0): trivial, outside this contract
       ensures={
           "start_is_the_keys_nobody_references": lambda c: In(X0(), c.result[0]) == And(In(X0(), c.old.parent_map), Not(In(X0(), Par(c.old.parent_map)))),
           "stop_is_the_referenced_keys_outside_the_map_that_are_not_known_missing": lambda c: In(X0(), c.result[1]) == And(
               In(X0(), Par(c.old.parent_map)), Not(In(X0(), c.old.parent_map)), Not(In(X0(), c.old.missing_keys))),
           "start_and_stop_are_disjoint": lambda c: Not(And(In(X0(), c.result[0]), In(X0(), c.result[1]))),
           "every_parent_of_a_key_is_a_key_a_stop_or_known_missing": lambda c: Implies(
               In(X0(), Par(c.old.parent_map)), Or(In(X0(), c.old.parent_map), In(X0(), c.result[1]), In(X0(), c.old.missing_keys))),
           "count_is_the_number_of_keys_plus_the_null_case": lambda c: c.result[2] == Card(c.old.parent_map) + If(
               And(In(NULL, Par(c.old.parent_map)), In(NULL, c.old.missing_keys)), 1, 0)},
       raises={}, canary=lambda c: c.result[2] == 0,
       equivalent_mutants={r"retnone@.*\| return \[\], \[\], 0": "the empty-map case is the subject of the [empty] contract below"})

target("breezy/bzr/vf_search.py::search_result_from_parent_map", variant="empty",
       params=dict(parent_map=PM, missing_keys=KS), result=Tup(Seq(KEY), Seq(KEY), INT),
       requires=lambda c: Not(truthy(c.parent_map)),
       ensures={"empty_map_gives_the_empty_recipe": lambda c: And(Len(c.result[0]) == 0, Len(c.result[1]) == 0, c.result[2] == 0)},
       raises={}, skip_mutants=True)

# ---- the server re-runs the walk and refuses a recipe whose walk has a different size
SEARCH = Opaque("Searcher")
Included = ufunc("Included", SEARCH, KS)
exceptions(StopIteration="Exception")
assumed("repository.lock_read", pure=True, no_raise=True)
assumed("repository.lock_read.__exit__", pure=True, no_raise=True)
assumed("repository.get_graph()._make_breadth_first_searcher", pure=True, result=SEARCH, raises={"Exception": None})
assumed("search.stop_searching_any", pure=True, raises={"Exception": None})
assumed("search.get_state", pure=True, returns=lambda c: Tup(KS, KS, KS).mk(KS.fresh("started"), KS.fresh("excl"), Included(c.search)),
        raises={"Exception": None})
pure("vf_search.SearchResult", "FailedSmartServerResponse")
target("breezy/bzr/smart/repository.py::SmartServerRepositoryRequest.recreate_search_from_recipe",
       block=(r"\(started_keys, excludes, included_keys\) = search\.get_state\(\)", r"return \(search_result, None\)"),
       params=dict(search=SEARCH, revision_count=INT, discard_excess=BOOL, exclude_keys=KS, start_keys=KS, repository=ANY, lines=Seq(BYTES)),
       result=Tup(Opt(ANY), Opt(ANY)),
       ensures={"a_walk_of_a_different_size_is_refused": lambda c: c.result[0].is_none == And(
                    Not(c.old.discard_excess), Card(Included(c.old.search)) != c.old.revision_count),
                "an_accepted_walk_carries_no_failure": lambda c: Implies(Not(c.result[0].is_none), c.result[1].is_none)},
       raises={"Exception": True}, canary=lambda c: c.result[0].is_none,
       note="block: the size check after the walk")

# ---- the depth-limited variant hands the searcher's own state to the server: start keys minus the heads met while walking, the
#      searcher's exclude keys UNFILTERED (a known ghost must stay a stop key: it may have been filled on the server since), its key count
SState = ufunc("SState", SEARCH, Tup(KS, KS, KS))
FoundHeads = ufunc("FoundHeads", KS)
assumed("_find_possible_heads", pure=True, raises={"Exception": None})
assumed("_run_search", pure=True, result=Tup(SEARCH, KS), ensures=lambda c: c.result[1] == FoundHeads(), raises={"Exception": None},
        note="runs the breadth-first searcher over the cached parent map from the possible heads down to the tips")
assumed("s.get_state", pure=True, returns=lambda c: SState(c.s), raises={"Exception": None})
target("breezy/bzr/vf_search.py::limited_search_result_from_parent_map",
       params=dict(parent_map=PM, missing_keys=KS, tip_keys=ANY, depth=INT), locals=dict(s=SEARCH, found_heads=KS),
       result=Tup(KS, KS, INT),
       requires=lambda c: truthy(c.parent_map),
       ensures={"start_is_the_searchers_start_minus_heads_met_on_the_way": lambda c: In(X0(), c.result[0]) == And(
                    In(X0(), SState(c.s)[0]), Not(In(X0(), FoundHeads()))),
                "stop_keys_are_the_searchers_unfiltered": lambda c: In(X0(), c.result[1]) == In(X0(), SState(c.s)[1]),
                "count_is_the_searchers": lambda c: c.result[2] == Card(SState(c.s)[2])},
       raises={"Exception": True}, canary=lambda c: c.result[2] == 0,
       equivalent_mutants={r"return \[\], \[\], 0|if not parent_map": "the empty-map case (empty recipe)"})

undecided("that a breadth-first walk from `start` stopping at `stop` visits exactly the keys of the map (graph induction over the external searcher)")
undecided("serialisation of the recipe (join/split on spaces and newlines; revision ids contain neither: assumed); _find_possible_heads and _run_search (external searcher)")

# ---- the client side: a search recipe is sent as exactly  <start keys, space separated> LF <stop keys, space separated> LF <count>
JoinSP = ufunc("JoinSP", Seq(BYTES), BYTES)        # b" ".join
JoinNL3 = ufunc("JoinNL3", BYTES, BYTES, BYTES, BYTES)   # b"\n".join of three parts
StrI = ufunc("StrI", INT, STR)
EncAscii = ufunc("EncAscii", STR, BYTES)
assumed("b' '.join", pure=True, no_raise=True, returns=lambda c: JoinSP(c.args[0]))
assumed("b'\\n'.join", pure=True, no_raise=True, returns=lambda c: JoinNL3(c.args[0][0], c.args[0][1], c.args[0][2]))
assumed("str", pure=True, no_raise=True, returns=lambda c: StrI(c.args[0]))
assumed(rx(r"^str\(recipe\[3\]\)\.encode$"), pure=True, no_raise=True, returns=lambda c: EncAscii(StrI(c.recipe[3])))
target("breezy/bzr/remote.py::RemoteRepository._serialise_search_recipe", params=dict(recipe=Tup(STR, Seq(BYTES), Seq(BYTES), INT)),
       result=BYTES, modifies=[],
       ensures={"start_keys_then_stop_keys_then_count": lambda c: c.result == JoinNL3(JoinSP(c.old.recipe[1]), JoinSP(c.old.recipe[2]),
                                                                                     EncAscii(StrI(c.old.recipe[3])))},
       raises={}, canary=lambda c: Len(c.result) == 0,
       note="the wire form the server's recreate_search_from_recipe parses")
