# C13 - applying a tree transform is all-or-nothing on the file system.
# Ghost file system `fs` (an abstract value), changed only by os.rename / delete_any. The rename journal of _FileMover
# describes how `fs` was reached from the state FS0 in which the mover was created:
#     fs == Apply(past_renames, FS0)      Apply([], f) = f,  Apply(j ++ [(a, b)], f) = Rename(Apply(j, f), a, b)
# rollback undoes the journal in reverse and re-establishes fs == FS0.

FS = Opaque("FS")
PAIR = Tup(STR, STR)
J = Seq(PAIR)
Rename = ufunc("Rename", FS, STR, STR, FS)
Delete = ufunc("Delete", FS, STR, FS)
Apply = ufunc("Apply", J, FS, FS)
FS0 = ufunc("FS0", FS)                # the file system when the mover was created (before the transform touched anything)
ghost(last_errno=INT)                 # errno of the most recent failed os.rename (what e.errno reads in the handlers)
exc_attr("errno", lambda c: c.g.last_errno)
ENOENT = 2
ghost(fs=FS, meta_new=BOOL)           # meta_new: the versioning metadata (inventory / index) describes the transformed layout

assume_note("Apply is the left fold of Rename over the journal (a definition; its instances are stated where used)")
assume_note("inverse law of os.rename: a rename that succeeded is undone by the opposite rename as long as nothing else touched the "
            "two names in between (in particular the target name was free: the transform's conflict checks; POSIX would silently "
            "replace an existing file)")


def apply_nil():
    return Apply(lift([], J), FS0()) == FS0()


def apply_snoc(j, e):
    return Apply(j + lift([e], J), FS0()) == Rename(Apply(j, FS0()), e[0], e[1])


def undo(f, a, b):
    return Rename(Rename(f, a, b), b, a) == f


exceptions(OSError="Exception", FileExists="Exception", TransformRenameFailed="Exception", FileNotFoundError="OSError")
MOVER = cls("_FileMover", fields={"past_renames": Opt(J), "pending_deletions": Opt(Seq(STR))})

assumed("os.rename", result=NONE, modifies=["g.fs", "g.last_errno"],
        ensures=lambda c: And(c.g.fs == Rename(c.old.g.fs, c.args[0], c.args[1]), c.g.last_errno == c.old.g.last_errno),
        raises={"OSError": lambda c: c.g.fs == c.old.g.fs},
        note="os.rename moves the entry or fails with OSError changing nothing")
assumed("delete_any", result=NONE, modifies=["g.fs"],
        ensures=lambda c: c.g.fs == Delete(c.old.g.fs, c.args[0]), raises={"Exception": "unchanged"})
pure("str")

P = "breezy/transform.py::_FileMover."
MOVER_EQUIV = {r"\| if e\.errno in \(errno\.EEXIST|\| raise FileExists\(": "which of the two failure classes reports the failed os.rename",
               r"drop:Expr.*\| delete_any\(path\)": "discarding less leaves garbage in pending-deletion (reported by finalize), never touches the tree"}


def journal_ok(m, g):
    return And(Not(m.past_renames.is_none), Not(m.pending_deletions.is_none), g.fs == Apply(m.past_renames.val, FS0()))


def rename_failed(c):
    return And(c.g.fs == c.old.g.fs, c.self.past_renames == c.old.self.past_renames, c.self.pending_deletions == c.old.self.pending_deletions)


RENAME = verified(("_FileMover", "rename"), params=["from_", "to"], result=NONE, modifies=["g.fs", "g.last_errno", "self.past_renames"],
                  requires=lambda c: journal_ok(c.self, c.g),
                  ensures=lambda c: And(journal_ok(c.self, c.g), c.g.fs == Rename(c.old.g.fs, c.from_, c.to),
                                        c.self.past_renames.val == c.old.self.past_renames.val + lift([PAIR.mk(c.from_, c.to)], J)),
                  raises={"FileExists": rename_failed, "TransformRenameFailed": rename_failed})
target(P + "rename", params=dict(from_=STR, to=STR), contract=RENAME,
       ensures={"journalled": lambda c: And(journal_ok(c.self, c.g), c.g.fs == Rename(c.old.g.fs, c.old.from_, c.old.to),
                                            c.self.past_renames.val == c.old.self.past_renames.val + lift([PAIR.mk(c.old.from_, c.old.to)], J),
                                            c.self.pending_deletions == c.old.self.pending_deletions)},
       raises={"FileExists": lambda c: And(c.g.fs == c.old.g.fs, c.self.past_renames == c.old.self.past_renames),
               "TransformRenameFailed": lambda c: And(c.g.fs == c.old.g.fs, c.self.past_renames == c.old.self.past_renames)},
       hints=lambda c: apply_snoc(c.old.self.past_renames.val, PAIR.mk(c.old.from_, c.old.to)),
       equivalent_mutants=MOVER_EQUIV, canary=lambda c: c.g.fs == c.old.g.fs)

PREDEL = verified(("_FileMover", "pre_delete"), params=["from_", "to"], result=NONE,
                  modifies=["g.fs", "g.last_errno", "self.past_renames", "self.pending_deletions"],
                  requires=lambda c: journal_ok(c.self, c.g),
                  ensures=lambda c: And(journal_ok(c.self, c.g), c.g.fs == Rename(c.old.g.fs, c.from_, c.to)),
                  raises={"FileExists": rename_failed, "TransformRenameFailed": rename_failed})
target(P + "pre_delete", params=dict(from_=STR, to=STR), contract=PREDEL,
       ensures={"moved_aside_and_marked": lambda c: And(
           journal_ok(c.self, c.g), c.g.fs == Rename(c.old.g.fs, c.old.from_, c.old.to),
           c.self.pending_deletions.val == c.old.self.pending_deletions.val + lift([c.old.to], Seq(STR)))},
       raises={"FileExists": lambda c: And(c.g.fs == c.old.g.fs, c.self.pending_deletions == c.old.self.pending_deletions),
               "TransformRenameFailed": lambda c: And(c.g.fs == c.old.g.fs, c.self.pending_deletions == c.old.self.pending_deletions)},
       canary=lambda c: c.g.fs == c.old.g.fs)


def rollback_inv(c):
    j = c.old.self.past_renames.val
    k = Len(j) - c.i                      # journal entries still to undo
    return And(c.self.past_renames == c.old.self.past_renames, c.g.fs == Apply(j[0:k], FS0()))


def rollback_hints(c):
    j = c.old.self.past_renames.val
    k = Len(j) - c.i
    e = j[k - 1]
    return Implies(c.i < Len(j), And(apply_snoc(j[0:k - 1], e),
                                     undo(Apply(j[0:k - 1], FS0()), e[0], e[1])))


ROLLBACK = verified(("_FileMover", "rollback"), result=NONE, modifies=["g.fs", "g.last_errno", "self.past_renames", "self.pending_deletions"],
                    requires=lambda c: journal_ok(c.self, c.g),
                    ensures=lambda c: c.g.fs == FS0(),
                    raises={"TransformRenameFailed": None})
target(P + "rollback", contract=ROLLBACK,
       loops={1: loop(r"for from_, to in .*self\.past_renames", rollback_inv, index="i", hints=rollback_hints)},
       ensures={"everything_restored": lambda c: And(c.g.fs == FS0(), c.self.past_renames.is_none, c.self.pending_deletions.is_none)},
       raises={"TransformRenameFailed": lambda c: lift(c.calls("os.rename", failed=True) == 1)},
       hints=lambda c: apply_nil(),
       canary=lambda c: c.g.fs == c.old.g.fs)

DELS = verified(("_FileMover", "apply_deletions"), result=NONE, modifies=["g.fs", "self.past_renames", "self.pending_deletions"],
                requires=lambda c: journal_ok(c.self, c.g), raises={"Exception": None})
target(P + "apply_deletions", contract=DELS,
       loops={1: loop(r"for path in self\.pending_deletions", lambda c: c.self.pending_deletions == c.old.self.pending_deletions)},
       ensures={"mover_retired": lambda c: And(c.self.past_renames.is_none, c.self.pending_deletions.is_none),
                "only_marked_paths_are_deleted": lambda c: lift(c.calls("os.rename") == 0)},
       raises={"Exception": lambda c: lift(c.calls("delete_any", failed=True) == 1)},
       equivalent_mutants=MOVER_EQUIV, canary=lambda c: Not(c.self.past_renames.is_none))

# ---------------------------------------------------------------------------------------------------------------------------------
# The two phases and apply(), for the bzr (inventory) and git (index) transforms. Modular on the _FileMover contracts.
ghost(modes_changed=BOOL)             # some file's executable bit was changed in place (os.chmod: not a rename, not journalled)
TT_FIELDS = {"_tree_path_ids": MapS(STR, STR), "_removed_contents": SetS(STR), "_new_name": MapS(STR, STR), "_new_parent": MapS(STR, STR),
             "_deletiondir": STR, "rename_count": INT, "_needs_rename": SetS(STR), "_new_contents": MapS(STR, ANY),
             "_new_executability": MapS(STR, BOOL), "_observed_sha1s": MapS(STR, Tup(ANY, ANY)), "_limbo_files": MapS(STR, STR),
             "_tree": ANY, "_done": BOOL, "root": STR, "_new_root": STR}
PURE_TT = ["_limbo_name", "path_changed", "new_paths", "final_file_id", "_generate_inventory_delta", "_generate_index_changes"]
cls("InventoryTreeTransform", fields=TT_FIELDS, pure_methods=PURE_TT)
cls("GitTreeTransform", fields=TT_FIELDS, pure_methods=PURE_TT)
attr_sort("*.errno", INT)
const("errno.ENOENT", 2)
assumed("ui.ui_factory.nested_progress_bar", pure=True, no_raise=True)
assumed(rx(r"child_pb\.(update|__enter__|__exit__)"), pure=True, no_raise=True, result=NONE)
assumed("self._tree.abspath", pure=True, no_raise=True, result=STR)
assumed("os.path.join", pure=True, no_raise=True, result=STR)
assumed("self._limbo_name", pure=True, no_raise=True, result=STR, note="allocates a limbo name (bookkeeping only; no file system effect)")
assumed("self.new_paths", pure=True, result=Seq(Tup(STR, STR)))
assumed("self.path_changed", pure=True, result=BOOL)
assumed("osutils.lstat", pure=True, raises={"OSError": None})
assumed("self._set_executability", result=NONE, modifies=["g.modes_changed"], ensures=lambda c: c.g.modes_changed,
        raises={"Exception": None},
        note="os.chmod on the file in place: changes mode bits, not names; NOT recorded in the rename journal")


def phase_contract(cls_, insertions_verified=True):
    mods = ["g.fs", "g.last_errno", "g.modes_changed", "mover.past_renames", "mover.pending_deletions", "self.rename_count", "self._observed_sha1s",
            "self._limbo_files", "self._new_contents"]
    rem = verified((cls_, "_apply_removals"), params=["mover"], result=NONE, modifies=[m for m in mods if m != "g.modes_changed"],
                   requires=lambda c: journal_ok(c.mover, c.g),
                   ensures=lambda c: journal_ok(c.mover, c.g),
                   raises={"Exception": lambda c: journal_ok(c.mover, c.g)})
    ins = (verified if insertions_verified else assumed)((cls_, "_apply_insertions"), params=["mover"], modifies=mods,
                   requires=lambda c: journal_ok(c.mover, c.g),
                   ensures=lambda c: journal_ok(c.mover, c.g),
                   raises={"Exception": lambda c: journal_ok(c.mover, c.g)})
    return rem, ins


def only_missing_files_are_tolerated(c):
    """The phase carries on after a failed rename only when the file was simply not there (ENOENT): any other failed move ends the
    phase with an exception (so that apply() rolls back) - otherwise the tree would end up partially transformed."""
    failed = c.calls_in_iteration("_FileMover.rename", failed=True) + c.calls_in_iteration("_FileMover.pre_delete", failed=True)
    return Implies(lift(failed >= 1), c.g.last_errno == ENOENT)


SELECTION = "which entries the phase moves or creates is what the transform *does* (C14), not whether its moves can be undone"
PHASE_EQUIV = {r'\| if path == ""': SELECTION, r"\| (if|elif) trans_id in self\._": SELECTION,
               r"drop:Expr.*\| mover\.(pre_delete|rename)\(": SELECTION,
               r"rename_count|num % 10|modified_paths\.append": "counters, progress reporting and the returned list of modified paths",
               r"drop:Expr.*_set_executability": "not changing the executable bit: outside all-or-nothing (and avoids finding F12)"}



def phase_targets(path, cls_, rem, ins, insertions=True):
    P2 = "%s::%s." % (path, cls_)
    target(P2 + "_apply_removals", cls=cls_, params=dict(mover=MOVER), contract=rem,
           loops={1: loop(r"for num, \(path, trans_id\) in enumerate\(tree_paths\)", lambda c: journal_ok(c.mover, c.g),
                          body_post=only_missing_files_are_tolerated)},
           ensures={"every_change_is_journalled": lambda c: journal_ok(c.mover, c.g),
                    "modes_untouched": lambda c: c.g.modes_changed == c.old.g.modes_changed},
           equivalent_mutants=PHASE_EQUIV,
           raises={"Exception": lambda c: And(journal_ok(c.mover, c.g), c.g.modes_changed == c.old.g.modes_changed)},
           canary=lambda c: c.g.fs == c.old.g.fs)
    if not insertions:
        return
    target(P2 + "_apply_insertions", cls=cls_, params=dict(mover=MOVER), contract=ins, locals=dict(modified_paths=Seq(STR)),
           loops={1: loop(r"for num, \(path, trans_id\) in enumerate\(new_paths\)", lambda c: journal_ok(c.mover, c.g),
                          body_post=only_missing_files_are_tolerated),
                  2: loop(r"for _path, trans_id in new_paths", lambda c: And(journal_ok(c.mover, c.g), c.g.fs == c.pre.g.fs))},
           ensures={"every_rename_is_journalled": lambda c: journal_ok(c.mover, c.g)},
           equivalent_mutants=PHASE_EQUIV,
           raises={"Exception": lambda c: journal_ok(c.mover, c.g)},
           canary=lambda c: c.g.fs == c.old.g.fs)


BZR, GIT = "breezy/bzr/transform.py", "breezy/git/transform.py"
REM_B, INS_B = phase_contract("InventoryTreeTransform")
phase_targets(BZR, "InventoryTreeTransform", REM_B, INS_B)

# ---- apply(): everything before the commit point is rolled back; replaced content is discarded only once the metadata is new
assumed("_FileMover", result=MOVER, pure=True, no_raise=True,
        ensures=lambda c: And(eq(c.view(c.result).past_renames, lift([], J)), eq(c.view(c.result).pending_deletions, lift([], Seq(STR))),
                              apply_nil()),
        note="a new mover has an empty journal (and Apply of the empty journal is the identity: definition)")
assumed("self._tree.apply_inventory_delta", result=NONE, modifies=["g.meta_new"], ensures=lambda c: c.g.meta_new,
        raises={"Exception": "unchanged"}, note="the inventory is replaced as a whole or not at all (dirstate update)")
assumed("self._tree._apply_index_changes", result=NONE, modifies=["g.meta_new"], ensures=lambda c: c.g.meta_new,
        raises={"Exception": "unchanged"})
pure("InventoryDelta", "_TransformResults", "list", "gettext")


def apply_target(path, cls_, rem, ins):
    def restored(c):
        """an exception that escapes after rollback() returned: the tree is exactly as before"""
        return Implies(lift(c.calls("_FileMover.rollback", failed=False) == 1),
                       And(c.g.fs == FS0(), Not(c.g.meta_new)))

    def modes_restored(c):
        return Implies(lift(c.calls("_FileMover.rollback", failed=False) == 1), c.g.modes_changed == c.old.g.modes_changed)

    def nothing_touched_before_the_phases(c):
        return Implies(lift(c.calls("%s._apply_removals" % cls_) == 0), And(c.g.fs == c.old.g.fs, Not(c.g.meta_new)))

    def failure_while_discarding_leaves_new_metadata(c):
        return Implies(lift(c.calls("_FileMover.apply_deletions", failed=True) == 1), c.g.meta_new)

    def rolled_back_iff_a_phase_failed(c):
        return lift((c.calls("%s._apply_removals" % cls_, failed=True) + c.calls("%s._apply_insertions" % cls_, failed=True) == 1)
                    == (c.calls("_FileMover.rollback") == 1))

    target("%s::%s.apply" % (path, cls_), cls=cls_,
           # _mover is a testing hook: production callers leave it None (a mover supplied by a test is outside this contract)
           params=dict(no_conflicts=BOOL, precomputed_delta=Opt(ANY), _mover=NONE) if cls_ == "InventoryTreeTransform"
           else dict(no_conflicts=BOOL, _mover=NONE),
           requires=lambda c: And(c.g.fs == FS0(), Not(c.g.meta_new)),
           loops={1: loop(r"for hook in MutableTree\.hooks\[", lambda c: And(c.g.fs == c.old.g.fs, c.g.meta_new == c.old.g.meta_new,
                                                                           c.g.modes_changed == c.old.g.modes_changed))},
           ensures={"committed": lambda c: And(c.g.meta_new, lift(c.calls("_FileMover.rollback") == 0)),
                    # (C14) a transform is applied only after its raw conflicts were checked, before the first file-system effect
                    "conflicts_checked_before_anything_is_touched": lambda c: Implies(
                        Not(c.old.no_conflicts), lift(c.calls("?self._check_malformed") == 1 and
                                                      c.before("?self._check_malformed", "%s._apply_removals" % cls_))),
                    "replaced_content_discarded_once": lambda c: lift(c.calls("_FileMover.apply_deletions") == 1),
                    "phases_in_order": lambda c: lift(c.before("%s._apply_removals" % cls_, "%s._apply_insertions" % cls_))},
           raises={"Exception": {"restored": restored, "modes_restored": modes_restored,
                                 "nothing_touched_before_the_phases": nothing_touched_before_the_phases,
                                 "failure_while_discarding_leaves_new_metadata": failure_while_discarding_leaves_new_metadata,
                                 "rolled_back_iff_a_phase_failed": rolled_back_iff_a_phase_failed}},
           hints=lambda c: apply_nil(),
           canary=lambda c: c.g.fs == c.old.g.fs)


apply_target(BZR, "InventoryTreeTransform", REM_B, INS_B)

# git: _apply_insertions also initialises submodule control directories and writes .git files (un-journalled creations inside a
# loop over an external configuration): its contract is ASSUMED here, not verified
REM_G, INS_G = phase_contract("GitTreeTransform", insertions_verified=False)
phase_targets(GIT, "GitTreeTransform", REM_G, INS_G, insertions=False)
apply_target(GIT, "GitTreeTransform", REM_G, INS_G)

undecided("a second failure during rollback itself (TransformRenameFailed out of rollback): the tree is then in a mixed state")
undecided("failure of the metadata update itself (apply_inventory_delta / _apply_index_changes raising) after the files were moved")
undecided("limbo and pending-deletion directory cleanup in finalize(); creation of new content in limbo (before apply); hooks")
undecided("os.rename replacing an existing target (the inverse law assumes the target name was free)")
