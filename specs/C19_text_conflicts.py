# C19 - a text conflict is recorded exactly when the three-way text merge has conflicting regions; the helper files hold BASE, THIS, OTHER.
SOLVER_RACE = True       # covers and canaries need models of sequence formulas: cvc5 finds them where z3 answers unknown
LINES = Seq(BYTES)
MARK = lift(b"!START OF MERGE CONFLICT!I HOPE THIS IS UNIQUE")
M3Lines = ufunc("M3Lines", LINES)          # what Merge3.merge_lines yields (merge3 package, external)
Regions = ufunc("Regions", BOOL)           # the three-way merge of BASE, THIS, OTHER has at least one conflicting region
InputsClean = ufunc("InputsClean", BOOL)   # no line of BASE, THIS or OTHER begins with the start-marker sentinel
Repl = ufunc("Repl", BYTES, BYTES)         # line.replace(start_marker, b'<<<<<<<')
NoneMarked = fold_all("NoneMarked", LINES, lambda l: Not(StartsWith(l, MARK)))
Shown = fold_cat("Shown", LINES, LINES, lambda l: If(StartsWith(l, MARK), lift([Repl(l)], LINES), lift([l], LINES)))
assume_note("merge3 (external): every conflicting region is introduced by a line beginning with the start marker given to merge_lines, and every "
            "other emitted line is a line of one of the inputs: Regions => some emitted line is marked; (not Regions and InputsClean) => none is")
exceptions(CantReprocessAndShowBase="Exception", BinaryFile="Exception")
M = "breezy/merge.py::Merge3Merger."
MM = cls("Merge3Merger", fields={"show_base": ANY, "reprocess": BOOL, "cherrypick": ANY, "_raw_conflicts": Seq(Tup(STR, STR)),
                                 "tt": ANY, "base_tree": ANY, "other_tree": ANY, "this_tree": ANY})
assumed("m3.merge_lines", pure=True, returns=lambda c: M3Lines(),
        ensures=lambda c: And(Implies(Regions(), Not(NoneMarked(M3Lines()))), Implies(And(Not(Regions()), InputsClean()), NoneMarked(M3Lines()))),
        raises={"Exception": None})
assumed("line.replace", pure=True, no_raise=True, returns=lambda c: Repl(c.line),
        # the sentinel is replaced by the seven-character conflict marker resolvers and users look for
        requires=lambda c: And(c.args[0] == MARK, c.args[1] == lift(b"<<<<<<<")))
pure("list")

# ---- the nested generator that writes the merged file: marks become '<<<<<<<' lines, the flag says whether any mark was seen
target(M + "text_merge.iter_merge3", nested=True,
       params=dict(retval=MapS(STR, BOOL), m3=ANY, start_marker=BYTES, base_marker=Opt(BYTES), self=MM), generator=BYTES,
       requires=lambda c: c.start_marker == MARK,
       loops={1: loop(r"for line in lines", prefix="seen",
                      inv=lambda c: And(c.g.yielded == Shown(c.seen), In(lift("text_conflicts"), c.retval),
                                        c.retval[lift("text_conflicts")] == Not(NoneMarked(c.seen))))},
       ensures={"flag_says_whether_a_marker_line_was_written": lambda c: And(In(lift("text_conflicts"), c.retval),
                                                                            c.retval[lift("text_conflicts")] == Not(NoneMarked(M3Lines()))),
                "the_file_is_the_merge_output_with_marker_lines_rewritten": lambda c: c.g.yielded == Shown(M3Lines())},
       raises={"CantReprocessAndShowBase": True, "Exception": True},
       canary=lambda c: Len(c.g.yielded) == 0,
       equivalent_mutants={r"if base_marker and self\.reprocess|raise CantReprocessAndShowBase": "validation of display options"})

# ---- text_merge: the conflict is recorded, and the helper files written, exactly when the merged file got a conflict marker
ghost(helpers=Seq(Tup(STR, Seq(BYTES))))      # (suffix, lines) of the helper files created through _conflict_file
assumed("self.get_lines", pure=True, result=LINES, raises={"Exception": None})
assumed("textfile.check_text_lines", pure=True, result=NONE, raises={"BinaryFile": None})
assumed("Merge3", pure=True, raises={"Exception": None})
assumed("iter_merge3", pure=True, no_raise=True, note="creates the generator verified above (nothing runs until the transform consumes it)")
assumed("self.tt.create_file", result=NONE, modifies=["retval"],
        ensures=lambda c: And(In(lift("text_conflicts"), c.retval), c.retval[lift("text_conflicts")] == Not(NoneMarked(M3Lines())),
                              # (the assumed contract of merge3.merge_lines, whose call happens inside the consumed generator)
                              Implies(Regions(), Not(NoneMarked(M3Lines()))), Implies(And(Not(Regions()), InputsClean()), NoneMarked(M3Lines()))),
        raises={"Exception": lambda c: TRUE},
        note="TreeTransform.create_file consumes the line iterator to the end (so the generator's postcondition holds afterwards)")
assumed("self.tt.final_name", pure=True, raises={"Exception": None})
assumed("self.tt.final_parent", pure=True, raises={"Exception": None})
DUMP = verified(("Merge3Merger", "_dump_conflicts"), params=["name", "paths", "parent_id", "lines", "no_base"], result=Seq(ANY),
                modifies=["g.helpers"], raises={"Exception": lambda c: TRUE})
target(M + "text_merge", params=dict(trans_id=STR, paths=Tup(Opt(STR), Opt(STR), Opt(STR))), locals=dict(retval=MapS(STR, BOOL)),
       modifies=["self._raw_conflicts", "g.helpers"],
       ensures={"conflict_recorded_iff_a_marker_was_written": lambda c: If(
                    Not(NoneMarked(M3Lines())),
                    And(c.self._raw_conflicts == c.old.self._raw_conflicts + lift([Tup(STR, STR).mk(lift("text conflict"), c.old.trans_id)], Seq(Tup(STR, STR))),
                        lift(c.calls("Merge3Merger._dump_conflicts") == 1)),
                    And(c.self._raw_conflicts == c.old.self._raw_conflicts, lift(c.calls("Merge3Merger._dump_conflicts") == 0))),
                # the statement: exactly when the three-way merge has conflicting regions (needs: no input line begins with the sentinel)
                "conflict_recorded_iff_the_merge_has_conflicting_regions": lambda c: (
                    Len(c.self._raw_conflicts) > Len(c.old.self._raw_conflicts)) == Regions()},
       raises={"Exception": True},
       canary=lambda c: c.self._raw_conflicts == c.old.self._raw_conflicts,
       equivalent_mutants={r"file_group\.append|is_cherrypick|sequence_matcher|name_a=|name_b=|name_base=|base_marker|reprocess": "bookkeeping of the conflict's file group and merge3 display options"})

# ---- _dump_conflicts: one helper file per side that has a path - OTHER, THIS and (unless no_base) BASE - each with that side's lines
SIDE = Tup(STR, ANY, Opt(STR), LINES)
assumed("self.this_tree.supports_content_filtering", pure=True, no_raise=True, result=BOOL)
assumed("self._conflict_file", result=STR, modifies=["g.helpers"],
        ensures=lambda c: c.g.helpers == c.old.g.helpers + lift([Tup(STR, LINES).mk(c.args[4], c.args[5])], Seq(Tup(STR, LINES))),
        raises={"Exception": "unchanged"}, note="creates <name>.<suffix> holding the given lines (or the tree's text when none are given)")
HelperOf = fold_cat("HelperOf", Seq(SIDE), Seq(Tup(STR, LINES)),
                    lambda e: If(e[2].is_none, lift([], Seq(Tup(STR, LINES))), lift([Tup(STR, LINES).mk(e[0], e[3])], Seq(Tup(STR, LINES)))))
target(M + "_dump_conflicts", params=dict(name=ANY, paths=Tup(Opt(STR), Opt(STR), Opt(STR)), parent_id=ANY,
                                           lines=Tup(LINES, LINES, LINES), no_base=BOOL),    # (text_merge always passes the three line lists)
       locals=dict(data=Seq(SIDE), file_group=Seq(STR)), result=Seq(STR), modifies=["g.helpers"],
       loops={1: loop(r"for suffix, tree, path, lines in data", prefix="seen",
                      inv=lambda c: And(c.g.helpers == c.old.g.helpers + HelperOf(c.seen), c.data == c.pre.data))},
       ensures={"helper_files_hold_exactly_the_three_sides": lambda c: c.g.helpers == c.old.g.helpers
                + If(c.old.paths[1].is_none, lift([], Seq(Tup(STR, LINES))), lift([Tup(STR, LINES).mk(lift("OTHER"), c.old.lines[1])], Seq(Tup(STR, LINES))))
                + If(c.old.paths[2].is_none, lift([], Seq(Tup(STR, LINES))), lift([Tup(STR, LINES).mk(lift("THIS"), c.old.lines[2])], Seq(Tup(STR, LINES))))
                + If(Or(c.old.no_base, c.old.paths[0].is_none), lift([], Seq(Tup(STR, LINES))),
                     lift([Tup(STR, LINES).mk(lift("BASE"), c.old.lines[0])], Seq(Tup(STR, LINES))))},
       raises={"Exception": True}, canary=lambda c: c.g.helpers == c.old.g.helpers,
       equivalent_mutants={r"filter_tree_path": "content-filter path lookup for the helper files",
                           r"base_lines = other_lines = this_lines = None": "the branch for callers that give no lines (text_merge always does)",
                           r"file_group\.append": "bookkeeping of the conflict's file group"})

undecided("weave and LCA text merges; resolving with take-this / take-other (TextConflict._resolve over tree transforms)")
undecided("merge3 itself (external package): its contract is the stated assumption")

# ---- resolving with take-this / take-other (TextConflict._resolve): the chosen helper file takes the item's name and file id, the
#      conflicted item takes the helper's name (so that it is deleted with the helpers), and the transform is applied once, last
ghost(step=INT)
TC = cls("TextConflict", fields={"path": STR, "file_id": BYTES})
TidOfId = ufunc("TidOfId", BYTES, STR)
TidOfPath = ufunc("TidOfPath", STR, STR)
ParentTid = ufunc("ParentTid", STR, STR)
BaseName = ufunc("BaseName", STR, STR)
assumed("tt.trans_id_file_id", pure=True, no_raise=True, returns=lambda c: TidOfId(c.args[0]))
assumed("tt.trans_id_tree_path", pure=True, no_raise=True, returns=lambda c: TidOfPath(c.args[0]))
assumed("tt.get_tree_parent", pure=True, no_raise=True, returns=lambda c: ParentTid(c.args[0]))
assumed("osutils.basename", pure=True, no_raise=True, returns=lambda c: BaseName(c.args[0]))


def winner_path(c):
    return c.self.path + lift(".") + c.winner_suffix


assumed("tt.adjust_path", result=NONE, modifies=["g.step"], raises={"Exception": "unchanged"},
        requires=lambda c: If(c.g.step == 0,
                              # the chosen helper gets the item's name (stays in its own directory)
                              And(c.args[0] == BaseName(c.self.path), c.args[1] == ParentTid(TidOfPath(winner_path(c))), c.args[2] == TidOfPath(winner_path(c))),
                              # the conflicted item gets the helper's name
                              And(c.g.step == 1, c.args[0] == BaseName(winner_path(c)), c.args[1] == ParentTid(TidOfId(c.self.file_id)),
                                  c.args[2] == TidOfId(c.self.file_id))),
        ensures=lambda c: c.g.step == c.old.g.step + 1)
assumed("tt.unversion_file", result=NONE, modifies=["g.step"], raises={"Exception": "unchanged"},
        requires=lambda c: And(c.g.step == 2, c.args[0] == TidOfId(c.self.file_id)), ensures=lambda c: c.g.step == 3)
assumed("tt.version_file", result=NONE, modifies=["g.step"], raises={"Exception": "unchanged"},
        requires=lambda c: And(c.g.step == 3, c.args[0] == TidOfPath(winner_path(c)), c.kw["file_id"] == c.self.file_id), ensures=lambda c: c.g.step == 4)
assumed("tt.apply", modifies=["g.step"], raises={"Exception": "unchanged"}, requires=lambda c: c.g.step == 4, ensures=lambda c: c.g.step == 5)
target("breezy/bzr/conflicts.py::TextConflict._resolve", params=dict(tt=ANY, winner_suffix=STR),
       requires=lambda c: c.g.step == 0,
       ensures={"the_chosen_side_replaces_the_item_and_the_transform_is_applied_last": lambda c: c.g.step == 5},
       raises={"Exception": True}, canary=lambda c: c.g.step == 0,
       note="take-this / take-other: the whole THIS or OTHER helper becomes the file (with the file id); the old content goes where the helper was")
