# C37 - conditional git ref updates honour the expected old value.
# Ghost ref store: loose ref files and packed refs, both maps name -> sha.

REFS = MapS(BYTES, BYTES)
ghost(loose=REFS, packed=REFS)
const("ZERO_SHA", b"0" * 40)
const("SYMREF", b"ref: ")
ZERO = lift(b"0" * 40)

RealName = ufunc("RealName", BYTES, BYTES)     # ghost: end of the symref chain starting at a name
FollowOk = ufunc("FollowOk", BYTES, BOOL)      # ghost: following the chain succeeds
Unq = ufunc("Unquote", ANY, BYTES)             # ghost: inverse of urlutils.quote_from_bytes

exceptions(SymrefLoop="Exception", NoSuchFile="Exception")

TRC = cls("TransportRefsContainer", fields=dict(transport=ANY, worktree_transport=ANY))


def cur(g, n):
    """Current value of ref n without following symrefs; ZERO_SHA when absent."""
    return If(In(n, g.loose), g.loose[n], If(In(n, g.packed), g.packed[n], ZERO))


def same_store(c):
    return And(c.g.loose == c.old.g.loose, c.g.packed == c.old.g.packed)


assumed("self._check_refname", pure=False, result=NONE, note="raises on an invalid name, changes nothing")
assumed("self.follow", result=Tup(Seq(BYTES), Opt(BYTES)),
        ensures=lambda c: And(Len(c.result[0]) >= 1, c.result[0][-1] == RealName(c.args[0]), FollowOk(c.args[0]),
                              c.result[1] == If(Or(In(RealName(c.args[0]), c.g.loose), In(RealName(c.args[0]), c.g.packed)),
                                                Opt(BYTES).some(cur(c.g, RealName(c.args[0]))), Opt(BYTES).none())),
        raises={"KeyError": lambda c: And(Not(FollowOk(c.args[0])), Not(In(c.args[0], c.g.loose)), Not(In(c.args[0], c.g.packed))),
                "SymrefLoop": lambda c: Not(FollowOk(c.args[0]))},
        note="follow() returns the chain of names and the sha at its end; KeyError only for a name that does not exist")
assumed("self.read_loose_ref", result=Opt(BYTES),
        ensures=lambda c: c.result == If(In(c.args[0], c.g.loose), Opt(BYTES).some(c.g.loose[c.args[0]]), Opt(BYTES).none()))
assumed("self.get_packed_refs", result=REFS, ensures=lambda c: c.result == c.g.packed)
assumed("self._ensure_dir_exists", result=NONE, note="creates directories only")
assumed("urlutils.quote_from_bytes", pure=True, ensures=lambda c: Unq(c.result) == c.args[0])
def right_transport(c):
    # HEAD lives in the working tree's control directory, every other ref in the repository's
    return eq(c.transport, If(Unq(c.args[0]) == b"HEAD", c.self.worktree_transport, c.self.transport))


assumed("transport.put_bytes", modifies=["g.loose"], result=NONE, requires=right_transport,
        ensures=lambda c: And(Len(c.args[1]) >= 1,
                              c.g.loose == mapstore(c.old.g.loose, Unq(c.args[0]), c.args[1][0:Len(c.args[1]) - 1])),
        note="atomic replace of the ref file (content = sha + newline); a failing write changes nothing")
assumed("transport.delete", modifies=["g.loose"], result=NONE,
        requires=right_transport,
        ensures=lambda c: And(In(Unq(c.args[0]), c.old.g.loose), c.g.loose == mapdel(c.old.g.loose, Unq(c.args[0]))),
        raises={"NoSuchFile": lambda c: And(Not(In(Unq(c.args[0]), c.old.g.loose)), c.g.loose == c.old.g.loose),
                "Exception": lambda c: c.g.loose == c.old.g.loose})
assumed("self._remove_packed_ref", modifies=["g.packed"], result=NONE,
        ensures=lambda c: c.g.packed == mapdel(c.old.g.packed, c.args[0]))

P = "breezy/git/transportgit.py::TransportRefsContainer."
EQUIV = {r"drop:Expr.*\| self\._check_refname\(": "name validation is outside the property: dropping it cannot make a stale expectation succeed",
         r"drop:Expr.*\| self\._ensure_dir_exists\(": "directory creation does not touch the ghost ref store; without it the write may fail, which the contract allows"}


def rn_of(c):
    n = c.old.name
    return If(FollowOk(n), RealName(n), n)


target(P + "set_if_equals",
       params=dict(name=BYTES, old_ref=Opt(BYTES), new_ref=BYTES), result=BOOL,
       modifies=["g.loose"],
       ensures={
           "stale_expectation_is_refused": lambda c: Implies(
               And(Not(c.old.old_ref.is_none), cur(c.old.g, rn_of(c)) != c.old.old_ref.val),
               And(c.result == False, same_store(c))),
           "success_writes_exactly_the_real_ref": lambda c: Implies(
               c.result, And(c.g.loose == mapstore(c.old.g.loose, rn_of(c), c.old.new_ref), c.g.packed == c.old.g.packed,
                             Or(c.old.old_ref.is_none, cur(c.old.g, rn_of(c)) == c.old.old_ref.val))),
           "refusal_changes_nothing": lambda c: Implies(Not(c.result), same_store(c)),
           "refused_only_when_stale": lambda c: Implies(
               Not(c.result), And(Not(c.old.old_ref.is_none), cur(c.old.g, rn_of(c)) != c.old.old_ref.val)),
       },
       raises={"Exception": lambda c: same_store(c)},
       canary=lambda c: c.result == True, equivalent_mutants=EQUIV)

target(P + "remove_if_equals",
       params=dict(name=BYTES, old_ref=Opt(BYTES)), result=BOOL,
       modifies=["g.loose", "g.packed"],
       ensures={
           "stale_expectation_is_refused": lambda c: Implies(
               And(Not(c.old.old_ref.is_none), cur(c.old.g, c.old.name) != c.old.old_ref.val),
               And(c.result == False, same_store(c))),
           "success_removes_exactly_the_ref": lambda c: Implies(
               c.result, And(c.g.loose == mapdel(c.old.g.loose, c.old.name), c.g.packed == mapdel(c.old.g.packed, c.old.name),
                             Or(c.old.old_ref.is_none, cur(c.old.g, c.old.name) == c.old.old_ref.val))),
           "refusal_changes_nothing": lambda c: Implies(Not(c.result), same_store(c)),
           "refused_only_when_stale": lambda c: Implies(
               Not(c.result), And(Not(c.old.old_ref.is_none), cur(c.old.g, c.old.name) != c.old.old_ref.val)),
       },
       raises={"Exception": lambda c: And(c.g.packed == c.old.g.packed,
                                          Or(c.g.loose == c.old.g.loose,
                                             And(c.g.loose == mapdel(c.old.g.loose, c.old.name),
                                                 Or(c.old.old_ref.is_none, cur(c.old.g, c.old.name) == c.old.old_ref.val))))},
       canary=lambda c: c.result == True, equivalent_mutants=EQUIV)

target(P + "add_if_new",
       params=dict(name=BYTES, ref=BYTES), result=BOOL,
       modifies=["g.loose"],
       ensures={
           "existing_ref_is_never_changed": lambda c: Implies(
               Or(In(rn_of(c), c.old.g.loose), In(rn_of(c), c.old.g.packed)), And(c.result == False, same_store(c))),
           "success_adds_the_ref": lambda c: Implies(
               c.result, And(c.g.loose == mapstore(c.old.g.loose, rn_of(c), c.old.ref), c.g.packed == c.old.g.packed)),
           "refusal_changes_nothing": lambda c: Implies(Not(c.result), same_store(c)),
           "refused_only_when_present": lambda c: Implies(
               Not(c.result), Or(In(rn_of(c), c.old.g.loose), In(rn_of(c), c.old.g.packed))),
       },
       raises={"Exception": lambda c: same_store(c)},
       canary=lambda c: c.result == True, equivalent_mutants=EQUIV)

assume_note("the ref store is only changed through transport.put_bytes / transport.delete / _remove_packed_ref; "
            "transport.put_bytes replaces the file atomically")
undecided("two updaters interleaving between the comparison and the write (no file lock is taken by TransportRefsContainer)")

# ---- the caller that pushes refs: every update is conditional on the snapshot taken before fetching
OLD_REFS = MapS(BYTES, Tup(Opt(BYTES), ANY))
assumed("self.target_refs.add_if_new", result=BOOL,
        requires=lambda c: Not(In(c.args[0], c.old_refs)),
        note="only for refs that were absent from the snapshot")
assumed("self.target_refs.set_if_equals", result=BOOL,
        requires=lambda c: And(In(c.args[0], c.old_refs), eq(c.args[1], c.old_refs[c.args[0]][0])),
        note="the expected value is the snapshot's value for that ref")
assumed("self.target_refs.set_symbolic_ref", result=NONE)
assumed("self.mapping.revision_id_foreign_to_bzr", pure=True)


def is_symref(c):
    return And(Len(c.old.gitid) >= 5, c.old.gitid[0:5] == lift(b"ref: "))


target("breezy/git/interrepo.py::InterToLocalGitRepository.fetch_refs",
       block=dict(stmt="If", contains=r"^\s*if gitid\.startswith\(SYMREF\)"),
       params=dict(old_refs=OLD_REFS, name=BYTES, gitid=BYTES, result_refs=MapS(BYTES, Tup(BYTES, ANY)), revid=ANY, lossy=BOOL),
       ensures={"conditional_on_snapshot": lambda c: If(
           is_symref(c),
           lift(c.calls("self.target_refs.set_if_equals") == 0 and c.calls("self.target_refs.add_if_new") == 0),
           If(In(c.old.name, c.old.old_refs),
              lift(c.calls("self.target_refs.set_if_equals") == 1 and c.calls("self.target_refs.add_if_new") == 0),
              lift(c.calls("self.target_refs.add_if_new") == 1 and c.calls("self.target_refs.set_if_equals") == 0)))},
       raises={"Exception": True},
       equivalent_mutants={r"drop:Expr.*set_symbolic_ref": "symbolic refs are not conditional updates: outside the property",
                           r"drop:Assign.*result_refs\[name\] = ": "the reported result map is outside the property"},
       note="block contract: the per-ref update inside the loop of fetch_refs")
