# C26 - directory locks: breaking removes only the examined holder's lock; stealing only from holders known dead and with the policy on.
include("_lockdir_model.py")

KnownDead = ufunc("KnownDead", INFO, BOOL)       # src/lockdir.rs LockHeldInfo.is_lock_holder_known_dead (Rust, assumed)
StealDead = ufunc("StealDead", BOOL)             # the locks.steal_dead option of this lock's configuration

def observed(g):
    return If(And(g.held, Not(g.hinfo.is_none)), g.hinfo, Opt(INFO).none())


assumed("self.peek", pure=True, result=Opt(INFO), ensures=lambda c: c.result == observed(c.g),
        raises={"Exception": None}, note="reads held/info; None when there is no lock; may fail (corrupt file, transport error)")
assumed("self._read_info_file", pure=True, result=INFO,
        ensures=lambda c: Implies(In(c.tmpname, c.g.pinfo), c.result == c.g.pinfo[c.tmpname]) if c.has("tmpname") else TRUE,
        raises={"Exception": None}, note="parses the info file of the directory just moved away")
Raw = ufunc("Raw", INFO, BYTES)                  # the bytes of an info file
assumed("self.transport.get_bytes", pure=True, result=BYTES,
        ensures=lambda c: And(In(c.tmpname, c.g.pinfo), c.result == Raw(c.g.pinfo[c.tmpname])) if c.has("tmpname") else TRUE,
        raises={"Exception": None}, note="returns the bytes of the info file of the directory just moved away, or fails")
instance_of(INFO, "LockHeldInfo")
assumed("other_holder.is_lock_holder_known_dead", pure=True, no_raise=True, returns=lambda c: KnownDead(c.other_holder.val),
        note="Rust: true only when the recorded host and user are ours and the recorded process no longer exists")
assumed("self.get_config().get", pure=True, no_raise=True, returns=lambda c: StealDead())
assumed("ui.ui_factory.show_user_warning", pure=True, no_raise=True, result=NONE)
pure("lock.LockResult", "self.transport.abspath", "urlutils.join", "str", "rand_chars")

P = "breezy/lockdir.py::LockDir."
LOG_EQUIV = {r"_trace\(|rand_chars\(|lock\.LockResult|\.nonce": "tracing, random names and result objects: outside the property",
             r"drop:Expr.*\| hook\(result\)": "lock_broken hooks are notifications: outside the property",
             r"drop:Expr.*\| ui\.ui_factory\.show_": "user messages: outside the property"}

CHECK = verified(("LockDir", "_check_not_locked"), pure=True, result=NONE,
                 ensures=lambda c: Not(c.self._lock_held), raises={"AssertionError": lambda c: c.self._lock_held})
target(P + "_check_not_locked", contract=CHECK, modifies=[], canary=lambda c: c.self._lock_held)


def untouched(c):
    return And(c.g.held == c.old.g.held, c.g.hinfo == c.old.g.hinfo, c.g.pend == c.old.g.pend, mapeq(c.g.pinfo, c.old.g.pinfo))


def broke_examined(c, info):
    """The lock that was there carried exactly `info`, and it is gone now; nothing else changed."""
    return And(c.old.g.held, Not(c.old.g.hinfo.is_none), eq(c.old.g.hinfo.val, info), Not(c.g.held))


FB_MOD = ["g.held", "g.hinfo", "g.pend", "g.pinfo"]
FB = verified(("LockDir", "force_break"), params=["dead_holder_info"], modifies=FB_MOD,
              ensures=lambda c: And(crash_ok(c.g),
                                    If(c.result.is_none if hasattr(c.result, "is_none") else eq(c.result, None),
                                       And(untouched(c), eq(observed(c.old.g), None)),
                                       And(broke_examined(c, c.dead_holder_info), c.g.pend == c.old.g.pend, mapeq(c.g.pinfo, c.old.g.pinfo)))),
              raises={"LockBreakMismatch": "unchanged", "AssertionError": "unchanged", "ValueError": "unchanged",
                      "Exception": lambda c: And(crash_ok(c.g),
                                                 # whatever went wrong, a lock other than the examined one is never taken away
                                                 Or(c.g.held == c.old.g.held, broke_examined(c, c.dead_holder_info)))})

target(P + "force_break", params=dict(dead_holder_info=INFO), contract=FB,
       requires=lambda c: crash_ok(c.g),
       loops={1: loop(r"for hook in self\.hooks\[", lambda c: TRUE)},
       ensures={"nothing_to_break_changes_nothing": lambda c: Implies(eq(observed(c.old.g), None), And(untouched(c), eq(c.result, None))),
                "breaks_exactly_the_examined_lock": lambda c: Implies(Not(eq(observed(c.old.g), None)),
                                                                      And(broke_examined(c, c.old.dead_holder_info),
                                                                          c.g.pend == c.old.g.pend, mapeq(c.g.pinfo, c.old.g.pinfo))),
                "rename_only_after_the_holder_was_compared": lambda c: lift(
                    c.calls("self.transport.rename") <= 1 and c.before("self.peek", "self.transport.rename")),
                "own_lock_is_never_broken": lambda c: Not(c.old.self._lock_held),
                "recoverable": lambda c: crash_ok(c.g)},
       raises={"LockBreakMismatch": lambda c: And(untouched(c), Not(eq(observed(c.old.g), None)),
                                                  Not(eq(c.old.g.hinfo.val, c.old.dead_holder_info))),
               "AssertionError": lambda c: And(untouched(c), c.old.self._lock_held),
               "ValueError": lambda c: FALSE,      # the argument is a LockHeldInfo (precondition): never refused as malformed
               "Exception": lambda c: And(crash_ok(c.g), Or(untouched(c), broke_examined(c, c.old.dead_holder_info)))},
       canary=lambda c: c.g.held, equivalent_mutants=LOG_EQUIV)

# ---- the same function when other processes may act between our read and our rename (rely: they release and take the lock at will,
#      always leaving a well-formed lock directory). The statement: "never the lock of a later holder".
PEEK_RELY = assumed("self.peek", local=True, result=Opt(INFO), modifies=["g.held", "g.hinfo"],
                    ensures=lambda c: And(c.result == observed(c.old.g), crash_ok(c.g)),
                    raises={"Exception": "unchanged"},
                    note="RELY: after held/info was read, other processes may release the lock and a later holder may take it")
target(P + "force_break", variant="rely", params=dict(dead_holder_info=INFO), local_contracts=[PEEK_RELY],
       requires=lambda c: crash_ok(c.g),
       loops={1: loop(r"for hook in self\.hooks\[", lambda c: TRUE)},
       ensures={"a_reported_break_removed_the_examined_holder": lambda c: Implies(
                    Not(eq(c.result, None)), lift(c.calls("self.transport.rename") == 1))},
       raises={"LockBreakMismatch": lambda c: lift(c.calls("self.transport.rename") == 0),
               "AssertionError": lambda c: lift(c.calls("self.transport.rename") == 0),
               "ValueError": lambda c: lift(c.calls("self.transport.rename") == 0),
               "Exception": lambda c: crash_ok(c.g)},
       skip_mutants=True,
       note="a refusal (LockBreakMismatch) must not have moved anybody's lock away: fails for the re-check after the rename (finding F4)")

# ---- force_break_corrupt: the moved directory is deleted only if its content is the examined (corrupt) content
target(P + "force_break_corrupt", params=dict(corrupt_info_content=BYTES),
       requires=lambda c: crash_ok(c.g),
       loops={1: loop(r"for hook in self\.hooks\[", lambda c: TRUE)},
       ensures={"content_compared_before_deleting": lambda c: lift(c.before("self.transport.get_bytes", "self.transport.delete")),
                "own_lock_is_never_broken": lambda c: Not(c.old.self._lock_held),
                "lock_gone": lambda c: And(c.old.g.held, Not(c.g.held)),
                "only_the_examined_content_is_discarded": lambda c: And(Not(c.old.g.hinfo.is_none),
                                                                        Raw(c.old.g.hinfo.val) == c.old.corrupt_info_content),
                "nothing_left_behind": lambda c: And(c.g.pend == c.old.g.pend, mapeq(c.g.pinfo, c.old.g.pinfo))},
       raises={"AssertionError": lambda c: And(untouched(c), c.old.self._lock_held),
               "LockBreakMismatch": lambda c: lift(c.calls("self.transport.delete") == 0),
               "Exception": lambda c: crash_ok(c.g)},
       canary=lambda c: c.g.held, equivalent_mutants=LOG_EQUIV)

# ---- contention: stealing only from a holder known dead, only with the policy on, and only that holder's lock
HLC = verified(("LockDir", "_handle_lock_contention"), params=["other_holder"], result=NONE, modifies=FB_MOD,
               ensures=lambda c: And(crash_ok(c.g), Not(eq(c.other_holder, None))),
               raises={"LockContention": "unchanged", "Exception": lambda c: crash_ok(c.g)})
target(P + "_handle_lock_contention", params=dict(other_holder=Opt(INFO)),
       requires=lambda c: And(crash_ok(c.g), Not(c.self._lock_held)),
       ensures={"steals_only_from_the_dead_with_policy": lambda c: And(
                    Not(c.old.other_holder.is_none), KnownDead(c.old.other_holder.val), truthy(StealDead()),
                    lift(c.calls("LockDir.force_break") == 1)),
                "steals_only_the_examined_holders_lock": lambda c: Or(
                    untouched(c), And(broke_examined(c, c.old.other_holder.val), c.g.pend == c.old.g.pend, mapeq(c.g.pinfo, c.old.g.pinfo))),
                "recoverable": lambda c: crash_ok(c.g)},
       raises={"LockContention": lambda c: And(untouched(c), lift(c.calls("LockDir.force_break") == 0)),
               "LockBreakMismatch": untouched,
               # nothing but a failing break attempt makes the handler fail in any other way
               "Exception": lambda c: And(crash_ok(c.g), Or(c.g.held == c.old.g.held, broke_examined(c, c.old.other_holder.val)),
                                          lift(c.calls("LockDir.force_break", failed=True) == 1))},
       canary=lambda c: Not(KnownDead(c.old.other_holder.val)),
       equivalent_mutants=dict(LOG_EQUIV, **{r"cmp0:IsNot@L\d+:\d+ \| if other_holder is not None and":
                                             "with `is None` the handler never steals (it fails for None, reports contention otherwise): "
                                             "stricter than the statement, which only restricts when stealing may happen"}))

undecided("mutual exclusion over interleavings of several lockers (schedules): only the sequential contracts and one declared rely point are decided")
undecided("is_lock_holder_known_dead itself (src/lockdir.rs, Rust): assumed to answer true only for a dead process of our host and user")
undecided("break_lock (interactive UI wrapper around force_break)")
