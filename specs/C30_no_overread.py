# C30 - a smart server never waits for bytes beyond the current request: what the decoder asks for next never reaches past the end
# of the message (length-prefixed bodies, protocol v1/v2), and is positive while the message is incomplete.
include("_lpd_model.py")
include("_p3_model.py")
LP = "LengthPrefixedBodyDecoder"


def end_of_message():
    return Len(Pre()) + 1 + Len(Body()) + 5


target(D + LP + ".next_read_size", result=INT, modifies=[],
       requires=lambda c: And(wf_message(), R(c.self, c.g.taken)),
       ensures={"asks_for_something_while_incomplete": lambda c: Implies(Not(c.self.finished_reading), c.result >= 1),
                "never_past_the_end_of_the_message": lambda c: Implies(Not(c.self.finished_reading),
                                                                      delivered(c.self) + c.result <= end_of_message()),
                "exactly_the_rest_once_the_length_is_known": lambda c: Implies(
                    And(Not(c.self.finished_reading), c.self.state_accept != "_state_accept_expecting_length"),
                    delivered(c.self) + c.result == end_of_message())},
       raises={}, canary=lambda c: c.result == 1,
       equivalent_mutants={r"_state_accept_expecting_length": "asking for 1 instead of 6 bytes before the length is known reads less at a time; "
                                                              "what is asked after the message is complete is outside the statement"})

lemma("finished_exactly_when_the_whole_message_was_delivered",
      [("st", STATES), ("fin", BOOL), ("dl", INT), ("tl", INT), ("k", INT), ("ul", INT), ("bl", INT)],
      lambda st, fin, dl, tl, k, ul, bl: [
          # the arithmetic content of R: delivered as a function of the state, and the resting conditions
          bl >= 0, tl >= 0, ul >= 0, Len(Pre()) >= 1,
          fin == (st == "_state_accept_reading_unused"),
          dl == If(st == "_state_accept_expecting_length", bl,
                   If(st == "_state_accept_reading_body", Len(Pre()) + 1 + Len(Body()) - k + bl,
                      If(st == "_state_accept_reading_trailer", Len(Pre()) + 1 + Len(Body()) + tl + bl, end_of_message() + ul + bl))),
          Implies(st == "_state_accept_expecting_length", bl <= Len(Pre())),
          Implies(st == "_state_accept_reading_body", And(bl == 0, k > 0)),
          Implies(st == "_state_accept_reading_trailer", And(bl == 0, tl < 5))],
      lambda st, fin, dl, tl, k, ul, bl: fin == (dl >= end_of_message()),
      note="with the resting invariant: finished_reading is set exactly when everything up to and including 'done\\n' has been delivered")

lemma("a_buffer_without_newline_is_still_inside_the_length_prefix", [("b", BYTES)],
      lambda b: [Len(b) <= Len(msg()), b == msg()[0:Len(b)], Not(In(NL, b))],
      lambda b: Len(b) <= Len(Pre()),
      note="the hypothesis bl <= Len(Pre) of the lemma above follows from the invariant in the expecting-length state")

# ---- protocol v3: the decoder asks for exactly what completes the current part and for nothing once 'e' has arrived
include("_p3_targets.py")

undecided("the pipe medium's read loop (_serve_one_request_unguarded) and the chunked body decoder: not under contract in this build")

# ---- the client side: ConventionalResponseHandler._read_more asks the medium for exactly what the decoder says it still needs - never
#      more - and stops reading once the decoder reports the end of the message
NextSize = ufunc("NextSize", INT)
CRH = cls("ConventionalResponseHandler", fields={"finished_reading": BOOL, "_protocol_decoder": ANY, "_medium_request": ANY})
exceptions(ConnectionResetError="Exception")
assumed("self._protocol_decoder.next_read_size", pure=True, returns=lambda c: NextSize(), raises={"Exception": None},
        note="ProtocolThreeDecoder.next_read_size, under contract above")
assumed("self._medium_request.finished_reading", result=NONE, raises={"Exception": "unchanged"})
assumed("self._medium_request.read_bytes", result=BYTES, raises={"Exception": "unchanged"},
        requires=lambda c: And(c.args[0] == NextSize(), NextSize() != 0),
        note="reads AT MOST the requested number of bytes from the connection (medium: not under contract)")
assumed("self._protocol_decoder.accept_bytes", result=NONE, raises={"Exception": "unchanged"})
assumed("debug.debug_flag_enabled", pure=True, no_raise=True, result=BOOL)
assumed(rx(r"_get_in_buffer\(\)"), pure=True, no_raise=True)
pure("mutter")
target("breezy/bzr/smart/message.py::ConventionalResponseHandler._read_more", locals=dict(data=BYTES, next_read_size=INT),
       modifies=["self.finished_reading"],
       ensures={"reads_exactly_what_the_decoder_asked_for_or_stops": lambda c: If(
           NextSize() == 0,
           And(c.self.finished_reading, lift(c.calls("self._medium_request.read_bytes") == 0 and c.calls("self._medium_request.finished_reading") == 1)),
           And(c.self.finished_reading == c.old.self.finished_reading, (Len(c.data) > 0) if c.has("data") else FALSE,      # (an empty read is the end of the connection: refused)
               lift(c.calls("self._medium_request.read_bytes") == 1 and c.calls("self._protocol_decoder.accept_bytes") == 1)))},
       raises={"ConnectionResetError": lambda c: lift(c.calls("self._medium_request.read_bytes") == 1 and c.calls("self._protocol_decoder.accept_bytes") == 0),
               "Exception": True},
       canary=lambda c: c.self.finished_reading,
       equivalent_mutants={r"debug_flag_enabled|mutter|_get_in_buffer\(\)\[:10\]|state_accept\.__name__": "debug tracing"},
       note="the client never asks the connection for more than the decoder's hint")
