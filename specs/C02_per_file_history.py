# C02 - per-file history: for every entry a commit records, the per-file parents are exactly the heads among the versions the entry has
# in the revision's parents, and an entry is carried over (keeps its last-changed revision) only from the single head and only if kind,
# parent directory and name are unchanged against that head (content and executable bit are compared by the per-kind code that follows).
# Block contract on the real statements of VersionedFileCommitBuilder.record_iter_changes (one change of the loop over `changes`).
IE = Opaque("InventoryEntry")
always_truthy(IE, "inventory entries define neither __bool__ nor __len__")
attr_sort("InventoryEntry.kind", STR)
attr_sort("InventoryEntry.parent_id", Opt(BYTES))
attr_sort("InventoryEntry.name", STR)
CHG = Opaque("Change")
attr_sort("Change.file_id", BYTES)
attr_sort("Change.kind", Tup(Opt(STR), Opt(STR)))
attr_sort("Change.name", Tup(Opt(STR), Opt(STR)))
attr_sort("Change.parent_id", Tup(Opt(BYTES), Opt(BYTES)))
REVS = Seq(BYTES)
ghost(hs=SetS(BYTES))      # what the per-file graph answered: the heads among the candidate versions
assumed("self._heads", result=SetS(BYTES), modifies=["g.hs"],
        ensures=lambda c: And(c.result == c.g.hs, forall([BYTES], lambda x: Implies(In(x, c.g.hs), In(x, c.args[1])))),
        raises={"Exception": None},
        note="graph heads of the candidate versions in the per-file graph (vcsgraph KnownGraph / Graph.heads: external); a subset of the candidates")
CBX = cls("VersionedFileCommitBuilder", fields={})
PE = MapS(BYTES, MapS(BYTES, IE))


B = "breezy/bzr/vf_repository.py::VersionedFileCommitBuilder.record_iter_changes"
target(B, block=(r"^\s*head_set = self\._heads\(", r"(?m)^\s*if len\(heads\) == 1:$"),
       params=dict(change=CHG, head_candidates=REVS, parent_entries=PE, kind=Opt(STR), file_id=BYTES, entry_name=Opt(STR),
                   entry_parent_id=Opt(BYTES)),
       locals=dict(heads=REVS, head_set=SetS(BYTES), carry_over_possible=BOOL, carried_over=BOOL, parent_entry=Opt(IE),
                   parent_entry_revs=Opt(MapS(BYTES, IE))),
       requires=lambda c: c.file_id == attr(c.change, "file_id"),
       loops={7: loop(r"for head_candidate in head_candidates", index="m", prefix="seen",
                      hints=lambda c: Implies(And(0 <= c.m, c.m < Len(c.head_candidates)), forall([BYTES], lambda x: In(x, c.head_candidates[0:c.m + 1]) == Or(
                          In(x, c.head_candidates[0:c.m]), x == c.head_candidates[c.m]))),
                      inv=lambda c: And(
                          c.head_candidates == c.old.head_candidates,
                          forall([BYTES], lambda x: In(x, c.heads) == And(In(x, HS(c)), In(x, c.seen))),
                          forall([BYTES], lambda x: In(x, c.head_set) == And(In(x, HS(c)), Not(In(x, c.seen))))))},
       ensures={"per_file_parents_are_exactly_the_heads_of_the_parent_versions": lambda c:
                    forall([BYTES], lambda x: In(x, c.heads) == In(x, HS(c))),
                "carried_over_only_from_the_single_head_with_unchanged_metadata": lambda c: c.carry_over_possible == And(
                    Len(c.heads) == 1, has_parent_entry(c),
                    eq(Opt(STR).some(attr(parent_entry_of(c), "kind")), c.old.kind),
                    eq(attr(parent_entry_of(c), "parent_id"), c.old.entry_parent_id),
                    eq(Opt(STR).some(attr(parent_entry_of(c), "name")), c.old.entry_name)),
                "not_yet_carried_over": lambda c: Not(c.carried_over)},
       raises={"Exception": True},
       canary=lambda c: c.carry_over_possible,
       note="block: per-file parents and the carry-over decision for one changed entry")


def HS(c):
    return c.g.hs


def has_parent_entry(c):
    pe, f = c.old.parent_entries, c.old.file_id
    return And(In(f, pe), In(c.heads[0], pe[f]))


def parent_entry_of(c):
    return c.old.parent_entries[c.old.file_id][c.heads[0]]


# ---- PackCommitBuilder._heads: the answer is computed in the per-file graph OF THE FILE ASKED ABOUT, afresh for every question
KEY = Tup(BYTES, BYTES)
GraphHeads = ufunc("GraphHeads", Seq(KEY), SetS(KEY))      # vcsgraph heads() of the given (file id, revision) keys
PCB = cls("PackCommitBuilder", fields={"_file_graph": ANY})
assumed("self._file_graph.heads", pure=True, returns=lambda c: GraphHeads(c.args[0]), raises={"Exception": None})
target("breezy/bzr/pack_repo.py::PackCommitBuilder._heads", params=dict(file_id=BYTES, revision_ids=SetS(BYTES)), result=SetS(BYTES),
       locals=dict(keys=Seq(KEY)), modifies=[],
       ensures={"heads_of_exactly_this_files_versions": lambda c: exists([Seq(KEY)], lambda ks: And(
           forall([KEY], lambda k: In(k, ks) == And(k[0] == c.old.file_id, In(k[1], c.old.revision_ids))),
           forall([BYTES], lambda x: In(x, c.result) == exists([KEY], lambda k: And(In(k, GraphHeads(ks)), k[1] == x)))))},
       raises={"Exception": True}, canary=lambda c: c.result == SetS(BYTES).empty(),
       note="no state is kept between questions: the result is a function of the file id and the candidate revisions")

undecided("how the candidate versions are gathered from the parent inventories (make_inventory_delta over external inventories), the per-kind "
          "content / executable comparison that follows the block, and the heads computation itself (vcsgraph, external)")
undecided("the repository consistency check (_VersionedFileChecker) and reconcile: exercised natively by the replay scenarios only")
