# Shared model of ProtocolThreeDecoder (smart protocol v3 framing), used by C29 and C30.
# v3 messages are a sequence of parts, each introduced by a kind byte: 'o' + one byte, 'b' + 4-byte big-endian length + bytes,
# 's' + 4-byte length + bencoded structure, 'e' = end of message. Contracts are stated per part, relative to the input buffer:
# how many bytes a step takes out of the buffer, what it hands to the message handler, and in which decoder state the handler runs.
P3STATES = Enum("P3State", ["_state_accept_expecting_protocol_version", "_state_accept_expecting_headers",
                            "_state_accept_expecting_message_part", "_state_accept_expecting_one_byte",
                            "_state_accept_expecting_bytes", "_state_accept_expecting_structure", "_state_accept_reading_unused"])
P3 = cls("ProtocolThreeDecoder",
         fields={"_in_buffer_list": Seq(BYTES), "_in_buffer_len": INT, "unused_data": BYTES, "state_accept": P3STATES,
                 "_number_needed_bytes": Opt(INT), "decoding_failed": BOOL, "message_handler": ANY, "_has_dispatched": BOOL,
                 "finished_reading": BOOL, "bytes_left": Opt(INT)})
U32 = ufunc("U32", BYTES, INT)                 # struct.unpack('!L', four bytes)[0]
Bdec = ufunc("Bdec", BYTES, ANY)               # bdecode_as_tuple (bencode, Rust extension): assumed a function of the bytes
ghost(needed=INT)
assumed("struct.unpack", pure=True, no_raise=True, result=Tup(INT), requires=lambda c: Len(c.args[1]) == 4,
        ensures=lambda c: And(c.result[0] == U32(c.args[1]), U32(c.args[1]) >= 0),
        note="struct.unpack('!L', b) of exactly four bytes: one unsigned integer")
assumed("bdecode_as_tuple", pure=True, returns=lambda c: Bdec(c.args[0]), raises={"ValueError": None})
assumed("_NeedMoreBytes", pure=False, no_raise=True, modifies=["g.needed"], ensures=lambda c: c.g.needed == c.args[0],
        note="the exception object carries the byte count it was built with (ghost: g.needed)")
exc_attr("count", lambda c: c.g.needed)
pure("sys.exc_info", "isinstance")
exceptions(SmartMessageHandlerError="Exception", SmartProtocolError="Exception", UnexpectedProtocolVersionMarker="Exception")
P3D = "breezy/bzr/smart/protocol.py::ProtocolThreeDecoder."
P3N = "ProtocolThreeDecoder"
P3MOD = ["self._in_buffer_list", "self._in_buffer_len"]


def p3buf(s):
    return JoinB(s._in_buffer_list)


def p3ok(s):
    return s._in_buffer_len == Len(p3buf(s))


def part_len(b):
    """length of a length-prefixed part at the head of buffer b (needs Len(b) >= 4)"""
    return 4 + U32(b[0:4])


def at_boundary_after(c, n):
    """the decoder has taken exactly n bytes out of the buffer and waits for the next part"""
    return And(p3ok(c.self), p3buf(c.self) == p3buf(c.old.self)[n:Len(p3buf(c.old.self))],
               c.self.state_accept == "_state_accept_expecting_message_part")


def untouched_needing(c, n):
    return And(p3ok(c.self), p3buf(c.self) == p3buf(c.old.self), c.self.state_accept == c.old.self.state_accept, c.g.needed == n)
