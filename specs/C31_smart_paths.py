# C31 - client paths are translated to locations inside the served directory (or refused).
Dec8 = ufunc("Dec8", BYTES, STR)
JoinPath = ufunc("JoinPath", STR, STR, STR)    # urlutils.joinpath(base, *args): normalised join, raises when '..' would climb above the base
Escape = ufunc("Escape", STR, STR)             # urlutils.escape
Unescape = ufunc("Unescape", STR, STR)
exceptions(ValueError="Exception", PathNotChild="Exception", InvalidURLJoin="Exception", UnicodeDecodeError="ValueError")
REQ = cls("SmartServerRequest", fields={"_root_client_path": Opt(STR), "_backing_transport": ANY, "_jail_root": Opaque("Transport")})
cls("VfsRequest", fields={"_root_client_path": Opt(STR), "_backing_transport": ANY})
assumed("client_path.decode", pure=True, returns=lambda c: Dec8(c.client_path), raises={"UnicodeDecodeError": None})
assumed("urlutils.joinpath", pure=True, returns=lambda c: JoinPath(c.args[0], c.args[1]), raises={"InvalidURLJoin": None},
        note="dromedary.urlutils.joinpath: joins and normalises; a '..' that would leave the base raises InvalidURLJoin (assumed)")
assumed("urlutils.escape", pure=True, no_raise=True, returns=lambda c: Escape(c.args[0]))
assumed("urlutils.unescape", pure=True, returns=lambda c: Unescape(c.args[0]), raises={"Exception": None})
pure("str")
P = "breezy/bzr/smart/request.py::SmartServerRequest."


def startswith(s, p):
    return StartsWith(s, p)


def slashed(cp):
    return If(startswith(cp, lift("/")), cp, lift("/") + cp)


def translated(root, cp0, res):
    """with a root client path: '.', or the escaped './<normalised path below the root>'"""
    cp = slashed(cp0)
    tail = cp[Len(root):Len(cp)]
    return If(cp + lift("/") == root, res == lift("."),
              And(startswith(cp, root), startswith(JoinPath(lift("/"), tail), lift("/")),
                  res == Escape(lift(".") + JoinPath(lift("/"), tail))))


TCP = verified(("SmartServerRequest", "translate_client_path"), params=["client_path"], pure=True, result=STR,
               ensures=lambda c: If(c.self._root_client_path.is_none, c.result == Dec8(c.client_path),
                                    translated(c.self._root_client_path.val, Dec8(c.client_path), c.result)),
               raises={"PathNotChild": None, "ValueError": None, "Exception": None})
target(P + "translate_client_path", params=dict(client_path=BYTES), result=STR, modifies=[],
       ensures={"inside_the_root_or_dot": lambda c: If(c.self._root_client_path.is_none, c.result == Dec8(c.old.client_path),
                                                       translated(c.self._root_client_path.val, Dec8(c.old.client_path), c.result))},
       raises={"PathNotChild": lambda c: And(Not(c.self._root_client_path.is_none),
                                             Not(startswith(slashed(Dec8(c.old.client_path)), c.self._root_client_path.val))),
               "ValueError": True, "InvalidURLJoin": lambda c: Not(c.self._root_client_path.is_none), "UnicodeDecodeError": True},
       canary=lambda c: c.result == lift("."))

assumed("self._backing_transport.clone", raises={"Exception": "unchanged"},
        # the backing transport is only ever cloned at a translated path
        requires=lambda c: If(c.self._root_client_path.is_none, c.args[0] == Dec8(c.client_path),
                              translated(c.self._root_client_path.val, Dec8(c.client_path), c.args[0])))
target(P + "transport_from_client_path", params=dict(client_path=BYTES), modifies=[],
       ensures={"one_clone": lambda c: lift(c.calls("self._backing_transport.clone") == 1)},
       raises={"Exception": True}, canary=lambda c: lift(c.calls("self._backing_transport.clone") == 0))

# ---- the jail: opening a control directory outside the allowed transports fails. Containment is decided by the transport's own
#      relpath (dromedary, external): it succeeds exactly for URLs at or below the transport's base, component-wise.
TRANS = Opaque("Transport")
attr_sort("Transport.base", STR)
Below = ufunc("Below", TRANS, STR, BOOL)       # the URL is the transport's base or lies below it (whole path components)
JAIL = cls("JailInfo", fields={"transports": Opt(Seq(TRANS))})
exceptions(JailBreak="Exception")
assumed("allowed_transport.relpath", pure=True, result=STR, ensures=lambda c: Below(c.allowed_transport, c.args[0]),
        raises={"PathNotChild": lambda c: Not(Below(c.allowed_transport, c.args[0])), "Exception": lambda c: Not(Below(c.allowed_transport, c.args[0]))},
        note="dromedary Transport.relpath: returns for a URL at or below self.base (component-wise), raises PathNotChild (or, for "
             "local transports, InvalidURL) otherwise - assumed")
A0 = ufunc("A0", TRANS)                         # an arbitrary allowed transport (skolem constant)


def none_allows(c, upto):
    """no allowed transport among the first `upto` contains the URL being opened"""
    ts = c.old.jail_info.transports.val
    return forall([INT], lambda j: Implies(And(0 <= j, j < upto), Not(Below(ts[j], attr(c.old.transport, "base")))))


target("breezy/bzr/smart/request.py::_pre_open_hook", params=dict(transport=TRANS, jail_info=JAIL), modifies=[],
       loops={1: loop(r"for allowed_transport in allowed_transports", index="i", inv=lambda c: none_allows(c, c.i))},
       ensures={"opens_only_inside_the_jail": lambda c: Or(
                    c.old.jail_info.transports.is_none,
                    exists([INT], lambda j: And(0 <= j, j < Len(c.old.jail_info.transports.val),
                                                Below(c.old.jail_info.transports.val[j], attr(c.old.transport, "base")))))},
       raises={"JailBreak": lambda c: And(Not(c.old.jail_info.transports.is_none), none_allows(c, Len(c.old.jail_info.transports.val))),
               # a failing containment test never lets the open through (it may surface as the transport's own error)
               "Exception": lambda c: Not(c.old.jail_info.transports.is_none)},
       canary=lambda c: c.old.jail_info.transports.is_none,
       note="with a jail set, the hook returns only if some allowed transport contains the URL; otherwise JailBreak")

target(P + "setup_jail", params=dict(jail_info=JAIL), modifies=["jail_info.transports"],
       ensures={"the_jail_is_exactly_the_jail_root": lambda c: And(Not(c.jail_info.transports.is_none),
                                                                  c.jail_info.transports.val == lift([c.self._jail_root], Seq(TRANS)))},
       canary=lambda c: c.jail_info.transports.is_none)

undecided("the case without a root client path: containment then rests entirely on the chroot decorator and the jail (dromedary, external)")
undecided("urlutils.joinpath / escape and Transport.relpath themselves (dromedary), home-directory expansion in the server factory, "
          "that the pre-open hook is installed and the jail set up around every request (call sites of setup_jail)")
