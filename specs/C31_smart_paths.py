# C31 - client paths are translated to locations inside the served directory (or refused).
Dec8 = ufunc("Dec8", BYTES, STR)
JoinPath = ufunc("JoinPath", STR, STR, STR)    # urlutils.joinpath(base, *args): normalised join, raises when '..' would climb above the base
Escape = ufunc("Escape", STR, STR)             # urlutils.escape
Unescape = ufunc("Unescape", STR, STR)
exceptions(ValueError="Exception", PathNotChild="Exception", InvalidURLJoin="Exception", UnicodeDecodeError="ValueError")
REQ = cls("SmartServerRequest", fields={"_root_client_path": Opt(STR), "_backing_transport": ANY})
cls("VfsRequest", fields={"_root_client_path": Opt(STR), "_backing_transport": ANY})
assumed("client_path.decode", pure=True, returns=lambda c: Dec8(c.client_path), raises={"UnicodeDecodeError": None})
assumed("urlutils.joinpath", pure=True, returns=lambda c: JoinPath(c.args[0], c.args[1]), raises={"InvalidURLJoin": None},
        note="dromedary.urlutils.joinpath: joins and normalises; a '..' that would leave the base raises InvalidURLJoin (assumed)")
assumed("urlutils.escape", pure=True, no_raise=True, returns=lambda c: Escape(c.args[0]))
assumed("urlutils.unescape", pure=True, returns=lambda c: Unescape(c.args[0]), raises={"Exception": None})
pure("str")
P = "breezy/bzr/smart/request.py::SmartServerRequest."


def startswith(s, p):
    return StartsWith(s, p)


def slashed(cp):
    return If(startswith(cp, lift("/")), cp, lift("/") + cp)


def translated(root, cp0, res):
    """with a root client path: '.', or the escaped './<normalised path below the root>'"""
    cp = slashed(cp0)
    tail = cp[Len(root):Len(cp)]
    return If(cp + lift("/") == root, res == lift("."),
              And(startswith(cp, root), startswith(JoinPath(lift("/"), tail), lift("/")),
                  res == Escape(lift(".") + JoinPath(lift("/"), tail))))


TCP = verified(("SmartServerRequest", "translate_client_path"), params=["client_path"], pure=True, result=STR,
               ensures=lambda c: If(c.self._root_client_path.is_none, c.result == Dec8(c.client_path),
                                    translated(c.self._root_client_path.val, Dec8(c.client_path), c.result)),
               raises={"PathNotChild": None, "ValueError": None, "Exception": None})
target(P + "translate_client_path", params=dict(client_path=BYTES), result=STR, modifies=[],
       ensures={"inside_the_root_or_dot": lambda c: If(c.self._root_client_path.is_none, c.result == Dec8(c.old.client_path),
                                                       translated(c.self._root_client_path.val, Dec8(c.old.client_path), c.result))},
       raises={"PathNotChild": lambda c: And(Not(c.self._root_client_path.is_none),
                                             Not(startswith(slashed(Dec8(c.old.client_path)), c.self._root_client_path.val))),
               "ValueError": True, "InvalidURLJoin": lambda c: Not(c.self._root_client_path.is_none), "UnicodeDecodeError": True},
       canary=lambda c: c.result == lift("."))

assumed("self._backing_transport.clone", raises={"Exception": "unchanged"},
        # the backing transport is only ever cloned at a translated path
        requires=lambda c: If(c.self._root_client_path.is_none, c.args[0] == Dec8(c.client_path),
                              translated(c.self._root_client_path.val, Dec8(c.client_path), c.args[0])))
target(P + "transport_from_client_path", params=dict(client_path=BYTES), modifies=[],
       ensures={"one_clone": lambda c: lift(c.calls("self._backing_transport.clone") == 1)},
       raises={"Exception": True}, canary=lambda c: lift(c.calls("self._backing_transport.clone") == 0))

undecided("the case without a root client path: containment then rests entirely on the chroot decorator and the jail (dromedary, external)")
undecided("urlutils.joinpath / escape themselves (dromedary), _pre_open_hook and setup_jail, home-directory expansion in the server factory")
