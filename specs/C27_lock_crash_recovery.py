# C27 - lock operations leave recoverable state at every crash point.
include("_lockdir_model.py")

assumed("self.peek", pure=True, result=Opt(INFO),
        ensures=lambda c: c.result == If(And(c.g.held, Not(c.g.hinfo.is_none)), c.g.hinfo, Opt(INFO).none()),
        raises={"Exception": None}, note="reads held/info; None when there is no lock; may fail (corrupt file, transport error)")
assumed("self.confirm", result=NONE,
        raises={"LockBroken": None, "LockNotHeld": lambda c: Not(c.self._lock_held), "Exception": None})
assumed("lock.cant_unlock_not_held", result=NONE, raises={"LockNotHeld": "unchanged"})
assumed("self._read_info_file", pure=True, result=INFO, raises={"Exception": None})
assumed("self._check_not_locked", pure=True, result=NONE, raises={"AssertionError": None})

P = "breezy/lockdir.py::LockDir."
LOG_EQUIV = {r"_trace\(|\| note\(|time\.time\(\)|old_nonce|lock\.LockResult|rand_chars\(": "tracing, timing, result objects and the length of random names: outside the property",
             r"drop:Expr.*\| hook\(result\)": "lock_released hooks are notifications: outside the property",
             r"drop:Expr.*\| self\.transport\.delete_tree\(": "fallback cleanup of a non-empty releasing directory: leaves garbage, never an unrecoverable lock",
             r"drop:Expr.*\| self\.create\(": "creating the missing lock directory: without it the second mkdir fails and the call fails safely"}


def ours_in_place(c):
    return And(c.g.held, Not(c.g.hinfo.is_none), Not(c.self.nonce.is_none), attr(c.g.hinfo.val, "nonce") == c.self.nonce.val)


CREATE = verified(("LockDir", "_create_pending_dir"), result=STR,
                  modifies=["g.pend", "g.pinfo", "self.nonce"],
                  requires=lambda c: Not(ours_in_place(c)),
                  ensures=lambda c: And(same_lock(c), In(c.result, c.g.pend), In(c.result, c.g.pinfo), Not(In(c.result, c.old.g.pend)),
                                        Complete(c.g.pinfo[c.result]), Not(c.self.nonce.is_none),
                                        attr(c.g.pinfo[c.result], "nonce") == c.self.nonce.val, Not(ours_in_place(c))),
                  raises={"Exception": lambda c: And(same_lock(c), Not(ours_in_place(c)))})
target(P + "_create_pending_dir", contract=CREATE, requires=lambda c: And(crash_ok(c.g), Not(ours_in_place(c))), crash_inv=lambda c: crash_ok(c.g),
       canary=lambda c: c.g.pend == c.old.g.pend, equivalent_mutants=LOG_EQUIV)

REMOVE = verified(("LockDir", "_remove_pending_dir"), params=["tmpname"], result=NONE, modifies=["g.pend", "g.pinfo"],
                  ensures=lambda c: And(same_lock(c),
                                        # removed, or the transport refused and the error was only reported
                                        Or(And(Not(In(c.tmpname, c.g.pend)), Not(In(c.tmpname, c.g.pinfo))),
                                           lift(c.calls("self.transport.delete", failed=True) + c.calls("self.transport.rmdir", failed=True) > 0)
                                           if hasattr(c, "calls") else TRUE)),
                  raises={"Exception": lambda c: same_lock(c)})
target(P + "_remove_pending_dir", params=dict(tmpname=STR),
       requires=lambda c: crash_ok(c.g), crash_inv=lambda c: crash_ok(c.g),
       modifies=["g.pend", "g.pinfo"],
       ensures={"lock_untouched": same_lock,
                "removed_unless_transport_refused": lambda c: Or(
                    And(Not(In(c.old.tmpname, c.g.pend)), Not(In(c.old.tmpname, c.g.pinfo))),
                    lift(c.calls("self.transport.delete", failed=True) + c.calls("self.transport.rmdir", failed=True) > 0))},
       raises={"Exception": same_lock}, canary=lambda c: c.g.pend == c.old.g.pend, equivalent_mutants=LOG_EQUIV)

# the contention handler (verified in C26) seen from _attempt_lock: it may break a dead holder's lock, never touches our pending dir
assumed(("LockDir", "_handle_lock_contention"), params=["other_holder"], result=NONE,
        modifies=["g.held", "g.hinfo", "g.pend", "g.pinfo"],
        ensures=lambda c: And(crash_ok(c.g), In(c.tmpname, c.g.pend), In(c.tmpname, c.g.pinfo), c.g.pinfo[c.tmpname] == c.old.g.pinfo[c.tmpname],
                              Not(ours_in_place(c))),
        raises={"LockContention": "unchanged",
                "Exception": lambda c: And(crash_ok(c.g), In(c.tmpname, c.g.pend), In(c.tmpname, c.g.pinfo),
                                           c.g.pinfo[c.tmpname] == c.old.g.pinfo[c.tmpname], Not(ours_in_place(c)))},
        note="C26 verifies force_break/_handle_lock_contention; here only its frame on our own pending directory is used")

target(P + "_attempt_lock",
       requires=lambda c: And(crash_ok(c.g), Not(c.self._lock_held), Not(ours_in_place(c))),
       crash_inv=lambda c: crash_ok(c.g), partial=True,
       loops={1: loop(r"while True:", lambda c: And(In(c.tmpname, c.g.pend), In(c.tmpname, c.g.pinfo), Complete(c.g.pinfo[c.tmpname]),
                                                    Not(c.self.nonce.is_none), attr(c.g.pinfo[c.tmpname], "nonce") == c.self.nonce.val,
                                                    Not(c.self._lock_held), crash_ok(c.g), Not(ours_in_place(c))),
                      note="retry loop: termination is not claimed (another process may keep winning)")},
       modifies=["g.held", "g.hinfo", "g.pend", "g.pinfo", "self.nonce", "self._lock_held"],
       ensures={"holds_the_lock": lambda c: And(ours_in_place(c), c.self._lock_held, Complete(c.g.hinfo.val), eq(c.result, c.self.nonce))},
       raises={"LockFailed": lambda c: And(Not(ours_in_place(c)), Not(c.self._lock_held),
                                           # failure is only reported after creating the pending directory failed or a rename was tried
                                           lift(c.calls("LockDir._create_pending_dir", failed=True) == 1 or c.calls("self.transport.rename") >= 1)),
               "LockContention": lambda c: And(Not(ours_in_place(c)), Not(c.self._lock_held), lift(c.calls("self.transport.rename") >= 1)),
               # a failing call never leaves this process's lock in place while reporting failure
               "Exception": lambda c: And(Not(ours_in_place(c)), Not(c.self._lock_held))},
       canary=lambda c: Not(c.g.held), equivalent_mutants=LOG_EQUIV)

target(P + "unlock",
       requires=lambda c: crash_ok(c.g), crash_inv=lambda c: crash_ok(c.g),
       loops={1: loop(r"for hook in self\.hooks\[", lambda c: TRUE)},
       modifies=["g.held", "g.hinfo", "g.pend", "g.pinfo", "self._lock_held", "self._locked_via_token", "self._fake_read_lock"],
       ensures={"released": lambda c: Implies(And(c.old.self._lock_held, Not(c.old.self._locked_via_token), Not(c.old.self._fake_read_lock)),
                                              # (only_raises swallows other errors: if confirming or renaming failed, nothing was done)
                                              If(c.calls("self.confirm", failed=True) + c.calls("self.transport.rename", failed=True) > 0,
                                                 And(same_lock(c), c.self._lock_held),
                                                 And(Not(c.g.held), Not(c.self._lock_held)))),
                "never_deletes_inside_held": lambda c: lift(c.before("self.transport.rename", "self.transport.delete")),
                "confirms_ownership_before_releasing": lambda c: lift(c.calls("self.transport.rename") == 0 or
                                                                      (c.calls("self.confirm") == 1 and c.before("self.confirm", "self.transport.rename"))),
                "token_and_fake_locks_only_touch_the_object": lambda c: And(
                    Implies(c.old.self._fake_read_lock, And(same_lock(c), Not(c.self._fake_read_lock), c.self._lock_held == c.old.self._lock_held)),
                    Implies(And(Not(c.old.self._fake_read_lock), c.old.self._lock_held, c.old.self._locked_via_token),
                            And(same_lock(c), Not(c.self._lock_held), Not(c.self._locked_via_token)))),
                "unlock_when_not_held_is_refused": lambda c: Implies(And(Not(c.old.self._fake_read_lock), Not(c.old.self._lock_held)),
                                                                     lift(c.calls("lock.cant_unlock_not_held") == 1)),
                "no_releasing_directory_left_behind": lambda c: Implies(
                    lift(c.calls("self.transport.rename", failed=False) == 1 and c.calls("self.transport.delete", failed=True) == 0
                         and c.calls("self.transport.delete_tree", failed=True) == 0 and c.calls("self.transport.rmdir", failed=True) <= 1
                         and (c.calls("self.transport.rmdir", failed=True) == 0 or c.calls("self.transport.delete_tree") == 1)),
                    And(c.g.pend == c.old.g.pend, Implies(Not(In(c.tmpname, c.old.g.pinfo)) if c.has("tmpname") else TRUE,
                                                           Not(In(c.tmpname, c.g.pinfo)) if c.has("tmpname") else TRUE)))},
       equivalent_mutants=LOG_EQUIV,
       raises={"LockNotHeld": lambda c: And(same_lock(c), Not(c.old.self._lock_held)),
               "LockBroken": lambda c: same_lock(c)},
       canary=lambda c: c.g.held)

target(P + "force_break", params=dict(dead_holder_info=INFO),
       requires=lambda c: crash_ok(c.g), crash_inv=lambda c: crash_ok(c.g),
       loops={1: loop(r"for hook in self\.hooks\[", lambda c: TRUE)},
       ensures=lambda c: crash_ok(c.g), raises={"Exception": lambda c: crash_ok(c.g)},
       skip_mutants=True, note="only the crash invariant here; the functional contract of force_break (and its mutants) is C26")

undecided("crashes inside the transport operations themselves (rename/mkdir atomicity is assumed)")
undecided("interference by other processes between two operations (C26)")
