# Shared model of LengthPrefixedBodyDecoder (smart protocol v1/v2 bodies), used by C29 and C30.
# The encoded message:   Pre ++ "\n" ++ Body ++ "done\n" ++ Extra      with Pre the decimal length of Body (no newline inside).
# Ghost: delivered = how many bytes of the message accept_bytes has been given so far; taken = the body bytes already handed to the reader.
SOLVER_RACE = True       # sequence-heavy obligations: z3 and cvc5 side by side, first definite answer wins
BUDGET_MUTANTS = 20
BUDGET_QUICK = 30        # per-obligation budget in seconds (the obligations need 1-9 s in cvc5 on an idle machine)
Pre = ufunc("Pre", BYTES)
Body = ufunc("Body", BYTES)
Extra = ufunc("Extra", BYTES)
NL = lift(b"\n")
DONE = lift(b"done\n")
ghost(delivered=INT, taken=BYTES)
STATES = Enum("LPDState", ["_state_accept_expecting_length", "_state_accept_reading_body", "_state_accept_reading_trailer",
                           "_state_accept_reading_unused"])
READS = Enum("LPDRead", ["_state_read_no_data", "_state_read_body_buffer"])
LPD = cls("LengthPrefixedBodyDecoder",
          fields={"finished_reading": BOOL, "_in_buffer_list": Seq(BYTES), "_in_buffer_len": INT, "unused_data": BYTES,
                  "bytes_left": Opt(INT), "_number_needed_bytes": Opt(INT), "state_accept": STATES, "state_read": READS,
                  "_body": BYTES, "_trailer_buffer": BYTES})
JoinB = fold_cat("JoinB", Seq(BYTES), BYTES, lambda e: e)
assumed("b''.join", pure=True, no_raise=True, returns=lambda c: JoinB(c.args[0]))
exceptions(AssertionError="Exception", TypeError="Exception", ValueError="Exception", _NeedMoreBytes="Exception")
instance_of(BYTES, "bytes") if False else None
D = "breezy/bzr/smart/protocol.py::"


def msg():
    return Pre() + NL + Body() + DONE + Extra()


def wf_message():
    """the message is well formed: the prefix is the decimal length of the body and holds no newline"""
    return And(Not(In(NL, Pre())), Len(Pre()) >= 1, IntOfPre() == Len(Body()))


IntOfPre = ufunc("IntOfPre", INT)        # int(Pre): what the length prefix denotes
assumed("int", pure=True, returns=lambda c: IntOfPre(), requires=lambda c: c.args[0] == Pre(), no_raise=True,
        note="int() of the length prefix is the body length (decimal encoding: assumed inverse of the encoder's b'%d' % len(body))")


def buf(s):
    return JoinB(s._in_buffer_list)


def buffer_ok(s):
    return s._in_buffer_len == Len(buf(s))


def consumed(s):
    """how many bytes of the message have been taken out of the input buffer, as a function of the decoder state"""
    hdr, n = Len(Pre()) + 1, Len(Body())
    return If(s.state_accept == "_state_accept_expecting_length", 0,
              If(s.state_accept == "_state_accept_reading_body", hdr + n - s.bytes_left.val,
                 If(s.state_accept == "_state_accept_reading_trailer", hdr + n + Len(s._trailer_buffer),
                    hdr + n + 5 + Len(s.unused_data))))


def delivered(s):
    return consumed(s) + Len(buf(s))


def P_common(s):
    m = msg()
    c = consumed(s)
    return And(buffer_ok(s), delivered(s) <= Len(m), buf(s) == m[c:delivered(s)])


def P(s, taken):
    """state-indexed invariant of the decoder against the message (the input buffer may hold undigested bytes)"""
    return And(P_common(s), P_state(s, taken))


def P_state(s, taken):
    hdr, n = Len(Pre()) + 1, Len(Body())
    m = msg()
    st_len = And(s.bytes_left.is_none, s._body == lift(b""), s._trailer_buffer == lift(b""), taken == lift(b""), Not(s.finished_reading),
                 s.unused_data == lift(b""), s.state_read == "_state_read_no_data")
    st_body = And(Not(s.bytes_left.is_none), s.bytes_left.val >= 0, s.bytes_left.val <= n,
                  taken + s._body == Body()[0:n - s.bytes_left.val], s._trailer_buffer == lift(b""), Not(s.finished_reading),
                  s.unused_data == lift(b""), s.state_read == "_state_read_body_buffer")
    st_trail = And(s.bytes_left.is_none, taken + s._body == Body(), Len(s._trailer_buffer) <= 5 + Len(Extra()),
                   s._trailer_buffer == m[hdr + n:hdr + n + Len(s._trailer_buffer)], Not(s.finished_reading),
                   s.unused_data == lift(b""), s.state_read == "_state_read_body_buffer")
    st_unused = And(s.bytes_left.is_none, taken + s._body == Body(), s.finished_reading, Len(s.unused_data) <= Len(Extra()),
                    s.unused_data == Extra()[0:Len(s.unused_data)], s.state_read == "_state_read_body_buffer")
    return If(s.state_accept == "_state_accept_expecting_length", st_len,
              If(s.state_accept == "_state_accept_reading_body", st_body,
                 If(s.state_accept == "_state_accept_reading_trailer", st_trail, st_unused)))


def resting(s):
    """between two accept_bytes calls every byte that could be digested has been"""
    return If(s.state_accept == "_state_accept_expecting_length", Not(In(NL, buf(s))),
              And(Len(buf(s)) == 0,
                  Implies(s.state_accept == "_state_accept_reading_body", s.bytes_left.val > 0),
                  Implies(s.state_accept == "_state_accept_reading_trailer", Len(s._trailer_buffer) < 5)))


def R(s, taken):
    return And(P(s, taken), resting(s))
