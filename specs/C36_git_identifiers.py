# C36 - git identifier mappings are inverse pairs: branch/tag names <-> refs, git SHAs <-> revision ids (proved);
# path <-> file id (proved given the escaping); file-id escaping and URL conversion (Rust) are covered by the bounded stand-in (bounded/C36.py).
Enc8 = ufunc("Enc8", STR, BYTES)      # str.encode("utf-8")
Dec8 = ufunc("Dec8", BYTES, STR)      # bytes.decode("utf-8")
assume_note("utf-8: Dec8(Enc8(s)) == s for every str s (used in the round-trip lemmas)")
assumed("name.encode", pure=True, no_raise=True, returns=lambda c: Enc8(c.name))
assumed("ref[len(LOCAL_BRANCH_PREFIX):].decode", pure=True, returns=lambda c: Dec8(c.ref[11:Len(c.ref)]),
        raises={"UnicodeDecodeError": None})
assumed("ref[len(LOCAL_TAG_PREFIX):].decode", pure=True, returns=lambda c: Dec8(c.ref[10:Len(c.ref)]),
        raises={"UnicodeDecodeError": None})
const("LOCAL_BRANCH_PREFIX", b"refs/heads/")
const("LOCAL_TAG_PREFIX", b"refs/tags/")
exceptions(ValueError="Exception", UnicodeDecodeError="ValueError", InvalidRevisionId="Exception")
BP, TP = lift(b"refs/heads/"), lift(b"refs/tags/")
R = "breezy/git/refs.py::"


def startswith(s, p):
    return And(Len(s) >= Len(p), s[0:Len(p)] == p)


def branch_ref(name):
    return If(name == lift(""), lift(b"HEAD"), If(startswith(name, lift("refs/")), Enc8(name), BP + Enc8(name)))


target(R + "branch_name_to_ref", params=dict(name=STR), result=BYTES,
       ensures={"spec": lambda c: c.result == branch_ref(c.old.name)}, raises={}, canary=lambda c: c.result == lift(b"HEAD"))
target(R + "tag_name_to_ref", params=dict(name=STR), result=BYTES,
       ensures={"spec": lambda c: c.result == TP + Enc8(c.old.name)}, raises={}, canary=lambda c: Len(c.result) == 0)

target(R + "ref_to_branch_name", params=dict(ref=BYTES), result=STR,      # (ref None is passed through as None: outside this contract)
       ensures={"spec": lambda c: If(c.old.ref == lift(b"HEAD"), c.result == lift(""),
                                     And(startswith(c.old.ref, BP), c.result == Dec8(c.old.ref[11:Len(c.old.ref)])))},
       raises={"ValueError": lambda c: And(c.old.ref != lift(b"HEAD"), Not(startswith(c.old.ref, BP))),
               "UnicodeDecodeError": lambda c: startswith(c.old.ref, BP)},
       canary=lambda c: Len(c.result) == 0,
       equivalent_mutants={r"if ref is None|return ref$": "None is passed through: outside this contract (ref is a byte string here)"})
target(R + "ref_to_tag_name", params=dict(ref=BYTES), result=STR,
       ensures={"spec": lambda c: And(startswith(c.old.ref, TP), c.result == Dec8(c.old.ref[10:Len(c.old.ref)]))},
       raises={"ValueError": lambda c: Not(startswith(c.old.ref, TP)), "UnicodeDecodeError": lambda c: startswith(c.old.ref, TP)},
       canary=lambda c: Len(c.result) == 0)

# ---- round trips as lemmas over the contracts (hypotheses are exactly the postconditions above)
lemma("tag_names_round_trip", [("name", STR), ("ref", BYTES), ("back", STR)],
      lambda name, ref, back: [Dec8(Enc8(name)) == name, ref == TP + Enc8(name),
                               Implies(startswith(ref, TP), back == Dec8(ref[10:Len(ref)]))],
      lambda name, ref, back: And(startswith(ref, TP), back == name),
      note="ref_to_tag_name(tag_name_to_ref(name)) == name, and the intermediate ref is accepted")
lemma("branch_names_round_trip_unless_they_start_with_refs", [("name", STR), ("ref", BYTES), ("back", STR)],
      lambda name, ref, back: [Dec8(Enc8(name)) == name, ref == branch_ref(name), Not(startswith(name, lift("refs/"))),
                               If(ref == lift(b"HEAD"), back == lift(""), Implies(startswith(ref, BP), back == Dec8(ref[11:Len(ref)])))],
      lambda name, ref, back: And(Or(ref == lift(b"HEAD"), startswith(ref, BP)), back == name),
      note="ref_to_branch_name(branch_name_to_ref(name)) == name for names that do not begin with 'refs/'")
lemma("branch_names_round_trip", [("name", STR), ("ref", BYTES), ("back", STR)],
      lambda name, ref, back: [Dec8(Enc8(name)) == name, ref == branch_ref(name),
                               If(ref == lift(b"HEAD"), back == lift(""), Implies(startswith(ref, BP), back == Dec8(ref[11:Len(ref)])))],
      lambda name, ref, back: And(Or(ref == lift(b"HEAD"), startswith(ref, BP)), back == name),
      note="the statement for ALL branch names: fails for names beginning with 'refs/' (finding F6)")

# ---- git SHA <-> revision id
M = "breezy/git/mapping.py::BzrGitMapping."
attr_sort("*.revid_prefix", BYTES)
const("ZERO_SHA", b"0" * 40)
const("NULL_REVISION", b"null:")
ZERO = lift(b"0" * 40)
TRANSPARENT_DECORATORS = ("classmethod",)
pure("cls")


def revid_of(cls_, sha):
    return attr(cls_, "revid_prefix") + lift(b":") + sha


target(M + "revision_id_foreign_to_bzr", params=dict(cls=ANY, git_rev_id=BYTES), result=BYTES,
       ensures={"spec": lambda c: c.result == If(c.old.git_rev_id == ZERO, lift(b"null:"), revid_of(c.old.cls, c.old.git_rev_id))},
       raises={}, canary=lambda c: c.result == lift(b"null:"))
target(M + "revision_id_bzr_to_foreign", params=dict(cls=ANY, bzr_rev_id=BYTES), result=Tup(BYTES, ANY),
       ensures={"spec": lambda c: And(startswith(c.old.bzr_rev_id, attr(c.old.cls, "revid_prefix") + lift(b":")),
                                      c.result[0] == c.old.bzr_rev_id[Len(attr(c.old.cls, "revid_prefix")) + 1:Len(c.old.bzr_rev_id)])},
       raises={"InvalidRevisionId": lambda c: Not(startswith(c.old.bzr_rev_id, attr(c.old.cls, "revid_prefix") + lift(b":")))},
       canary=lambda c: Len(c.result[0]) == 0)
lemma("git_shas_round_trip", [("cls_", ANY), ("sha", BYTES), ("revid", BYTES), ("back", BYTES)],
      lambda cls_, sha, revid, back: [sha != ZERO, revid == revid_of(cls_, sha),
                                      Implies(startswith(revid, attr(cls_, "revid_prefix") + lift(b":")),
                                              back == revid[Len(attr(cls_, "revid_prefix")) + 1:Len(revid)])],
      lambda cls_, sha, revid, back: And(startswith(revid, attr(cls_, "revid_prefix") + lift(b":")), back == sha),
      note="revision_id_bzr_to_foreign(revision_id_foreign_to_bzr(sha)) == sha for every non-zero sha")

# ---- path <-> file id (the escaping itself is Rust: assumed inverse, cross-checked exhaustively by the bounded part)
EncP = ufunc("EncP", STR, BYTES)      # encode_git_path: utf-8 with surrogateescape
DecP = ufunc("DecP", BYTES, STR)      # decode_git_path
Esc = ufunc("Esc", BYTES, BYTES)      # escape_file_id (crates/git)
Unesc = ufunc("Unesc", BYTES, BYTES)  # unescape_file_id
assume_note("git paths: DecP(EncP(p)) == p for every str a git tree hands out and EncP(DecP(b)) == b for every byte string "
            "(utf-8 with surrogateescape); Unesc(Esc(b)) == b (Rust; bounded part); FILE_ID_PREFIX is b'git:' and ROOT_ID b'TREE_ROOT'")
assumed("encode_git_path", pure=True, no_raise=True, returns=lambda c: EncP(c.args[0]))
assumed("decode_git_path", pure=True, no_raise=True, returns=lambda c: DecP(c.args[0]))
assumed("escape_file_id", pure=True, no_raise=True, returns=lambda c: Esc(c.args[0]))
assumed("unescape_file_id", pure=True, no_raise=True, returns=lambda c: Unesc(c.args[0]))
const("ROOT_ID", b"TREE_ROOT")
const("FILE_ID_PREFIX", b"git:")
FP, ROOT = lift(b"git:"), lift(b"TREE_ROOT")


def file_id_of(b):
    return If(b == lift(b""), ROOT, FP + Esc(b))


target(M + "generate_file_id", params=dict(path=STR), result=BYTES, variant="str",
       ensures={"spec": lambda c: c.result == file_id_of(EncP(c.old.path))}, raises={}, canary=lambda c: c.result == ROOT)
target(M + "generate_file_id", params=dict(path=BYTES), result=BYTES, variant="bytes",
       ensures={"spec": lambda c: c.result == file_id_of(c.old.path)}, raises={}, canary=lambda c: c.result == ROOT, skip_mutants=True)
target(M + "parse_file_id", params=dict(file_id=BYTES), result=STR,
       ensures={"spec": lambda c: If(c.old.file_id == ROOT, c.result == lift(""),
                                     And(startswith(c.old.file_id, FP), c.result == DecP(Unesc(c.old.file_id[4:Len(c.old.file_id)]))))},
       raises={"ValueError": lambda c: And(c.old.file_id != ROOT, Not(startswith(c.old.file_id, FP)))},
       canary=lambda c: Len(c.result) == 0)
lemma("paths_round_trip_through_file_ids", [("p", STR), ("fid", BYTES), ("back", STR)],
      lambda p, fid, back: [DecP(EncP(p)) == p, Unesc(Esc(EncP(p))) == EncP(p), DecP(lift(b"")) == lift(""),
                            fid == file_id_of(EncP(p)),
                            If(fid == ROOT, back == lift(""), Implies(startswith(fid, FP), back == DecP(Unesc(fid[4:Len(fid)]))))],
      lambda p, fid, back: And(Or(fid == ROOT, startswith(fid, FP)), back == p),
      note="parse_file_id(generate_file_id(path)) == path (given the assumed inverse laws of the path codec and the Rust escaping)")

undecided("escape_file_id/unescape_file_id and git_url_to_bzr_url/bzr_url_to_git_url (Rust): "
          "bounded stand-in only (bounded/C36.py), not proved")
undecided("GitBranch.set_parent / _get_parent_location round trip (configuration store)")
